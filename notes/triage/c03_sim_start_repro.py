import atomica as at, numpy as np
s = at.ProjectSettings(2000, 2035, 0.25)
s.sim_start = 2000.1
tv = s.tvec
print('spacing', np.diff(tv)[:3], 'dt', s.sim_dt, 'end', tv[-1])
s2 = at.ProjectSettings(2000, 2035, 0.25)
s2.update_time_vector(start=2000.1)
print('spacing', np.diff(s2.tvec)[:3], 'dt', s2.sim_dt, 'end', s2.tvec[-1])
P = at.demo('udt', do_run=False)
P.settings.update_time_vector(start=2016.1)
res = P.run_sim(P.parsets[0])
print('model dt', res.dt, 'result spacing', np.diff(res.t)[:3], 'last', res.t[-1])
import sys
sys.exit(0 if np.allclose(np.diff(res.t), res.dt, rtol=0, atol=1e-9) else 1)
