"""
Triage only (not a check): reproduce, against the real code, representatives of each category of R18b sites
(non-dedicated error class escaping a loader).  Content edits are made on the loaded tables (the same objects the
spreadsheet reader fills) and the loader's own validation entry point is re-run, so the code path is the one a file with
that content takes.  Run: /venv/bin/python notes/triage/c18_repro.py
"""
import warnings
warnings.filterwarnings("ignore")
import numpy as np
import atomica as at
import sciris as sc

L = at.LIBRARY_PATH
DED = (at.InvalidFramework, at.InvalidDatabook, at.InvalidProgramBook, at.InvalidCascade)

def attempt(label, fn):
    try:
        fn()
        print("%-62s -> accepted (no error)" % label)
    except Exception as e:
        print("%-62s -> %s%s: %s" % (label, "" if isinstance(e, DED) else "NON-DEDICATED ", type(e).__name__, str(e)[:80].replace("\n", " ")))

fw_file, db_file, pb_file = L / "udt_framework.xlsx", L / "udt_databook.xlsx", L / "udt_progbook.xlsx"

# 1. wrong kind of workbook (validate_category)
attempt("databook given as framework", lambda: at.ProjectFramework(db_file))
F = at.ProjectFramework(fw_file)
attempt("framework given as databook", lambda: at.ProjectData.from_spreadsheet(fw_file, F))
D = at.ProjectData.from_spreadsheet(db_file, F)
attempt("databook given as program book", lambda: at.ProgramSet.from_spreadsheet(db_file, framework=F, data=D))

# 2. parameter functions (parse_function inside ProjectFramework._validate)
def fw_with_function(text):
    G = at.ProjectFramework(fw_file)
    df = G.sheets["parameters"][0]
    col = [c for c in df.columns if str(c).strip().lower() == "function"][0]
    idx = df.index[0]
    df.loc[idx, col] = text
    G._validate()
for txt in ["foo__bar + 1", "open('x')", "1 +* 2", "1+" * 1000 + "1"]:
    attempt("parameter function %r" % txt[:20], lambda txt=txt: fw_with_function(txt))

# 3. plots sheet (evaluate_plot_string / _extract_labels inside ProjectFramework._validate)
def fw_with_plot(text):
    import pandas as pd
    G = at.ProjectFramework(fw_file)
    G.sheets["plots"] = [pd.DataFrame({"name": ["p"], "type": [None], "quantities": [text], "plot group": [None]})]
    G._validate()
for txt in ["{'a':['sus'],'b':['inf']}", "[__x__]", "[f(x)]", "[1 +"]:
    attempt("plot quantities %r" % txt, lambda txt=txt: fw_with_plot(txt))

# 4. cascades (validate_cascade inside ProjectFramework._validate)
def fw_with_cascade():
    import pandas as pd
    G = at.ProjectFramework(L / "tb_framework.xlsx")
    print("   (pop types:", list(G.pop_types.keys()), ")")
attempt("cascade spanning population types (needs a 2-type framework)", fw_with_cascade)

# 5. databook content (ProjectData.validate)
def db_validate(mod):
    d = at.ProjectData.from_spreadsheet(db_file, F)
    mod(d)
    d.validate(F)
def no_data(d):
    k = d.tdve.keys()[0]
    p = d.tdve[k].ts.keys()[0]
    d.tdve[k].ts[p] = at.TimeSeries(units=d.tdve[k].ts[p].units)
attempt("TDVE row with no values", lambda: db_validate(no_data))
def no_units(d):
    k = d.tdve.keys()[0]
    p = d.tdve[k].ts.keys()[0]
    d.tdve[k].ts[p].units = None
attempt("TDVE row with units missing", lambda: db_validate(no_units))
def wrong_units(d):
    k = d.tdve.keys()[0]
    p = d.tdve[k].ts.keys()[0]
    d.tdve[k].ts[p].units = "bananas"
attempt("TDVE row with wrong units", lambda: db_validate(wrong_units))
def bad_poptype(d):
    d.pops[d.pops.keys()[0]]["type"] = "nonexistent"
attempt("population with unknown population type", lambda: db_validate(bad_poptype))
def bad_tdve_poptype(d):
    d.tdve[d.tdve.keys()[0]].pop_type = "nonexistent"
attempt("TDVE table with unknown population type", lambda: db_validate(bad_tdve_poptype))

# transfers / interactions need a databook that has them
F2 = at.ProjectFramework(L / "tb_framework.xlsx")
def db2_validate(mod):
    d = at.ProjectData.from_spreadsheet(L / "tb_databook.xlsx", F2)
    mod(d)
    d.validate(F2)
def transfer_unknown_pop(d):
    t = d.transfers[0]
    (a, b) = list(t.ts.keys())[0]
    t.ts[(a, "ghost")] = t.ts.pop((a, b))
attempt("transfer to an undefined population", lambda: db2_validate(transfer_unknown_pop))
def transfer_no_data(d):
    t = d.transfers[0]
    k = list(t.ts.keys())[0]
    t.ts[k] = at.TimeSeries(units=t.ts[k].units)
attempt("transfer with no values", lambda: db2_validate(transfer_no_data))
def transfer_bad_type(d):
    d.transfers[0].from_pop_type = "nonexistent"
attempt("transfer with unknown population type", lambda: db2_validate(transfer_bad_type))
def interaction_no_data(d):
    t = d.interpops[0]
    k = list(t.ts.keys())[0]
    t.ts[k] = at.TimeSeries(units=t.ts[k].units)
attempt("interaction with no values", lambda: db2_validate(interaction_no_data))
def interaction_unknown_pop(d):
    t = d.interpops[0]
    (a, b) = list(t.ts.keys())[0]
    t.ts[(a, "ghost")] = t.ts.pop((a, b))
attempt("interaction with an undefined population", lambda: db2_validate(interaction_unknown_pop))

# 6. program book content (ProgramSet.validate)
def pb_validate(mod):
    p = at.ProgramSet.from_spreadsheet(pb_file, framework=F, data=D)
    mod(p)
    p.validate()
def no_comps(p):
    p.programs[p.programs.keys()[0]].target_comps = []
attempt("program that targets no compartments", lambda: pb_validate(no_comps))
def no_pops(p):
    p.programs[p.programs.keys()[0]].target_pops = []
attempt("program that targets no populations", lambda: pb_validate(no_pops))

# 6b. the program books of the library do not load under the installed pandas; a blank program set has the same content as a book without targeting
P = at.ProgramSet.new(framework=F, data=D, progs=2, tvec=np.array([2020.0]))
attempt("program book whose programs target no compartments", lambda: P.validate())
def _pops_only():
    p = P.programs[P.programs.keys()[0]]
    p.target_comps = [F.comps.index[0]]
    P.validate()
attempt("program book whose programs target no populations", _pops_only)
