import atomica as at, numpy as np, math, sciris as sc
F = at.ProjectFramework('/repo/tests/timed_test_framework.xlsx')
P = at.Project(framework=F, databook='/repo/tests/timed_test_databook.xlsx', do_run=False)
P.settings.update_time_vector(start=2018, end=2022, dt=0.25)
timed = [p for p in F.pars.index if F.pars.at[p,'timed']=='y']
print('timed parameters:', timed)
ps = P.parsets[0].copy()
bad = []
for y in (1.0, 2.0, 0.5):
    ps2 = sc.dcp(ps)
    for p in timed:
        for pop in ps2.pars[p].ts:
            ps2.pars[p].y_factor[pop] = y
    res = P.run_sim(ps2, store_results=False)
    for pop in res.model.pops:
        for c in pop.comps:
            if isinstance(c, at.model.TimedCompartment):
                par = c.parameter
                D = par.vals[0] * par.timescale      # the duration the result reports (databook x y-factor), in years
                want = max(1, int(round(D / res.dt))) if abs(D/res.dt - round(D/res.dt)) < 1e-9 else math.ceil(D / res.dt)
                rows = c._vals.shape[0]
                print('y=%.1f %s/%s: reported duration %.3f y -> expected %d rows, keyring has %d' % (y, pop.name, c.name, D, want, rows))
                if rows != want: bad.append((y, pop.name, c.name, want, rows))
print('MISMATCH' if bad else 'ok', bad)
raise SystemExit(1 if bad else 0)
