import atomica as at, numpy as np, sciris as sc
from atomica.reconciliation import _convert_to_single_year
P = at.demo('tb_simple', do_run=False)
ps = sc.dcp(P.progsets[0])
prog = list(ps.programs.values())[0]
prog.saturation.insert(2015, 0.8)
prog.saturation.insert(2017, 0.9)
new = _convert_to_single_year(ps, 2018)
print('saturation in memory after conversion: t=', new.programs[prog.name].saturation.t, 'vals=', new.programs[prog.name].saturation.vals, 'tvec=', new.tvec)
try:
    ss = new.to_spreadsheet()
    back = at.ProgramSet.from_spreadsheet(ss, framework=P.framework, data=P.data)
    b = back.programs[prog.name].saturation
    print('saturation after export/reload: t=', b.t, 'vals=', b.vals, 'assumption=', b.assumption)
    ok = list(b.t)==list(new.programs[prog.name].saturation.t)
except Exception as e:
    print('export raised', type(e).__name__, e)
    ok = False
print('preserved:', ok)
raise SystemExit(0 if ok else 1)
