import atomica as at, numpy as np
P = at.demo('tb_simple', do_run=False)
ps = P.parsets[0]
res0 = P.run_sim(ps, result_name='base')
par0 = res0.get_variable('pos_test')[0]
print('precompute?', par0._precompute, 'dynamic?', par0._is_dynamic, 'nan in baseline:', np.isnan(par0.vals).sum())
scvals = dict()
scen = at.ParameterScenario(name='ov')
scen.add('pos_test', res0.pop_names[0], [2020, 2025], [1000, 2000])
ps2 = scen.get_parset(ps, P)
res1 = P.run_sim(ps2, result_name='scen')
par1 = res1.get_variable('pos_test')[0]
print('NaN entries with scenario:', np.isnan(par1.vals).sum(), 'of', par1.vals.size, ' first NaN year', res1.t[np.isnan(par1.vals)][:1])
d0 = res0.get_variable('diag')[0].vals; d1 = res1.get_variable('diag')[0].vals
print('diag (dependent) NaN count', np.isnan(d1).sum())
import sys
sys.exit(1 if np.isnan(par1.vals).any() else 0)
