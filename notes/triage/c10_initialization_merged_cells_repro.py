import pandas as pd, numpy as np, atomica as at, io
from atomica.parameters import Initialization
init = Initialization({('x','a'):1.0, ('x','b'):2.0, ('y','b'): np.array([1.0,2.0])})
init.year=2020; init.dt=0.25; init.init_y_factor_hash='h'
f='/tmp/work/tri/init.xlsx'
with pd.ExcelWriter(f) as w:
    init.to_excel(w)
x = pd.ExcelFile(f)
back = Initialization.from_excel(x)
print(init.values)
print(back.values)
ok = set(back.values.keys())==set(init.values.keys())
print('keys preserved:', ok)
raise SystemExit(0 if ok else 1)
