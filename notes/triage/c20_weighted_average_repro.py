import atomica as at, numpy as np
P = at.demo('tb', do_run=False)
res = P.run_sim(P.parsets[0])
pop0 = res.model.pops[0]
names = [c.name for c in pop0.comps] + [c.name for c in pop0.characs] + [p.name for p in pop0.pars]
found = 0
for name in names:
    try:
        parts = at.PlotData(res, outputs=name, pops=res.pop_names)
        d = at.PlotData(res, outputs=name, pops=[{'all': res.pop_names}], pop_aggregation='weighted')
    except Exception as e:
        continue
    A = np.array([s.vals for s in parts.series])
    lo, hi = A.min(axis=0), A.max(axis=0)
    v = d.series[0].vals
    bad = ~((v >= lo - 1e-9) & (v <= hi + 1e-9)) & np.isfinite(lo) & np.isfinite(hi)
    if bad.any():
        found += 1
        i = np.where(bad)[0][0]
        print("output %-12s t=%s parts=%s weighted=%s" % (name, parts.series[0].tvec[i], A[:, i], v[i]))
print("outputs with a weighted average outside the range of its parts:", found)
