import atomica as at, numpy as np, sciris as sc
P = at.demo('tb', do_run=False)
ps = P.parsets[0]; pg = P.progsets[0]
ins = at.ProgramInstructions(start_year=P.settings.sim_start)
res = P.run_sim(ps, pg, ins, store_results=False)
m = res.model
juncs = [(p.name, c.name, c.vals[0]) for p in m.pops for c in p.comps if isinstance(c, at.model.JunctionCompartment)]
print('junctions:', len(juncs))
bad = []
n = 0
for pop in m.pops:
    for par in pop.pars:
        if par.links and par.units == at.FrameworkSettings.QUANTITY_TYPE_NUMBER and (par.name, pop.name) in pg.covouts:
            n += 1
            # what the cache held at ti=0 vs the actual post-flush source size
            actual = sum(l.source.vals[0] if not hasattr(l.source,'_vals') or l.source._vals.ndim==1 else l.source.vals[0] for l in par.links)
            par._source_popsize_cache_time = None
            fresh = par.source_popsize(0)
            # parameter value at t0 = outcome * popsize / dt ; compare to value at t1 scale
            cov = res.get_coverage('fraction', year=m.t[0])
            out = pg.get_outcomes({k: v for k, v in cov.items()})[(par.name, pop.name)]
            implied = np.clip(out * fresh / m.dt, *par.limits) if par.limits is not None else out * fresh / m.dt
            print(pop.name, par.name, 'value at t0', par.vals[0], 'implied with post-flush source size', float(np.ravel(implied)[0]))
            if not np.isclose(par.vals[0], np.ravel(implied)[0], rtol=1e-9, atol=1e-12): bad.append((pop.name, par.name, par.vals[0], float(np.ravel(implied)[0])))
print(n, 'number-type program parameters;', 'MISMATCH' if bad else 'ok', bad[:5])
raise SystemExit(1 if bad else 0)
