"""
Both-ways self-test (DESIGN 5): every rule must fire on a scratch copy with one instance broken (mutant) and stay
silent on a behaviour-preserving rewrite of the same site (twin).  Scratch copies live under a mkdtemp directory
outside /repo and /verif and are deleted as soon as the variant has been analysed.  Nothing is executed from the
scratch copy: it is only parsed by the same checkers.
"""
import ast
import concurrent.futures as cf
import contextlib
import io
import json
import os
import random
import shutil
import sys
import tempfile
import time
from pathlib import Path

from ..core.loader import Repo, AnalysisError
from ..core import report


def _func_span(src, qualname, setter=False):
    tree = ast.parse(src)
    parts = qualname.split(".")
    body = tree.body
    node = None
    for i, p in enumerate(parts):
        cands = [n for n in body if isinstance(n, (ast.FunctionDef, ast.ClassDef, ast.AsyncFunctionDef)) and n.name == p]
        if isinstance(node, (ast.FunctionDef, ast.AsyncFunctionDef)):
            cands = [n for n in ast.walk(node) if isinstance(n, (ast.FunctionDef, ast.AsyncFunctionDef)) and n.name == p and n is not node]
        if i == len(parts) - 1 and len(cands) > 1:
            # property getter/setter pair
            def is_setter(n):
                return any(ast.unparse(d).endswith(".setter") for d in n.decorator_list)

            cands = [n for n in cands if is_setter(n) == setter]
        if not cands:
            return None
        node = cands[0]
        body = node.body
    start = min([node.lineno] + [d.lineno for d in getattr(node, "decorator_list", [])])
    return start, node.end_lineno


def apply_edit(root, edit):
    """edit: dict(file, func (optional), old, new, setter(optional), count(optional)).  Returns None on success or a reason."""
    if "reverse_commit" in edit:
        # re-introduce a repaired defect: apply the fix commit of /repo in reverse to the scratch copy
        import subprocess

        try:
            diff = subprocess.run(["git", "-C", edit.get("repo", "/repo"), "show", "--format=", edit["reverse_commit"], "--", "atomica"], capture_output=True, check=True).stdout
        except Exception as e:
            return "fix commit %s not available: %s" % (edit["reverse_commit"], e)
        r = subprocess.run(["patch", "-R", "-p1", "-s", "-f", "--no-backup-if-mismatch", "-d", str(root)], input=diff, capture_output=True)
        if r.returncode != 0:
            return "reverse patch of %s does not apply: %s" % (edit["reverse_commit"], (r.stdout + r.stderr).decode()[:120])
        return None
    if "patch" in edit:
        # a stored seeded change (seeded/<id>/patch.diff) applied to the scratch copy
        import subprocess

        try:
            diff = open(edit["patch"], "rb").read()
        except OSError as e:
            return "patch file not readable: %s" % e
        r = subprocess.run(["patch", "-p1", "-s", "-f", "--no-backup-if-mismatch", "-d", str(root)], input=diff, capture_output=True)
        if r.returncode != 0:
            return "patch %s does not apply: %s" % (edit["patch"], (r.stdout + r.stderr).decode()[:120])
        return None
    p = Path(root) / edit["file"]
    if not p.exists():
        return "file %s missing" % edit["file"]
    src = p.read_text()
    if edit.get("func"):
        span = _func_span(src, edit["func"], edit.get("setter", False))
        if span is None:
            return "function %s not found" % edit["func"]
        lines = src.split("\n")
        seg = "\n".join(lines[span[0] - 1 : span[1]])
        if edit.get("rename_local"):
            seg2, cnt = rename_local_tokens(seg, edit["old"], edit["new"])
        elif edit.get("regex"):
            import re

            seg2, cnt = re.subn(edit["old"], edit["new"], seg)
        if edit.get("rename_local") or edit.get("regex"):
            if cnt == 0:
                return "pattern not found in %s" % edit["func"]
            new_src = "\n".join(lines[: span[0] - 1]) + ("\n" if span[0] > 1 else "") + seg2 + "\n" + "\n".join(lines[span[1] :])
            try:
                compile(new_src, str(p), "exec")
            except SyntaxError as e:
                return "variant does not compile: %s" % e
            p.write_text(new_src)
            return None
        cnt = seg.count(edit["old"])
        if cnt == 0:
            return "anchor text not found in %s" % edit["func"]
        if cnt > 1 and not edit.get("all"):
            return "anchor text occurs %d times in %s" % (cnt, edit["func"])
        seg2 = seg.replace(edit["old"], edit["new"])
        new_src = "\n".join(lines[: span[0] - 1]) + ("\n" if span[0] > 1 else "") + seg2 + "\n" + "\n".join(lines[span[1] :])
    else:
        cnt = src.count(edit["old"])
        if cnt == 0:
            return "anchor text not found in %s" % edit["file"]
        if cnt > 1 and not edit.get("all"):
            return "anchor text occurs %d times in %s" % (cnt, edit["file"])
        if edit.get("word"):
            import re

            new_src = re.sub(re.escape(edit["old"]) + r"\b", edit["new"], src)
        else:
            new_src = src.replace(edit["old"], edit["new"])
    try:
        compile(new_src, str(p), "exec")
    except SyntaxError as e:
        return "variant does not compile: %s" % e
    p.write_text(new_src)
    return None


def make_scratch(src_root="/repo"):
    d = tempfile.mkdtemp(prefix="atomica_sa_")
    os.makedirs(os.path.join(d, "atomica"))
    for f in Path(src_root, "atomica").glob("*.py"):
        shutil.copy(f, os.path.join(d, "atomica", f.name))
    return d


def rename_local_tokens(seg, old, new):
    """Rename NAME tokens `old` that are variable uses: not attributes (after '.'), not keyword-argument names."""
    import io
    import textwrap
    import tokenize

    indent = len(seg) - len(seg.lstrip(" "))
    ded = textwrap.dedent(seg)
    toks = list(tokenize.generate_tokens(io.StringIO(ded + "\n").readline))
    lines = ded.split("\n")
    depth, cnt, repl = 0, 0, []
    for i, t in enumerate(toks):
        if t.type == tokenize.OP and t.string in "([{":
            depth += 1
        elif t.type == tokenize.OP and t.string in ")]}":
            depth -= 1
        if t.type == tokenize.NAME and t.string == old:
            prev = next((x for x in reversed(toks[:i]) if x.type not in (tokenize.NL, tokenize.COMMENT, tokenize.NEWLINE, tokenize.INDENT, tokenize.DEDENT)), None)
            nxt = next((x for x in toks[i + 1 :] if x.type not in (tokenize.NL, tokenize.COMMENT)), None)
            if prev is not None and prev.string == ".":
                continue
            if depth > 0 and nxt is not None and nxt.string == "=" and prev is not None and prev.string in ("(", ","):
                continue
            repl.append(t)
    for t in sorted(repl, key=lambda t: (t.start[0], t.start[1]), reverse=True):
        r, c = t.start
        lines[r - 1] = lines[r - 1][:c] + new + lines[r - 1][c + len(old) :]
        cnt += 1
    out = "\n".join((" " * indent + l) if l.strip() else l for l in lines)
    return out, cnt


def analyse(prop, root):
    """Run the quick rules of ``prop`` on ``root``; returns (rc, [finding dicts])."""
    import importlib

    from ..rules import common

    mod = importlib.import_module("atomica_sa.rules.%s" % prop.lower())
    try:
        repo = Repo.load(root)
        ctx = report.Ctx(repo, prop, tier="quick")
        from ..rules import shapes

        shapes.run_all(mod, ctx, prop)
    except AnalysisError as e:
        return 2, [{"rule": "ANALYSIS-ERROR", "message": str(e), "function": "", "stmt": "", "module": ""}]
    known = report.load_known()
    known_list = [e for e in known.get("known", []) if e.get("property") == prop]
    new = [f for f in ctx.findings if not any(report.match_known(f, e) for e in known_list)]
    out = [f.as_dict() for f in new]
    if ctx.analysis_errors and not new:
        return 2, [{"rule": "ANALYSIS-ERROR", "message": "; ".join(ctx.analysis_errors), "function": "", "stmt": "", "module": ""}]
    return (1 if new else 0), out


def run_variant(variant, src_root="/repo"):
    t0 = time.time()
    d = make_scratch(src_root)
    try:
        edits = variant["edits"] if "edits" in variant else [variant]
        for e in edits:
            why = apply_edit(d, e)
            if why:
                return {"id": variant["id"], "status": "skipped", "why": why}
        try:
            rc, findings = analyse(variant["prop"], d)
        except Exception as ex:  # checker crashed on the variant
            import traceback

            return {"id": variant["id"], "status": "crash", "why": traceback.format_exc()[-800:]}
        return {"id": variant["id"], "status": "ran", "rc": rc, "findings": findings, "wall_s": round(time.time() - t0, 2)}
    finally:
        shutil.rmtree(d, ignore_errors=True)


def judge(variant, res, baseline_keys):
    """Returns (ok, text)."""
    if res["status"] == "skipped":
        return None, "skipped: %s" % res["why"]
    if res["status"] == "crash":
        return False, "checker crashed: %s" % res["why"][-300:]
    new = [f for f in res["findings"] if (f["rule"], f["module"], f["function"], f["stmt"]) not in baseline_keys]
    if variant["kind"] == "mutant":
        want = variant.get("rule")
        hit = [f for f in new if want is None or f["rule"] == want or f["rule"] in (want if isinstance(want, (list, tuple)) else [])]
        if res["rc"] == 2 and variant.get("accept_exit2"):
            return True, "analysis refuses the variant (exit 2): %s" % res["findings"][0]["message"][:120]
        if hit:
            return True, "fired %s at %s: %s" % (hit[0]["rule"], hit[0]["function"], hit[0]["message"][:100])
        return False, "did not fire (rc=%s, new findings: %s)" % (res["rc"], [(f["rule"], f["function"], f.get("message", "")[:60]) for f in new])
    else:
        if not new and res["rc"] in (0, 1):
            return True, "silent"
        return False, "twin raised: %s" % [(f["rule"], f["function"], f["message"][:100]) for f in new]


def load_catalog():
    from . import catalog

    ids = [v["id"] for v in catalog.VARIANTS]
    dup = sorted({i for i in ids if ids.count(i) > 1})
    if dup:
        raise AnalysisError("self-test catalogue has duplicate ids: %s" % dup)
    return catalog.VARIANTS


def run_for_property(prop, seed=0, jobs=None, src_root="/repo"):
    variants = [v for v in load_catalog() if v["prop"] == prop]
    random.Random(seed).shuffle(variants)
    if not variants:
        return {"ok": True, "mutants_fired": "0/0", "twins_silent": "0/0", "note": "no variants catalogued"}
    rc0, base = analyse(prop, src_root)
    baseline_keys = {(f["rule"], f["module"], f["function"], f["stmt"]) for f in base}
    jobs = jobs or min(16, len(variants))
    results = {}
    with cf.ProcessPoolExecutor(max_workers=jobs) as ex:
        futs = {ex.submit(run_variant, v, src_root): v for v in variants}
        for fut in cf.as_completed(futs):
            v = futs[fut]
            try:
                results[v["id"]] = fut.result()
            except Exception as e:
                results[v["id"]] = {"id": v["id"], "status": "crash", "why": repr(e)}
    out = {"variants": [], "failures": [], "skipped": []}
    m_ok = m_tot = t_ok = t_tot = 0
    for v in sorted(variants, key=lambda v: v["id"]):
        ok, text = judge(v, results[v["id"]], baseline_keys)
        out["variants"].append({"id": v["id"], "kind": v["kind"], "what": v.get("what", ""), "result": text})
        if ok is None:
            out["skipped"].append(v["id"])
            continue
        if v["kind"] == "mutant":
            m_tot += 1
            m_ok += bool(ok)
        else:
            t_tot += 1
            t_ok += bool(ok)
        if not ok:
            out["failures"].append("%s: %s" % (v["id"], text))
    out["mutants_fired"] = "%d/%d" % (m_ok, m_tot)
    out["twins_silent"] = "%d/%d" % (t_ok, t_tot)
    out["ok"] = not out["failures"]
    return out


def main(argv):
    props = argv or sorted({v["prop"] for v in load_catalog()})
    worst = 0
    for p in props:
        t0 = time.time()
        r = run_for_property(p)
        print("%s self-test: mutants fired %s, twins silent %s, skipped %d (%.1fs)" % (p, r["mutants_fired"], r["twins_silent"], len(r.get("skipped", [])), time.time() - t0))
        for v in r.get("variants", []):
            print("   %-10s %-6s %s | %s" % (v["id"], v["kind"], v["what"][:70], v["result"][:160]))
        if not r["ok"]:
            worst = 2
    return worst


if __name__ == "__main__":
    sys.exit(main(sys.argv[1:]))
