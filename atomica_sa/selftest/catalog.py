"""
Mutant / twin catalogue (DESIGN Appendix A).  Each entry is one edit applied to a scratch copy of atomica/*.py.
``func`` scopes the textual anchor to one function so the entry survives unrelated edits elsewhere in the file.
A mutant must make the named rule report a new finding; a twin must leave every rule of the property silent.
"""

M = "atomica/model.py"
VARIANTS = []


def mutant(id, prop, rule, what, file=None, func=None, old=None, new=None, edits=None, **kw):
    v = dict(id=id, prop=prop, kind="mutant", rule=rule, what=what, **kw)
    if edits:
        v["edits"] = edits
    else:
        v.update(file=file, func=func, old=old, new=new)
    VARIANTS.append(v)


def twin(id, prop, what, file=None, func=None, old=None, new=None, edits=None, **kw):
    v = dict(id=id, prop=prop, kind="twin", what=what, **kw)
    if edits:
        v["edits"] = edits
    else:
        v.update(file=file, func=func, old=old, new=new)
    VARIANTS.append(v)


# =============================================================================================== C01
mutant("C01-M1", "C01", "R01d", "Compartment.update: cached outflow no longer subtracted", M, "Compartment.update", "        v -= self._cached_outflow\n", "")
mutant("C01-M2", "C01", "R01c", "Compartment.resolve_outflows: cache accumulates the fraction, not the written flow", M, "Compartment.resolve_outflows", "self._cached_outflow += link.vals[ti]", "self._cached_outflow += link._cache")
mutant("C01-M3", "C01", "R01b", "Link.create: link not registered in dest.inlinks", M, "Link.create", "        new_link.dest.inlinks.append(new_link)\n", "")
mutant(
    "C01-M4",
    "C01",
    "R01a",
    "Model.update_pars: program overwrite also writes a compartment",
    M,
    "Model.update_pars",
    "                    for comp in comp_list:\n                        n += comp[ti]\n",
    "                    for comp in comp_list:\n                        n += comp[ti]\n                        comp.vals[ti] = comp.vals[ti] * 1.0000001\n",
)
mutant("C01-M5", "C01", "R01d", "TimedCompartment.update: non-complementary row slices", M, "TimedCompartment.update", "sum(link._vals[self._vals.shape[0] :, tr].tolist())", "sum(link._vals[self._vals.shape[0] + 1 :, tr].tolist())")
mutant("C01-M6", "C01", "R01f", "Model.process: update_links before update_pars", M, "Model.process", "            self.update_pars()\n            self.update_links()\n\n        # Update postcompute", "            self.update_links()\n            self.update_pars()\n\n        # Update postcompute")
mutant("C01-M7", "C01", "R01e", "Residual junction: residual flow = whole inflow", M, "ResidualJunctionCompartment.balance", "flow = net_inflow - np.sum(outflow, axis=1)", "flow = net_inflow * 1.0")
mutant("C01-M8", "C01", "R01e", "junction graph edge reversed without reversing the sort", M, "Model._set_exec_order", "G.add_edge(link.source, link.dest)", "G.add_edge(link.dest, link.source)")
mutant("C01-M9", "C01", "R01d", "SinkCompartment.update reads inflow at ti", M, "SinkCompartment.update", "v += link.vals[tr]", "v += link.vals[ti]")
mutant("C01-M10", "C01", "R01e", "JunctionCompartment.balance: outflow ignores inflow", M, "JunctionCompartment.balance", "link.vals[ti] = net_inflow * frac / total_outflow", "link.vals[ti] = frac / total_outflow")
mutant("C01-M11", "C01", "R01c", "TimedCompartment.resolve_outflows: flush link written but not cached", M, "TimedCompartment.resolve_outflows", "        self._cached_outflow[0] += self.flush_link.vals[ti]", "        pass")
mutant("C01-M12", "C01", "R01d", "Compartment.update: inflow subtracted", M, "Compartment.update", "v += link.vals[tr]", "v -= link.vals[tr]")
mutant("C01-M13", "C01", "R01a", "results.py writes a compartment", "atomica/results.py", "Result.__init__", "        self.model = model", "        self.model = model\n        for pop in self.model.pops:\n            for comp in pop.comps:\n                comp.vals[0] = 0.0")
twin("C01-T1", "C01", "rename locals in Compartment.update", M, "Compartment.update", "        tr = ti - 1\n        v = self.vals[tr]\n        v -= self._cached_outflow\n        for link in self.inlinks:\n            v += link.vals[tr]\n\n        # Guard against populations becoming negative due to numerical artifacts\n        if v > 0:\n            self.vals[ti] = v", "        prev = ti - 1\n        stock = self.vals[prev]\n        stock -= self._cached_outflow\n        for lnk in self.inlinks:\n            stock += lnk.vals[prev]\n\n        if stock > 0:\n            self.vals[ti] = stock")
twin(
    "C01-T2",
    "C01",
    "per-link cache accumulation -> one post-loop aggregate",
    M,
    "Compartment.resolve_outflows",
    "        for link in self.outlinks:\n            link.vals[ti] = link._cache * n\n            self._cached_outflow += link.vals[ti]",
    "        for link in self.outlinks:\n            link.vals[ti] = link._cache * n\n        self._cached_outflow = sum(link.vals[ti] for link in self.outlinks)",
)
twin("C01-T3", "C01", "reversed edge and reversed(topological_sort)", M, "Model._set_exec_order", "                            G.add_edge(link.source, link.dest)\n\n        assert nx.dag.is_directed_acyclic_graph(G), \"There is a cycle present where one junction has flows into another, which results in an infinite loop and is not permitted\"\n        exec_order[\"junctions\"] = list(nx.dag.topological_sort(G))", "                            G.add_edge(link.dest, link.source)\n\n        assert nx.dag.is_directed_acyclic_graph(G), \"cycle\"\n        exec_order[\"junctions\"] = list(reversed(list(nx.dag.topological_sort(G))))")
twin("C01-T4", "C01", "tr inlined in SinkCompartment.update", M, "SinkCompartment.update", "        tr = ti - 1\n        v = self.vals[tr]\n        for link in self.inlinks:\n            v += link.vals[tr]", "        v = self.vals[ti - 1]\n        for link in self.inlinks:\n            v += link.vals[ti - 1]")
twin("C01-T5", "C01", "product operands swapped in resolve_outflows", M, "TimedCompartment.resolve_outflows", "                self._cached_outflow += n * link._cache", "                self._cached_outflow += link._cache * n")

# =============================================================================================== C02
mutant("C02-M1", "C02", "R02a", "rescale = 1 even when outflow > 1", M, "Compartment.resolve_outflows", "rescale = 1 / outflow", "rescale = 1")
mutant("C02-M2", "C02", "R02a", "threshold outflow > 2", M, "Compartment.resolve_outflows", "if outflow > 1:", "if outflow > 2:")
mutant("C02-M3", "C02", "R02b", "negative clamp deleted", M, "Model.update_links", "                transition = 0\n", "                pass\n")
mutant("C02-M4", "C02", "R02c", "divide by source_popsize unconditionally", M, "Model.update_links", "                if source_popsize:\n                    converted_frac = converted_amt / source_popsize\n                else:\n                    converted_frac = 0.0\n", "                converted_frac = converted_amt / source_popsize\n")
mutant("C02-M5", "C02", "R02d", "masked clip deleted in TimedCompartment.update", M, "TimedCompartment.update", "        self._vals[self._vals[:, ti] < 0, ti] = 0", "        pass")
mutant("C02-M6", "C02", "R02d", "Compartment.update stores v unconditionally", M, "Compartment.update", "        if v > 0:\n            self.vals[ti] = v\n        else:\n            self.vals[ti] = 0.0", "        self.vals[ti] = v")
mutant("C02-M7", "C02", "R02d", "flush link without max(0, .)", M, "TimedCompartment.resolve_outflows", "max(0, self._vals[0, ti] - self._cached_outflow[0])", "self._vals[0, ti] - self._cached_outflow[0]")
mutant("C02-M8", "C02", "R02a", "n recomputed per link", M, "Compartment.resolve_outflows", "            link.vals[ti] = link._cache * n\n", "            n = min(1.0, link._cache) * self.vals[ti]\n            link.vals[ti] = link._cache * n\n")
mutant("C02-M9", "C02", "R02a", "timed: where=total_outflow > 2", M, "TimedCompartment.resolve_outflows", "where=total_outflow > 1", "where=total_outflow > 2")
mutant("C02-M10", "C02", "R02a", "timed: link value bypasses rescaled stock", M, "TimedCompartment.resolve_outflows", "link._vals[:, ti] = n * link._cache", "link._vals[:, ti] = self._vals[:, ti] * link._cache")
mutant("C02-M11", "C02", "R02b", "zero short-circuit deleted", M, "Model.update_links", "            if not transition:\n                for link in par.links:\n                    link._cache = 0.0\n                continue\n", "")
mutant("C02-M12", "C02", "R02a", "normal links excluded from the total in timed compartments", M, "TimedCompartment.resolve_outflows", "            else:\n                total_outflow[:] += link._cache  # Normal link outflows do act on the final subcompartment\n", "")
twin("C02-T1", "C02", "ternary form of the rescale", M, "Compartment.resolve_outflows", "        if outflow > 1:\n            rescale = 1 / outflow\n        else:\n            rescale = 1\n", "        rescale = 1 / outflow if outflow > 1 else 1\n")
twin("C02-T2", "C02", "clamp written as max()", M, "Model.update_links", "            if transition < 0:", "            transition = max(transition, 0)\n            if False:")
twin("C02-T3", "C02", "if source_popsize != 0", M, "Model.update_links", "                if source_popsize:\n", "                if source_popsize != 0:\n")
twin("C02-T4", "C02", "np.where form for the timed sibling", M, "TimedCompartment.resolve_outflows", "rescale = np.divide(1, total_outflow, out=np.ones_like(total_outflow), where=total_outflow > 1)", "rescale = np.where(total_outflow > 1, 1 / total_outflow, 1)")
twin("C02-T5", "C02", "np.maximum clip in TimedCompartment.update", M, "TimedCompartment.update", "        self._vals[self._vals[:, ti] < 0, ti] = 0", "        self._vals[:, ti] = np.maximum(self._vals[:, ti], 0)")

# =============================================================================================== C03
mutant("C03-M1", "C03", "R03a", "rate: transition * (dt * timescale)", M, "Model.update_links", "converted_frac = transition * (self.dt / par.timescale)", "converted_frac = transition * (self.dt * par.timescale)")
mutant("C03-M2", "C03", "R03a", "duration: dt * timescale / transition", M, "Model.update_links", "converted_frac = self.dt / (transition * par.timescale)", "converted_frac = self.dt * par.timescale / transition")
mutant("C03-M3", "C03", "R03a", "number branch without / source_popsize", M, "Model.update_links", "converted_frac = converted_amt / source_popsize", "converted_frac = converted_amt")
mutant(
    "C03-M4",
    "C03",
    "R03a",
    "duration branch deleted",
    M,
    "Model.update_links",
    "            elif par.units == FS.QUANTITY_TYPE_DURATION:\n                try:\n                    converted_frac = self.dt / (transition * par.timescale)\n                except Exception as e:\n                    raise ModelError(f\"Error when converting the parameter {par} to a per timestep value.\") from e\n                for link in par.links:\n                    link._cache = converted_frac\n",
    "",
)
mutant("C03-M5", "C03", "R03a", "Link.update divides by the fraction", M, "Link.update", "self.source.vals[ti] * converted_frac", "self.source.vals[ti] / converted_frac / self.source.vals[ti]")
mutant("C03-M8", "C03", "R03a", "number: dt dropped", M, "Model.update_links", "converted_amt = transition * (self.dt / par.timescale)", "converted_amt = transition / par.timescale")
mutant("C03-M9", "C03", "R03a", "fall-through no longer raises", M, "Model.update_links", "                raise ModelError(\"Encountered unknown units '%s' for Parameter '%s' (%s) in Population %s\" % (par.units, par.name, par_label, par.pop.name))", "                logger.warning(\"Encountered unknown units '%s' for Parameter '%s' (%s) in Population %s\" % (par.units, par.name, par_label, par.pop.name))")
mutant("C03-M10", "C03", "R03a", "resolve_outflows multiplies by the stock twice", M, "Compartment.resolve_outflows", "link.vals[ti] = link._cache * n", "link.vals[ti] = link._cache * n * self.vals[ti]")
mutant("C03-M11", "C03", "R03a", "proportion filter dropped from transition_pars", M, "Model._set_exec_order", "if par.links and par.units != FS.QUANTITY_TYPE_PROPORTION:", "if par.links:")
twin("C03-T1", "C03", "transition * dt / timescale", M, "Model.update_links", "converted_frac = transition * (self.dt / par.timescale)", "converted_frac = transition * self.dt / par.timescale")
twin("C03-T2", "C03", "scale = dt / timescale hoisted", M, "Model.update_links", "                try:\n                    converted_frac = transition * (self.dt / par.timescale)", "                scale = self.dt / par.timescale\n                try:\n                    converted_frac = scale * transition")
twin("C03-T4", "C03", "rate and probability as a set test", M, "Model.update_links", "if par.units == FS.QUANTITY_TYPE_RATE or par.units == FS.QUANTITY_TYPE_PROBABILITY:", "if par.units in {FS.QUANTITY_TYPE_RATE, FS.QUANTITY_TYPE_PROBABILITY}:")
twin("C03-T5", "C03", "duration via reciprocal product", M, "Model.update_links", "converted_frac = self.dt / (transition * par.timescale)", "converted_frac = (self.dt / par.timescale) / transition")

# =============================================================================================== C04
mutant("C04-M1", "C04", "R04a", "JunctionCompartment.update copies vals forward", M, "JunctionCompartment.update", "        pass", "        self.vals[ti] = self.vals[ti - 1]")
mutant("C04-M2", "C04", "R04a", "initial_flush without the final zeroing", M, "JunctionCompartment.initial_flush", "            self.vals[0] = 0.0", "            pass")
mutant("C04-M3", "C04", "R04c", "residual balance threshold < 0.5", M, "ResidualJunctionCompartment.balance", "if link.parameter is None and total_outflow < 1:", "if link.parameter is None and total_outflow < 0.5:")
mutant("C04-M4", "C04", "R04d", "framework junction-outflow test against probability", "atomica/framework.py", "ProjectFramework._validate_parameters", "                        if par[\"format\"] != FS.QUANTITY_TYPE_PROPORTION:\n                            raise InvalidFramework('Parameter \"%s\" has an outflow from a junction", "                        if par[\"format\"] != FS.QUANTITY_TYPE_PROBABILITY:\n                            raise InvalidFramework('Parameter \"%s\" has an outflow from a junction")
mutant("C04-M5", "C04", "R04d", "transition_pars filter dropped", M, "Model._set_exec_order", "if par.links and par.units != FS.QUANTITY_TYPE_PROPORTION:", "if par.links:")
mutant("C04-M6", "C04", "R04e", "flush_junctions before the first update_pars", M, "Model.process", "            self.update_pars()  # Update transition parameters in case junction outflows are function parameters\n            self.flush_junctions()  # Flush the current contents of the junction without including any inflows\n", "            self.flush_junctions()\n            self.update_pars()\n")
mutant("C04-M7", "C04", "R04e", "second update_pars deleted", M, "Model.process", "            self.update_pars()  # Update the transition parameters in case junction outflows are functions _and_ they depend on compartment sizes that just changed in the line above\n", "")
mutant("C04-M8", "C04", "R04c", "residual flush: residual also when proportions sum above 1", M, "ResidualJunctionCompartment.initial_flush", "                outflow_fractions /= total_outflow\n                has_residual = False", "                outflow_fractions /= total_outflow\n                has_residual = True")
mutant("C04-M9", "C04", "R04c", "residual balance normalises also below 1", M, "ResidualJunctionCompartment.balance", "        if total_outflow > 1:\n            outflow_fractions /= total_outflow", "        if total_outflow > 0:\n            outflow_fractions /= total_outflow")
mutant(
    "C04-M10",
    "C04",
    "R04b",
    "junctions balanced before ordinary outflows are resolved",
    edits=[
        dict(file=M, func="Model.update_links", old="        for j in self._exec_order[\"junctions\"]:\n            try:\n                j.balance(ti)\n            except Exception as e:\n                raise ModelError(f\"Error when balancing the junction: {j}\") from e", new="        pass"),
        dict(file=M, func="Model.update_links", old="        # Adjust cached fraction outflows and convert them to number units\n", new="        for j in self._exec_order[\"junctions\"]:\n            j.balance(ti)\n"),
    ],
)
mutant("C04-M11", "C04", "R04c", "plain junction flush not normalised", M, "JunctionCompartment.initial_flush", "            outflow_fractions /= np.sum(outflow_fractions)\n", "")
mutant("C04-M12", "C04", "R04b", "flush_junctions in reverse order", M, "Model.flush_junctions", "for j in self._exec_order[\"junctions\"]:", "for j in reversed(self._exec_order[\"junctions\"]):")
twin("C04-T1", "C04", "self.vals[0] = 0", M, "JunctionCompartment.initial_flush", "            self.vals[0] = 0.0", "            self.vals[0] = 0")
twin("C04-T2", "C04", "initial_flush computes total first", M, "JunctionCompartment.initial_flush", "            for frac, link in zip(outflow_fractions, self.outlinks):\n                link.dest[0] += self.vals[0] * frac", "            total = self.vals[0]\n            for frac, link in zip(outflow_fractions, self.outlinks):\n                link.dest[0] += total * frac")
twin("C04-T3", "C04", "residual balance with a flag like initial_flush", M, "ResidualJunctionCompartment.balance", "            if link.parameter is None and total_outflow < 1:", "            if total_outflow < 1 and link.parameter is None:")
twin("C04-T4", "C04", "residual flush: >= 1 written first", M, "ResidualJunctionCompartment.initial_flush", "            if total_outflow < 1:\n                has_residual = True\n            else:\n                outflow_fractions /= total_outflow\n                has_residual = False", "            if total_outflow >= 1:\n                outflow_fractions /= total_outflow\n                has_residual = False\n            else:\n                has_residual = True")

# =============================================================================================== C05
mutant("C05-M3", "C05", "R05c", "TimedCompartment.connect always creates TimedLink", M, "TimedCompartment.connect", "            new_link = Link.create(pop=self.pop, parameter=par, source=self, dest=dest)", "            new_link = TimedLink.create(pop=self.pop, parameter=par, source=self, dest=dest)")
mutant("C05-M4", "C05", "R05d", "row-0 zeroing of timed links deleted", M, "TimedCompartment.resolve_outflows", "                link._vals[0, ti] = 0.0  # No flow out of final subcompartment\n", "")
mutant("C05-M5", "C05", "R05d", "timed links counted in row 0 of the total", M, "TimedCompartment.resolve_outflows", "total_outflow[1:] += link._cache", "total_outflow[:] += link._cache")
mutant("C05-M6", "C05", "R05c", "JunctionCompartment.connect ignores the duration group", M, "JunctionCompartment.connect", "            TimedLink.create(pop=self.pop, parameter=par, source=self, dest=dest)", "            Link.create(pop=self.pop, parameter=par, source=self, dest=dest)")
mutant("C05-M7", "C05", "R05e", "arrivals enter row 0", M, "TimedCompartment.update", "                self._vals[-1, ti] += link[tr]", "                self._vals[0, ti] += link[tr]")
mutant("C05-M8", "C05", "R05e", "keyring shifts away from the flush row", M, "TimedCompartment.update", "            self._vals[0:-1, ti] = self._vals[1:, ti]", "            self._vals[1:, ti] = self._vals[0:-1, ti]")
mutant("C05-M9", "C05", "R05e", "arrival row not zeroed after shift", M, "TimedCompartment.update", "            self._vals[-1, ti] = 0.0  # Zero out the inflow (otherwise, it just replicates previous value)\n", "")
mutant("C05-M10", "C05", "R05c", "flush link assert removed", M, "TimedCompartment.connect", "            assert not isinstance(new_link, TimedLink), \"Cannot flush into the same duration group\"\n", "")
mutant("C05-M11", "C05", "R05e", "flush link empties the last row", M, "TimedCompartment.resolve_outflows", "max(0, self._vals[0, ti] - self._cached_outflow[0])", "max(0, self._vals[-1, ti] - self._cached_outflow[0])")
mutant("C05-M12", "C05", "R05c", "TimedCompartment.connect compares with the wrong group", M, "TimedCompartment.connect", "(isinstance(dest, TimedCompartment) and dest.parameter.name == self.parameter.name)", "isinstance(dest, TimedCompartment)")
twin("C05-T2", "C05", "condition split into nested ifs in JunctionCompartment.connect", M, "JunctionCompartment.connect", "        if self.duration_group:\n", "        if self.duration_group is not None:\n")
twin("C05-T3", "C05", "flush check as if/raise", M, "TimedCompartment.connect", "            assert not isinstance(new_link, TimedLink), \"Cannot flush into the same duration group\"\n", "            if isinstance(new_link, TimedLink):\n                raise ModelError(\"Cannot flush into the same duration group\")\n")
twin("C05-T4", "C05", "shift slice written [:-1]", M, "TimedCompartment.update", "            self._vals[0:-1, ti] = self._vals[1:, ti]", "            self._vals[:-1, ti] = self._vals[1:, ti]")

# =============================================================================================== C06
mutant("C06-M1", "C06", "R06a", "update_pars: par.constrain(ti) deleted", M, "Model.update_pars", "                else:\n                    par.constrain(ti)", "                else:\n                    pass")
mutant(
    "C06-M2",
    "C06",
    "R06a",
    "program block moved above par.update(ti)",
    edits=[
        dict(file=M, func="Model.update_pars", old="            # First - update parameters that are dependencies, evaluating f_stack if required\n            for par in pars:\n                if par._is_dynamic:\n                    par.update(ti)\n", new=""),
        dict(file=M, func="Model.update_pars", old="            # Handle parameters that aggregate over populations and use interactions in these functions.\n", new="            for par in pars:\n                if par._is_dynamic:\n                    par.update(ti)\n"),
    ],
)
mutant("C06-M3", "C06", "R06b", "build without par.constrain()", M, "Model.build", "                par.constrain()  # Sampling might result in the parameter value going out of bounds (or user might have entered bad values in the databook) so ensure they are clipped here\n", "")
mutant("C06-M4", "C06", "R06c", "interactions without * par.meta_y_factor", M, "Model.build", "par.interpolate(self.t, to_pop) * par.y_factor[to_pop] * par.meta_y_factor", "par.interpolate(self.t, to_pop) * par.y_factor[to_pop]")
mutant("C06-M5", "C06", ["R06b", "R06c"], "data parameters without * par.scale_factor", M, "Model.build", "par.vals = cascade_par.interpolate(tvec=self.t, pop_name=par.pop.name) * par.scale_factor", "par.vals = cascade_par.interpolate(tvec=self.t, pop_name=par.pop.name)")
mutant("C06-M6", "C06", "R06d", "dependency edge reversed", M, "Model._set_exec_order", "                        G.add_edge(dep, par.name)", "                        G.add_edge(par.name, dep)")
mutant("C06-M7", "C06", "R06e", "scalar skip test > instead of >=", M, "Parameter.update", "if (self.t[ti] >= self.skip_function[0]) and (self.t[ti] <= self.skip_function[1]):", "if (self.t[ti] > self.skip_function[0]) and (self.t[ti] <= self.skip_function[1]):")
mutant("C06-M8", "C06", "R06e", "scenario baseline mask <=", "atomica/scenarios.py", "ParameterScenario.get_parset", "vals = par.interpolate(tvec[tvec < scen_start], pop_label)", "vals = par.interpolate(tvec[tvec <= scen_start], pop_label)")
mutant("C06-M9", "C06", "R06d", "post-compute loop without constrain()", M, "Model.process", "                    par.update()\n                    par.constrain()", "                    par.update()")
mutant("C06-M10", "C06", "R06c", "initial sizes without meta_y_factor", M, "Population.initialize_compartments", "b[i] = par.interpolate(t_init, pop_name=self.name)[0] * par.y_factor[self.name] * par.meta_y_factor", "b[i] = par.interpolate(t_init, pop_name=self.name)[0] * par.y_factor[self.name]")
mutant("C06-M11", "C06", "R06e", "aggregation skip test <= lo", M, "Model.update_pars", "(self.t[ti] < par.skip_function[0])", "(self.t[ti] <= par.skip_function[0])")
mutant("C06-M12", "C06", "R06b", "scale factor set after the values are stored", edits=[
    dict(file=M, func="Model.build", old="                par.scale_factor = cascade_par.meta_y_factor  # Set meta scale factor regardless of whether a population-specific y-factor is also provided\n", new=""),
    dict(file=M, func="Model.build", old="                par.constrain()  # Sampling might", new="                par.scale_factor = cascade_par.meta_y_factor\n                par.constrain()  # Sampling might"),
])
mutant("C06-M13", "C06", "R06c", "function value not scaled", M, "Parameter.update", "v = self.scale_factor * self._fcn(**dep_vals)", "v = self._fcn(**dep_vals)")
mutant("C06-M14", "C06", "R06a", "characteristics updated after the parameters", edits=[
    dict(file=M, func="Model.update_pars", old="        for charac in self._exec_order[\"characs\"]:\n            charac.update(ti)\n", new=""),
    dict(file=M, func="Model.update_pars", old="                else:\n                    par.constrain(ti)", new="                else:\n                    par.constrain(ti)\n        for charac in self._exec_order[\"characs\"]:\n            charac.update(ti)"),
])
mutant("C06-M15", "C06", "R06e", "scenario suspends the function from a later year", "atomica/scenarios.py", "ParameterScenario.get_parset", "par.skip_function[pop_label] = (scen_start, np.inf)", "par.skip_function[pop_label] = (max(overwrite[\"t\"]), np.inf)")
twin("C06-T1", "C06", "sf = par.scale_factor local in the aggregation store", M, "Model.update_pars", "                        par[ti] = par.scale_factor * val", "                        par[ti] = val * par.scale_factor")
twin("C06-T2", "C06", "scalar skip test as not(t < lo or t > hi)", M, "Parameter.update", "if (self.t[ti] >= self.skip_function[0]) and (self.t[ti] <= self.skip_function[1]):", "if not (self.t[ti] < self.skip_function[0] or self.t[ti] > self.skip_function[1]):")
twin("C06-T3", "C06", "chained comparison in the scalar skip test", M, "Parameter.update", "if (self.t[ti] >= self.skip_function[0]) and (self.t[ti] <= self.skip_function[1]):", "if self.skip_function[0] <= self.t[ti] <= self.skip_function[1]:")
twin("C06-T4", "C06", "constrain via a conditional index", M, "Model.update_pars", "                if par.derivative and ti < len(self.t) - 1:\n                    # If derivative parameter, then perform an Euler forward step before constraining\n                    par[ti + 1] = par[ti] + par._dx * self.dt\n                    par.constrain(ti + 1)\n                else:\n                    par.constrain(ti)", "                k = ti\n                if par.derivative and ti < len(self.t) - 1:\n                    par[ti + 1] = par[ti] + par._dx * self.dt\n                    k = ti + 1\n                par.constrain(k)")

# =============================================================================================== C07
mutant("C07-M1", "C07", "R07a", "negativity guard deleted", M, "Population.initialize_compartments", "        elif np.any(np.less(x, -model_settings[\"tolerance\"])):\n            # Halt for any negative popsizes\n            raise BadInitialization(f\"Negative initial popsizes:\\n{error_msg}\")\n", "")
mutant("C07-M2", "C07", "R07a", "one guard raises ModelError", M, "Population.initialize_compartments", "raise BadInitialization(f\"Characteristics failed to meet tolerances\\n{error_msg}\")", "raise ModelError(f\"Characteristics failed to meet tolerances\\n{error_msg}\")")
mutant(
    "C07-M3",
    "C07",
    "R07a",
    "insertion loop hoisted above the guard chain",
    edits=[
        dict(file=M, func="Population.initialize_compartments", old="        # Otherwise, insert the values\n        for i, c in enumerate(comps):\n            c[0] = max(0.0, x[i])", new="        pass"),
        dict(file=M, func="Population.initialize_compartments", old="        if residual > model_settings[\"tolerance\"]:\n            # Halt", new="        for i, c in enumerate(comps):\n            c[0] = max(0.0, x[i])\n        if residual > model_settings[\"tolerance\"]:\n            # Halt"),
    ],
)
mutant("C07-M4", "C07", "R07d", "Characteristic.update skips the first include", M, "Characteristic.update", "        for comp in self.includes:\n            self._vals[ti] += comp[ti]", "        for comp in self.includes[1:]:\n            self._vals[ti] += comp[ti]")
mutant("C07-M5", "C07", "R07a", "different tolerance key in one guard", M, "Population.initialize_compartments", "        if residual > model_settings[\"tolerance\"]:", "        if residual > model_settings[\"residual_tolerance\"]:")
mutant("C07-M6", "C07", "R07a", "residual guard deleted", M, "Population.initialize_compartments", "        if residual > model_settings[\"tolerance\"]:\n            # Halt for an unsatisfactory overall solution\n            raise BadInitialization(\"Global residual was %g which is unacceptably large (should be < %g)\\n%s\" % (residual, model_settings[\"tolerance\"], error_msg))\n        elif np.any(", "        if np.any(")
mutant("C07-M7", "C07", "R07b", "saved initialisation applied but the solve still runs", M, "Population.initialize_compartments", "            parset.apply_initialization(self, framework)\n            return\n", "            parset.apply_initialization(self, framework)\n")
mutant("C07-M8", "C07", "R07d", "Characteristic.vals divides everywhere", M, "Characteristic.vals", "vals[denom > 0] /= denom[denom > 0]", "vals /= denom")
mutant("C07-M9", "C07", "R07a", "mismatch flag never set", M, "Population.initialize_compartments", "                characteristic_tolerence_failed = True\n", "                pass\n")
twin("C07-T1", "C07", "elif chain -> independent if ... raise", M, "Population.initialize_compartments", "        elif np.any(np.less(x, -model_settings[\"tolerance\"])):", "        if np.any(np.less(x, -model_settings[\"tolerance\"])):")
twin("C07-T3", "C07", "insertion via np.maximum", M, "Population.initialize_compartments", "c[0] = max(0.0, x[i])", "c[0] = max(x[i], 0.0)")

# =============================================================================================== C08
U = "atomica/utils.py"
PA = "atomica/parameters.py"
mutant("C08-M1", "C08", "R08a", "Model.__init__ keeps the caller's progset", M, "Model.__init__", "self.progset = sc.dcp(progset)", "self.progset = progset")
mutant("C08-M2", "C08", "R08b", "build writes cascade_par.y_factor", M, "Model.build", "                par.scale_factor = cascade_par.meta_y_factor  # Set meta", "                cascade_par.y_factor[par.pop.name] = cascade_par.y_factor.get(par.pop.name, 1.0)\n                par.scale_factor = cascade_par.meta_y_factor  # Set meta")
mutant("C08-M3", "C08", "R08b", "TimeSeries.interpolate sorts self.t in place", U, "TimeSeries.interpolate", "        t2 = sc.promotetoarray(t2)", "        self.t.sort()\n        t2 = sc.promotetoarray(t2)")
mutant("C08-M4", "C08", "R08e", "Link.relink forgets dest", M, "Link.relink", "        self.dest = objs[self.dest]", "        pass")
mutant("C08-M5", "C08", "R08c", "module-level dict written from update_pars", M, "Model.update_pars", "        ti = self._t_index\n", "        ti = self._t_index\n        model_settings[\"last_ti\"] = ti\n")
mutant("C08-M6", "C08", "R08d", "float accumulation over a set in update_links", M, "Model.update_links", "        ti = self._t_index\n", "        ti = self._t_index\n        acc = 0.0\n        for nm in set(p.name for p in self._exec_order[\"transition_pars\"]):\n            acc += len(nm) * 0.1\n")
mutant("C08-M7", "C08", "R08e", "__deepcopy__ without relinking the original", M, "Model.__deepcopy__", "        d = sc.dcp(self.__dict__)\n        self.relink()\n", "        d = sc.dcp(self.__dict__)\n")
mutant("C08-M8", "C08", "R08b", "Initialization.apply writes parset y-factors", PA, "Initialization.apply", "        for comp in pop.comps:", "        if parset is not None:\n            for par in parset.pars.values():\n                par.meta_y_factor = 1.0\n        for comp in pop.comps:")
mutant("C08-M9", "C08", "R08c", "np.random jitter in resolve_outflows", M, "Compartment.resolve_outflows", "        n = rescale * self.vals[ti]", "        n = rescale * self.vals[ti] * (1 + 0 * np.random.rand())")
mutant("C08-M10", "C08", "R08b", "get_alloc scales the program's spend data in place", "atomica/programs.py", "ProgramSet.get_alloc", "        tvec = sc.promotetoarray(tvec)", "        tvec = sc.promotetoarray(tvec)\n        for prog in self.programs.values():\n            prog.spend_data.vals.sort()")
mutant("C08-M11", "C08", "R08e", "Population.relink does not rebuild par_lookup", M, "Population.relink", "        self.par_lookup = {par.name: par for par in self.pars}\n", "")
mutant("C08-M12", "C08", "R08b", "process writes the settings object it was built from", M, "Model.__init__", "        self.dt = settings.sim_dt  #: Simulation time step", "        self.dt = settings.sim_dt\n        settings._sim_start = self.t[0]")
twin("C08-T1", "C08", "copy.deepcopy instead of sc.dcp", M, "Model.__init__", "self.progset = sc.dcp(progset)", "self.progset = copy.deepcopy(progset)")
twin("C08-T2", "C08", "read-only alias of parset.pars", M, "Model.build", "            cascade_par = parset.pars[par_name]", "            p_all = parset.pars\n            cascade_par = p_all[par_name]")
twin("C08-T3", "C08", "sorted(set(...)) iteration", M, "Model.update_links", "        ti = self._t_index\n", "        ti = self._t_index\n        acc = 0.0\n        for nm in sorted(set(p.name for p in self._exec_order[\"transition_pars\"])):\n            acc += len(nm) * 0.1\n")
twin("C08-T4", "C08", "local dict named like nothing global", M, "Model.update_pars", "        ti = self._t_index\n", "        ti = self._t_index\n        scratch = dict()\n        scratch[\"last_ti\"] = ti\n")

# =============================================================================================== C09
PR = "atomica/programs.py"
mutant("C09-M1", "C09", "R09a", "do_program_overwrite = self.programs_active", M, "Model.update_pars", "do_program_overwrite = self.programs_active and self.program_instructions.start_year <= self.t[ti] <= self.program_instructions.stop_year", "do_program_overwrite = self.programs_active")
mutant("C09-M2", "C09", "R09b", "get_alloc linear interpolation", PR, "ProgramSet.get_alloc", "alloc[prog.name] = instructions.alloc[prog.name].interpolate(tvec, method=\"previous\")", "alloc[prog.name] = instructions.alloc[prog.name].interpolate(tvec)")
mutant("C09-M3", "C09", "R09b", "get_spend default method", PR, "Program.get_spend", "        else:\n            return self.spend_data.interpolate(year, method=\"previous\")", "        else:\n            return self.spend_data.interpolate(year)")
mutant("C09-M4", "C09", "R01d", "Compartment.update reads link.vals[ti]", M, "Compartment.update", "v += link.vals[tr]", "v += link.vals[ti]")
mutant("C09-M5", "C09", "R09d", "update_pars reads par[ti + 1]", M, "Model.update_pars", "                par_vals = [x[ti] for x in self._vars_by_pop[pars[0].pop_aggregation[1]]]", "                par_vals = [x[ti + 1] for x in self._vars_by_pop[pars[0].pop_aggregation[1]]]")
mutant("C09-M6", "C09", "R09a", "stop-year test dropped", M, "Model.update_pars", "self.program_instructions.start_year <= self.t[ti] <= self.program_instructions.stop_year", "self.program_instructions.start_year <= self.t[ti]")
mutant("C09-M7", "C09", "R09a", "start-year test strict", M, "Model.update_pars", "self.program_instructions.start_year <= self.t[ti] <= self.program_instructions.stop_year", "self.program_instructions.start_year < self.t[ti] <= self.program_instructions.stop_year")
mutant("C09-M8", "C09", "R09b", "unit cost interpolated linearly", PR, "Program.get_capacity", "unit_cost = self.unit_cost.interpolate(tvec, method=\"previous\")", "unit_cost = self.unit_cost.interpolate(tvec, method=\"linear\")")
mutant("C09-M9", "C09", "R09c", "scenario overwrite mask starts after the first overwrite", "atomica/scenarios.py", "ParameterScenario.get_parset", "par.smooth(tvec[tvec >= scen_start], pop_names=pop_label, method=self.interpolation)", "par.smooth(tvec[tvec > scen_start], pop_names=pop_label, method=self.interpolation)")
mutant("C09-M10", "C09", "R09d", "update_links reads the whole transition series", M, "Model.update_links", "            transition = par.vals[ti]\n", "            transition = par.vals[ti:].max()\n")
mutant("C09-M11", "C09", "R09a", "one program store hoisted out of the gate", M, "Model.update_pars", "            # Handle parameters that aggregate over populations and use interactions in these functions.\n", "            if self.programs_active:\n                for par in pars:\n                    if (par.name, par.pop.name) in prog_vals:\n                        par[ti] = prog_vals[(par.name, par.pop.name)]\n")
twin("C09-T1", "C09", "gate written as two nested conditions", M, "Model.update_pars", "do_program_overwrite = self.programs_active and self.program_instructions.start_year <= self.t[ti] <= self.program_instructions.stop_year", "in_window = self.program_instructions.start_year <= self.t[ti] and self.t[ti] <= self.program_instructions.stop_year if self.programs_active else False\n        do_program_overwrite = self.programs_active and self.program_instructions.start_year <= self.t[ti] and self.t[ti] <= self.program_instructions.stop_year")
twin("C09-T2", "C09", "method='previous' passed positionally", PR, "Program.get_capacity", "unit_cost = self.unit_cost.interpolate(tvec, method=\"previous\")", "unit_cost = self.unit_cost.interpolate(tvec, \"previous\")")

# =============================================================================================== C10
mutant("C10-M1", "C10", "R10a", "key tuple swapped in from_result only", PA, "Initialization.from_result", "                    values[(comp.name, pop.name)] = comp._vals[:, idx]\n                else:\n                    values[(comp.name, pop.name)] = comp.vals[idx]", "                    values[(pop.name, comp.name)] = comp._vals[:, idx]\n                else:\n                    values[(pop.name, comp.name)] = comp.vals[idx]")
mutant("C10-M2", "C10", "R10a", "apply writes comp.vals[0] for timed compartments", PA, "Initialization.apply", "                    comp._vals[:, 0] = self.values[(comp.name, pop.name)]", "                    comp.vals[0] = self.values[(comp.name, pop.name)]")
mutant("C10-M3", "C10", "R10a", "apply skips sink compartments", PA, "Initialization.apply", "        for comp in pop.comps:\n            if isinstance(comp, TimedCompartment):", "        for comp in pop.comps:\n            if type(comp).__name__ == 'SinkCompartment':\n                continue\n            if isinstance(comp, TimedCompartment):")
mutant("C10-M4", "C10", "R10c", "initialize_compartments solves even with a saved state", M, "Population.initialize_compartments", "            parset.apply_initialization(self, framework)\n            return\n", "            parset.apply_initialization(self, framework)\n")
mutant("C10-M5", "C10", "R10b", "index-0 update_links deleted", M, "Model.process", "            self.update_links()  # Update all of the links\n", "")
mutant("C10-M6", "C10", "R10a", "capture takes only the first row of timed compartments", PA, "Initialization.from_result", "comp._vals[:, idx]", "comp._vals[0, idx]")
mutant("C10-M7", "C10", "R10d", "to_excel writes dt from the year", PA, "Initialization.to_excel", "\"dt\": self.dt,", "\"dt\": self.year,")
mutant("C10-M8", "C10", "R10a", "capture skips the last population", PA, "Initialization.from_result", "        for pop in res.model.pops:\n", "        for pop in res.model.pops:\n            if pop is res.model.pops[-1]:\n                continue\n")
twin("C10-T1", "C10", "loop variables renamed in apply", PA, "Initialization.apply", "        for comp in pop.comps:\n            if isinstance(comp, TimedCompartment):\n                if (comp.name, pop.name) not in self.values:\n                    comp._vals[:, 0] = 0\n                else:\n                    comp._vals[:, 0] = self.values[(comp.name, pop.name)]\n            else:\n                if (comp.name, pop.name) not in self.values:\n                    comp.vals[0] = 0\n                else:\n                    comp.vals[0] = self.values[(comp.name, pop.name)]", "        for c in pop.comps:\n            if isinstance(c, TimedCompartment):\n                if (c.name, pop.name) not in self.values:\n                    c._vals[:, 0] = 0\n                else:\n                    c._vals[:, 0] = self.values[(c.name, pop.name)]\n            else:\n                if (c.name, pop.name) not in self.values:\n                    c.vals[0] = 0\n                else:\n                    c.vals[0] = self.values[(c.name, pop.name)]")

# =============================================================================================== C11
mutant("C11-M1", "C11", "R11a", "final np.minimum(., 1.0) deleted in get_prop_coverage", PR, "ProgramSet.get_prop_coverage", "            prop_coverage[prog.name] = np.minimum(prop_coverage[prog.name], 1.0)\n", "")
mutant("C11-M2", "C11", "R11b", "np.maximum with the capacity constraint", PR, "Program.get_capacity", "capacity = np.minimum(capacity_constraint, capacity)", "capacity = np.maximum(capacity_constraint, capacity)")
mutant("C11-M3", "C11", "R11d", "one-off spending without * dt", PR, "Program.get_capacity", "            spending *= dt\n", "            pass\n")
mutant("C11-M4", "C11", "R11c", "coverage overwrite reads capacities", PR, "ProgramSet.get_prop_coverage", "prop_coverage[prog.name] = instructions.coverage[prog.name].interpolate(tvec, method=\"previous\")", "prop_coverage[prog.name] = np.minimum(instructions.coverage[prog.name].interpolate(tvec, method=\"previous\"), capacities[prog.name])")
mutant("C11-M5", "C11", "R11d", "if not prog.is_one_off in get_capacities", PR, "ProgramSet.get_capacities", "                if prog.is_one_off:\n                    capacities[prog.name] *= dt", "                if not prog.is_one_off:\n                    capacities[prog.name] *= dt")
mutant("C11-M7", "C11", "R11f", "capacity = unit_cost / spending", PR, "Program.get_capacity", "capacity = spending / unit_cost", "capacity = unit_cost / spending")
mutant("C11-M8", "C11", "R11a", "saturation branch loses its clamp", PR, "Program.get_prop_covered", "            prop_covered = np.minimum(prop_covered, 1.0)  # Ensure that coverage doesn't go above 1 (if saturation is < 1)\n", "")
mutant("C11-M9", "C11", "R11a", "unsaturated branch is a plain division", PR, "Program.get_prop_covered", "prop_covered = np.divide(capacity, eligible, out=np.ones_like(capacity), where=eligible > capacity)", "prop_covered = capacity / eligible")
mutant("C11-M10", "C11", "R11d", "per-year capacity constraint not scaled by dt", PR, "Program.get_capacity", "                capacity_constraint *= dt\n", "                pass\n")
mutant("C11-M11", "C11", "R11e", "get_capacities decides the kind from the coverage units", PR, "ProgramSet.get_capacities", "                if prog.is_one_off:\n                    capacities[prog.name] *= dt", "                if \"/year\" in prog.coverage.units:\n                    capacities[prog.name] *= dt")
mutant("C11-M12", "C11", "R11f", "saturation curve sign flipped", PR, "Program.get_prop_covered", "prop_covered = 2 * saturation / (1 + exp(-2 * prop_covered / saturation)) - saturation", "prop_covered = 2 * saturation / (1 + exp(2 * prop_covered / saturation)) - saturation")
mutant("C11-M13", "C11", "R11b", "cap applied only when the constraint is per year", PR, "Program.get_capacity", "                capacity_constraint *= dt\n            capacity = np.minimum(capacity_constraint, capacity)", "                capacity_constraint *= dt\n                capacity = np.minimum(capacity_constraint, capacity)")
mutant("C11-M14", "C11", "R11d", "coverage overwrite dt factor dropped", PR, "ProgramSet.get_prop_coverage", "                if prog.is_one_off:\n                    # Coverage overwrites for one off programs are specified in /year units, therefore they get adjusted by dt here\n                    prop_coverage[prog.name] *= dt\n", "")
twin("C11-T1", "C11", "np.clip(x, None, 1.0)", PR, "ProgramSet.get_prop_coverage", "prop_coverage[prog.name] = np.minimum(prop_coverage[prog.name], 1.0)", "prop_coverage[prog.name] = np.clip(prop_coverage[prog.name], None, 1.0)")
twin("C11-T2", "C11", "dt * spending / unit_cost", PR, "Program.get_capacity", "            spending *= dt\n\n        capacity = spending / unit_cost", "            spending = dt * spending\n\n        capacity = (1 / unit_cost) * spending")
twin("C11-T3", "C11", "cap with arguments swapped", PR, "Program.get_capacity", "capacity = np.minimum(capacity_constraint, capacity)", "capacity = np.minimum(capacity, capacity_constraint)")

# =============================================================================================== C12
mutant("C12-M1", "C12", "R12a", "coverage vector built from self.progs", PR, "Covout.get_outcome", "        for prog in self._cached_progs.keys():\n            cov.append(prop_covered[prog][0])", "        for prog in self.progs.keys():\n            cov.append(prop_covered[prog][0])")
mutant("C12-M2", "C12", "R12b", "constructor accepts a fourth kind", PR, "Covout.__init__", "assert cov_interaction in [\"additive\", \"random\", \"nested\"]", "assert cov_interaction in [\"additive\", \"random\", \"nested\", \"synergistic\"]")
mutant(
    "C12-M3",
    "C12",
    "R12c",
    "'best' fallback before the explicit lookup",
    PR,
    "Covout.compute_impact_interaction",
    "        if progs_active in self._interactions:\n            # If the combination of programs has an explicitly specified outcome, then use it\n            return self._interactions[progs_active]\n        elif self.imp_interaction is not None",
    "        if len(self._deltas[progs]) == 1:\n            return self._deltas[progs][0]\n        if progs_active in self._interactions:\n            return self._interactions[progs_active]\n        elif self.imp_interaction is not None",
)
mutant("C12-M4", "C12", "R12a", "_deltas built from the unsorted dict", PR, "Covout.update_outcomes", "self._deltas = np.array([x[1] - self.baseline for x in prog_tuple])", "self._deltas = np.array([x - self.baseline for x in self.progs.values()])")
mutant("C12-M5", "C12", "R12d", "random branch drops the baseline", PR, "Covout.get_outcome", "            outcome += np.sum(combination_coverage.ravel() * self._combination_outcomes.ravel())", "            outcome = np.sum(combination_coverage.ravel() * self._combination_outcomes.ravel())")
mutant("C12-M6", "C12", "R12e", "explicit interaction outcomes not relative to baseline", PR, "Covout.__init__", "self._interactions[combo] = float(val) - self.baseline", "self._interactions[combo] = float(val)")
mutant("C12-M7", "C12", "R12d", "single program returns the raw outcome", PR, "Covout.get_outcome", "return outcome + prop_covered[self._cached_progs.keys()[0]][0] * self._deltas[0]", "return prop_covered[self._cached_progs.keys()[0]][0] * self._deltas[0]")
mutant("C12-M8", "C12", "R12b", "nested branch removed", PR, "Covout.get_outcome", "elif self.cov_interaction == \"nested\":", "elif self.cov_interaction == \"nested_disabled\":")
twin("C12-T1", "C12", "list(self._cached_progs) iteration", PR, "Covout.get_outcome", "        for prog in self._cached_progs.keys():", "        for prog in self._cached_progs:")
twin("C12-T2", "C12", "len(self.progs) still allowed", PR, "Covout.get_outcome", "        if self.n_progs == 0:", "        n_defined = len(self.progs)\n        if self.n_progs == 0:")

# =============================================================================================== C13
RS = "atomica/results.py"
mutant("C13-M1", "C13", "R13a", "Result.get_coverage passes no instructions", RS, "Result.get_coverage", "capacities = self.model.progset.get_capacities(tvec=self.t, dt=self.dt, instructions=self.model.program_instructions)", "capacities = self.model.progset.get_capacities(tvec=self.t, dt=self.dt)")
mutant("C13-M2", "C13", "R13b", "number conversion * dt", M, "Model.update_pars", "par[ti] *= par.source_popsize(ti) / self.dt", "par[ti] *= par.source_popsize(ti) * self.dt")
mutant("C13-M3", "C13", "R13c", "program store without the membership test", M, "Model.update_pars", "                    if (par.name, par.pop.name) in prog_vals:\n", "                    if True:\n")
mutant("C13-M5", "C13", "R13a", "reporter computes eligible from a different target list", RS, "Result.get_coverage", "                    for comp_name in prog.target_comps:", "                    for comp_name in prog.target_pars:")
mutant("C13-M6", "C13", "R13b", "rate conversion dropped", M, "Model.update_pars", "                            par[ti] /= self.dt\n", "                            pass\n")
mutant("C13-M7", "C13", "R13a", "integrator uses the capacity of the previous step", M, "Model.update_pars", "self._program_cache[\"capacities\"][k][ti], n)", "self._program_cache[\"capacities\"][k][ti - 1], n)")
mutant("C13-M8", "C13", "R13a", "reporter recomputes capacities with a different dt", RS, "Result.get_coverage", "get_capacities(tvec=self.t, dt=self.dt, instructions=self.model.program_instructions)", "get_capacities(tvec=self.t, dt=1.0, instructions=self.model.program_instructions)")
mutant("C13-M9", "C13", "R13c", "value read under a different population", M, "Model.update_pars", "                            par[ti] = prog_vals[(par.name, par.pop.name)]", "                            par[ti] = prog_vals[(par.name, pars[0].pop.name)]")
mutant("C13-M10", "C13", "R13a", "get_prop_coverage bypasses get_prop_covered", PR, "ProgramSet.get_prop_coverage", "prop_coverage[prog.name] = prog.get_prop_covered(tvec, capacities[prog.name], num_eligible[prog.name])", "prop_coverage[prog.name] = capacities[prog.name] / num_eligible[prog.name]")
twin("C13-T1", "C13", "arguments passed by keyword in another order", RS, "Result.get_coverage", "get_capacities(tvec=self.t, dt=self.dt, instructions=self.model.program_instructions)", "get_capacities(instructions=self.model.program_instructions, dt=self.dt, tvec=self.t)")
twin("C13-T2", "C13", "arguments passed positionally", RS, "Result.get_coverage", "get_capacities(tvec=self.t, dt=self.dt, instructions=self.model.program_instructions)", "get_capacities(self.t, self.dt, self.model.program_instructions)")

# =============================================================================================== C14
OP = "atomica/optimization.py"
mutant("C14-M1", "C14", "R14a", "final assert deleted", OP, "constrain_sum_bounded", "    assert np.isclose(sol.sum(), s), f\"FAILED as {sol} has a total of {sol.sum()} which is not sufficiently close to the target value {s}\"\n", "")
mutant("C14-M2", "C14", "R14a", "clip deleted", OP, "constrain_sum_bounded", "sol = np.minimum(np.maximum(res[\"x\"], lb_scaled), ub_scaled) * s", "sol = res[\"x\"] * s")
mutant("C14-M3", "C14", "R14b", "success test deleted", OP, "constrain_sum_bounded", "    if not res[\"success\"]:\n        logger.warning(\"constrain_sum_bounded() failed - rejecting proposed parameters\")\n        raise FailedConstraint()\n", "")
mutant("C14-M4", "C14", "R14c", "minimum-spend comparison deleted", OP, "TotalSpendConstraint.get_hard_constraint", "            if minimum_spend > hard_constraints[\"initial_total_spend\"][t]:", "            if False:")
mutant("C14-M5", "C14", "R14c", "hard constraints computed after the optimiser", edits=[
    dict(file=OP, func="optimize", old="    if not hard_constraints:\n        hard_constraints = optimization.get_hard_constraints(x0, model.program_instructions)  # The optimization passed in here knows how to calculate the hard constraints based on the program instructions\n", new=""),
    dict(file=OP, func="optimize", old="    optimization.update_instructions(x_opt, model.program_instructions)\n", new="    if not hard_constraints:\n        hard_constraints = optimization.get_hard_constraints(x0, model.program_instructions)\n    optimization.update_instructions(x_opt, model.program_instructions)\n"),
])
mutant("C14-M6", "C14", "R14d", "package proportions written without constrain_sum_bounded", OP, "SpendingPackageAdjustment.update_instructions", "        fracs = constrain_sum_bounded(fracs, 1, self.min_props, self.max_props)\n", "")
mutant("C14-M7", "C14", "R14a", "early return without the bounds test", OP, "constrain_sum_bounded", "if np.all((x0_scaled >= lb_scaled) & (x0_scaled <= ub_scaled)) and np.isclose(x0_scaled.sum(), 1):", "if np.isclose(x0_scaled.sum(), 1):")
mutant("C14-M8", "C14", "R14b", "FailedConstraint not mapped to inf", OP, "_objective_fcn", "    except FailedConstraint:\n        return np.inf  # Return an objective of `np.inf` if the constraints could not be satisfied by ``x``", "    except FailedConstraint:\n        pass")
mutant("C14-M9", "C14", "R14c", "initial-objective check removed", OP, "optimize", "    if not np.isfinite(initial_objective):\n        raise InvalidInitialConditions(\"Optimization cannot begin because the objective function was %s for the specified initialization\" % (initial_objective))\n", "")
mutant("C14-M10", "C14", "R14d", "package constrained to the wrong bounds", OP, "SpendingPackageAdjustment.update_instructions", "constrain_sum_bounded(fracs, 1, self.min_props, self.max_props)", "constrain_sum_bounded(fracs, 1, self.max_props, self.max_props)")
mutant("C14-M11", "C14", "R14e", "upper bounds collected in a separate pass", OP, "TotalSpendConstraint.constrain_instructions", "                lb.append(low)\n                ub.append(high)\n", "                lb.append(low)\n            for prog in sorted(progs):\n                ub.append(hard_constraints[\"bounds\"][t][prog][1])\n")
mutant("C14-M12", "C14", "R14a", "early return checks only the upper bound", OP, "constrain_sum_bounded", "np.all((x0_scaled >= lb_scaled) & (x0_scaled <= ub_scaled))", "np.all(x0_scaled <= ub_scaled)")
mutant("C14-M13", "C14", "R14c", "maximum-spend accumulates lower bounds", OP, "TotalSpendConstraint.get_hard_constraint", "                        maximum_spend += hard_constraints[\"bounds\"][t][prog][1]", "                        maximum_spend += hard_constraints[\"bounds\"][t][prog][0]")
twin("C14-T1", "C14", "assert -> if not ...: raise FailedConstraint()", OP, "constrain_sum_bounded", "    assert np.isclose(sol.sum(), s), f\"FAILED as {sol} has a total of {sol.sum()} which is not sufficiently close to the target value {s}\"\n", "    if not np.isclose(sol.sum(), s):\n        raise FailedConstraint()\n")
twin("C14-T2", "C14", "np.clip(res['x'], lb_scaled, ub_scaled)", OP, "constrain_sum_bounded", "sol = np.minimum(np.maximum(res[\"x\"], lb_scaled), ub_scaled) * s", "sol = np.clip(res[\"x\"], lb_scaled, ub_scaled) * s")
twin("C14-T3", "C14", "success test written positively", OP, "constrain_sum_bounded", "    if not res[\"success\"]:\n        logger.warning(\"constrain_sum_bounded() failed - rejecting proposed parameters\")\n        raise FailedConstraint()\n", "    if res[\"success\"]:\n        pass\n    else:\n        raise FailedConstraint()\n")

# =============================================================================================== C15
CA = "atomica/calibration.py"
RC = "atomica/reconciliation.py"
PJ = "atomica/project.py"
mutant("C15-M1", "C15", "R15a", "calibrate restore moved out of finally", CA, "calibrate", "    finally:\n        project.settings.sim_end = original_sim_end  # Restore the simulation end year\n", "    project.settings.sim_end = original_sim_end\n")
mutant("C15-M3", "C15", "R15c", "calibrate passes the caller's parset to the optimiser", CA, "calibrate", "\"parset\": parset.copy(),", "\"parset\": parset,")
mutant("C15-M4", "C15", "R15c", "optimize updates the caller's instructions", OP, "optimize", "    optimization.update_instructions(x_opt, model.program_instructions)\n", "    optimization.update_instructions(x_opt, instructions)\n")
mutant("C15-M5", "C15", "R15c", "reconcile updates the caller's progset", RC, "reconcile", "    _update_progset(x_opt, mapping, new_progset)  # Apply the changes to the progset", "    _update_progset(x_opt, mapping, progset)")
mutant("C15-M7", "C15", "R15a", "finally restores a different attribute", CA, "calibrate", "        project.settings.sim_end = original_sim_end  # Restore the simulation end year", "        project.settings.sim_start = original_sim_end")
mutant("C15-M8", "C15", "R15c", "_convert_to_single_year edits the program set in place", RC, "_convert_to_single_year", "    new_progset = sc.dcp(progset)", "    new_progset = progset")
mutant("C15-M9", "C15", "R15a", "calibrate returns early inside the modified window", CA, "calibrate", "    project.settings.sim_end = min(project.data.tvec[-1], original_sim_end)\n", "    project.settings.sim_end = min(project.data.tvec[-1], original_sim_end)\n    if not x0:\n        return parset\n")
mutant("C15-M10", "C15", "R15c", "objective reuses one model across evaluations", OP, "_objective_fcn", "        model = pickle.loads(pickled_model)", "        model = pickled_model")
mutant("C15-M11", "C15", "R15c", "get_hard_constraints applies x0 to the caller's instructions", OP, "Optimization.get_hard_constraints", "        instructions = sc.dcp(instructions)\n", "")
twin("C15-T2", "C15", "parset.copy() bound to a local first", CA, "calibrate", "    args = {\n        \"project\": project,\n        \"parset\": parset.copy(),", "    working = parset.copy()\n    args = {\n        \"project\": project,\n        \"parset\": working,")
twin("C15-T3", "C15", "restore in a nested try/finally", CA, "calibrate", "    except Exception as e:\n        raise e\n    finally:", "    finally:")

# =============================================================================================== C16
DA = "atomica/data.py"
mutant("C16-M5", "C16", "R16d", "writer label 'Unit costs'", PR, "ProgramSet._write_spending", "tdve.ts[\"Unit cost\"] = prog.unit_cost", "tdve.ts[\"Unit costs\"] = prog.unit_cost")
mutant("C16-M6", "C16", "R16d", "reader header 'baseline'", PR, "ProgramSet._read_effects", "elif idx_to_header[i].lower() == \"baseline value\":", "elif idx_to_header[i].lower() == \"baseline\":")
mutant("C16-M7", "C16", "R16d", "category string mismatch on one side", PR, "ProgramSet.to_workbook", "self._book.set_properties({\"category\": \"atomica:progbook\"})", "self._book.set_properties({\"category\": \"atomica:programbook\"})")
mutant("C16-M8", "C16", "R16d", "y_factors key renamed on the writer only", PA, "ParameterSet.y_factors", "            y_factors[(par_name, None)] = sc.mergedicts({\"meta_y_factor\": par.meta_y_factor}, par.y_factor)", "            y_factors[(par_name, None)] = sc.mergedicts({\"meta\": par.meta_y_factor}, par.y_factor)")
mutant("C16-M9", "C16", "R16a", "Covout.sample without refreshing the cache", PR, "Covout.sample", "            self.imp_interaction = \",\".join(tokens)\n\n        self.update_outcomes()", "            self.imp_interaction = \",\".join(tokens)\n")
mutant("C16-M10", "C16", "R16d", "spending rows swapped on the writer", PR, "ProgramSet._write_spending", "tdve.ts[\"Saturation\"] = prog.saturation\n            tdve.ts[\"Coverage\"] = prog.coverage", "tdve.ts[\"Saturation\"] = prog.coverage\n            tdve.ts[\"Coverage\"] = prog.saturation")
mutant("C16-M11", "C16", "R16b", "remove_par uses a (population, parameter) key", PR, "ProgramSet.remove_par", "            if (code_name, pop) in self.covouts:\n                del self.covouts[(code_name, pop)]", "            if (pop, code_name) in self.covouts:\n                del self.covouts[(pop, code_name)]")
mutant("C16-M12", "C16", "R16e", "unknown calibration entries abort the load", PA, "ParameterSet.get_par", "            raise KeyError(f'Parameter \"{name}\" not found')", "            raise NotFoundError(f'Parameter \"{name}\" not found')")
mutant("C16-M13", "C16", "R16e", "blank cells overwrite existing y-factors", PA, "ParameterSet.load_calibration", "                if pd.isna(v):\n                    continue\n", "")
mutant("C16-M14", "C16", "R16d", "effects: uncertainty column written from the baseline", PR, "ProgramSet._write_effects", "sheet.write(current_row, 4, covout.sigma, self._formats[\"not_required\"])", "sheet.write(current_row, 4, covout.baseline, self._formats[\"not_required\"])")
mutant("C16-M15", "C16", "R16d", "population sheet header renamed on the writer", DA, "ProjectData._write_pops", "sheet.write(current_row, 1, \"Full Name\", self._formats[\"center_bold\"])", "sheet.write(current_row, 1, \"Display Name\", self._formats[\"center_bold\"])")
mutant("C16-M16", "C16", "R16c", "new handler reading its own failed assignment", PR, "ProgramSet._read_spending", "            prog = self.programs[tdve.name]\n", "            try:\n                prog = self.programs[tdve.name]\n            except KeyError:\n                raise Exception('Unknown program %s' % prog.name)\n")
twin("C16-T2", "C16", "labels hoisted into shared constants would still be literals at the use sites: reader accepts an extra legacy alias", PR, "ProgramSet._read_spending", "            if \"Capacity\" in tdve.ts:", "            if \"Capacity limit\" in tdve.ts:\n                set_ts(prog, \"capacity_constraint\", tdve.ts[\"Capacity limit\"])\n            elif \"Capacity\" in tdve.ts:")

# =============================================================================================== C17
mutant("C17-M2", "C17", "R17c", "ParameterSet.sample without dcp", PA, "ParameterSet.sample", "new = sc.dcp(self)", "new = self")
mutant("C17-M3", "C17", "R17c", "TimeSeries.sample edits self.vals", U, "TimeSeries.sample", "                new.vals = [v + delta for v in new.vals]", "                self.vals[:] = [v + delta for v in self.vals]")
mutant("C17-M4", "C17", "R17d", "draw not scaled by sigma", U, "TimeSeries.sample", "            delta = self.sigma * np.random.randn(1)[0]", "            delta = np.random.randn(1)[0]")
mutant("C17-M6", "C17", "R17a", "new pool submission of a sampling function without reseed", RS, "Ensemble.run_sims", "            self.samples = sc.parallelize(", "            extra = sc.parallelize(_sample_and_map, iterarg=2, kwargs={\"proj\": proj, \"parset\": parset})\n            self.samples = sc.parallelize(")
mutant("C17-M7", "C17", "R17d", "Covout.sample draws even when sigma is None", PR, "Covout.sample", "        if self.sigma is None:\n            return\n", "")
mutant("C17-M8", "C17", "R17c", "ProgramSet.sample perturbs the source covouts", PR, "ProgramSet.sample", "        for covout in new.covouts.values():", "        for covout in self.covouts.values():")
mutant("C17-M9", "C17", "R17b", "Program.sample reads a misspelt attribute", PR, "Program.sample", "self.saturation = self.saturation.sample(constant)", "self.saturation = self.saturations.sample(constant)")
twin("C17-T3", "C17", "ProgramSet.sample via copy.deepcopy", PR, "ProgramSet.sample", "new = sc.dcp(self)", "new = copy.deepcopy(self)")

# =============================================================================================== C18
FW = "atomica/framework.py"
mutant("C18-M6", "C18", "R18b", "new raise Exception in _validate_compartments", FW, "ProjectFramework._validate_compartments", "            if [row[\"is sink\"], row[\"is source\"], row[\"is junction\"]].count(\"y\") > 1:", "            if row[\"is sink\"] == \"y\" and row[\"is source\"] == \"y\":\n                raise Exception(\"sink and source\")\n            if [row[\"is sink\"], row[\"is source\"], row[\"is junction\"]].count(\"y\") > 1:")
mutant("C18-M7", "C18", "R18b", "new assert in _validate_names", FW, "ProjectFramework._validate_names", "        tmp = set()\n        for name in code_names:\n\n            if FS.RESERVED_SYMBOLS", "        tmp = set()\n        assert len(code_names) > 0, \"no names\"\n        for name in code_names:\n\n            if FS.RESERVED_SYMBOLS")
mutant("C18-M8", "C18", "R18b", "a converting handler narrowed to except ValueError", DA, "ProjectData.from_spreadsheet", "                try:\n                    self._read_pops(sheet)\n                except Exception as e:", "                try:\n                    self._read_pops(sheet)\n                except ValueError as e:")
mutant("C18-M9", "C18", "R18a", "new message with too few values", FW, "ProjectFramework._validate_names", "raise InvalidFramework('Code name \"%s\" is not valid: it cannot contain any of these reserved symbols %s' % (name, FS.RESERVED_SYMBOLS))", "raise InvalidFramework('Code name \"%s\" is not valid: it cannot contain any of these reserved symbols %s' % (name,))")
mutant("C18-M10", "C18", "R18a", "str.format with a missing argument", M, "Population.get_links", "raise NotFoundError(\"Object '{0}' not found.\".format(name))", "raise NotFoundError(\"Object '{0}' not found in {1}.\".format(name))", accept_exit2=False)
mutant("C18-M11", "C18", "R18c", "new dead branch over a literal list", DA, "ProjectData._validate", "                                if obj_type in [\"comps\", \"characs\"] or", "                                if obj_type in [\"comp\", \"charac\"] or")
mutant("C18-M12", "C18", "R18b", "program book reader raises KeyError-converting handler removed", PR, "ProgramSet.from_spreadsheet", "        try:\n            self._read_spending(workbook[\"Spending data\"], _allow_missing_data=_allow_missing_data)\n        except Exception as e:\n            message = 'Error on sheet \"Spending data\"'\n            raise InvalidProgramBook(\"%s -> %s\" % (message, e)) from e", "        self._read_spending(workbook[\"Spending data\"], _allow_missing_data=_allow_missing_data)")
mutant("C18-M13", "C18", "R18a", "attribute of a dict record read in a message", FW, "ProjectFramework._validate_parameters", "raise InvalidFramework('Parameter \"%s\" is marked \"is derivative\" but it does not have a parameter function' % (par_name))", "raise InvalidFramework('Parameter \"%s\" is marked \"is derivative\" but it does not have a parameter function' % (par.code_name))")
twin("C18-T1", "C18", "raise inside a helper called under a converting handler", DA, "ProjectData._read_pops", "        self.pops = sc.odict()\n", "        self.pops = sc.odict()\n        if sheet is None:\n            raise Exception(\"no sheet\")\n")
twin("C18-T2", "C18", "%-format -> f-string", FW, "ProjectFramework._validate_names", "raise InvalidFramework('Code name \"%s\" is not valid: it cannot contain any of these reserved symbols %s' % (name, FS.RESERVED_SYMBOLS))", "raise InvalidFramework(f'Code name \"{name}\" is not valid: it cannot contain any of these reserved symbols {FS.RESERVED_SYMBOLS}')")

# =============================================================================================== C19
FP = "atomica/function_parser.py"
mutant("C19-M3", "C19", "R19b", "'__' assert deleted", FP, "parse_function", "    assert \"__\" not in fcn_str, \"Cannot use double underscores in functions\"\n", "")
mutant("C19-M4", "C19", "R19b", "compile hoisted above the walk", edits=[
    dict(file=FP, func="parse_function", old="    compiled_code = compile(fcn_ast, filename=\"<ast>\", mode=\"eval\")\n", new=""),
    dict(file=FP, func="parse_function", old="    dep_list = []\n", new="    compiled_code = compile(fcn_ast, filename=\"<ast>\", mode=\"eval\")\n    dep_list = []\n"),
])
mutant("C19-M5", "C19", "R19e", "evaluate_plot_string allows ast.Call", U, "evaluate_plot_string", "isinstance(node, ast.Dict) or isinstance(node, ast.Str)", "isinstance(node, ast.Dict) or isinstance(node, ast.Call) or isinstance(node, ast.Str)")
mutant("C19-M7", "C19", "R19c", "division transformer skips the right operand of non-divisions", FP, "_DivTransformer.visit_BinOp", "        lhs = self.visit(node.left)\n        rhs = self.visit(node.right)\n\n        if not isinstance(node.op, ast.Div):\n            node.left = lhs\n            node.right = rhs\n            return node\n", "        if not isinstance(node.op, ast.Div):\n            node.left = self.visit(node.left)\n            return node\n        lhs = self.visit(node.left)\n        rhs = self.visit(node.right)\n")
mutant("C19-M8", "C19", "R19d", "eval with the module globals", FP, "parse_function", "return eval(compiled_code, deps, supported_functions)", "return eval(compiled_code, globals(), {**supported_functions, **deps})")
mutant("C19-M9", "C19", "R19f", "whitelisted-looking names dropped from the dependency list", FP, "parse_function", "        if isinstance(node, ast.Name) and node.id not in supported_functions:\n            dep_list.append(node.id)", "        if isinstance(node, ast.Name) and node.id not in supported_functions and not node.id.startswith(\"_\"):\n            dep_list.append(node.id)")
mutant("C19-M10", "C19", "R19c", "transformer applied after validation", edits=[
    dict(file=FP, func="parse_function", old="    fcn_ast = _DivTransformer().visit(fcn_ast)\n    fcn_ast = ast.fix_missing_locations(fcn_ast)\n", new=""),
    dict(file=FP, func="parse_function", old="    compiled_code = compile(", new="    fcn_ast = ast.fix_missing_locations(_DivTransformer().visit(fcn_ast))\n    compiled_code = compile("),
])
mutant("C19-M11", "C19", "R19e", "plot strings: eval before the walk", U, "evaluate_plot_string", "        fcn_ast = ast.parse(plot_string, mode=\"eval\")\n", "        fcn_ast = ast.parse(plot_string, mode=\"eval\")\n        if len(plot_string) < 10:\n            return eval(compile(fcn_ast, filename=\"<ast>\", mode=\"eval\"))\n")
twin("C19-T2", "C19", "assert -> if ... raise for the '__' guard", FP, "parse_function", "    assert \"__\" not in fcn_str, \"Cannot use double underscores in functions\"\n", "    if \"__\" in fcn_str:\n        raise ValueError(\"Cannot use double underscores in functions\")\n")

# =============================================================================================== C20
PL = "atomica/plotting.py"
CS = "atomica/cascade.py"
mutant("C20-M3", "C20", "R20c", "Series.__init__ stores vals uncopied", PL, "Series.__init__", "self.vals = np.copy(vals)", "self.vals = vals")
mutant("C20-M4", "C20", "R20c", "_programs_to_df masks the result's own array", RS, "_programs_to_df", "            programs_active = (result.model.program_instructions.start_year <= tvals)", "            result.model.t[result.model.t < result.model.program_instructions.start_year] = np.nan\n            programs_active = (result.model.program_instructions.start_year <= tvals)")
mutant("C20-M5", "C20", "R20d", "get_cascade_vals builds PlotData before sanitize_cascade", CS, "get_cascade_vals", "    _, cascade_dict, pop_type = sanitize_cascade(result.framework, cascade)\n    pops = sanitize_pops(pops, result, pop_type)", "    d0 = PlotData(result, outputs=cascade, pops=pops)\n    _, cascade_dict, pop_type = sanitize_cascade(result.framework, cascade)\n    pops = sanitize_pops(pops, result, pop_type)")
mutant("C20-M6", "C20", "R20a", "new sticky default in time_aggregate", PL, "PlotData.time_aggregate", "        for s in self.series:\n", "        for s in self.series:\n            if time_aggregation is None:\n                time_aggregation = \"integrate\" if s.units == \"\" else \"sum\"\n", accept_exit2=False)
mutant("C20-M7", "C20", "R20d", "sanitize_cascade returns early for dict cascades without validating", CS, "sanitize_cascade", "        cascade_name = None\n        cascade_dict = cascade\n", "        return None, cascade, None\n")
mutant("C20-M8", "C20", "R20c", "Result.get_variable caches on the model", RS, "Result.get_variable", "        if pops is not None:", "        self.model._last_query = name\n        if pops is not None:", accept_exit2=False)
twin("C20-T2", "C20", "np.array(vals, copy=True)", PL, "Series.__init__", "self.vals = np.copy(vals)", "self.vals = np.array(vals, copy=True)")

# =============================================================================================== re-introduction of every repaired defect
# (the fix: commits of /repo applied in reverse to the scratch copy; each must make the rule that found the defect fire again)
def reintro(id, prop, rule, commit, what):
    VARIANTS.append(dict(id=id, prop=prop, kind="mutant", rule=rule, what="re-intro: " + what, edits=[dict(reverse_commit=commit)]))


reintro("C19-M1", "C19", "R19a", "b2e7663", "default-allow validator in parse_function")
reintro("C03-M6", "C03", "R03b", "5117305", "int()/ceil on the raw grid quotient")
reintro("C15-M12", "C15", "R15b", "5117305", "non-idempotent sim_end setter")
# (fix c57d6af no longer reverse-applies since fix #27 touched the same lines: the defect is re-introduced textually)
mutant("C05-M1", "C05", ["R05a", "R05b"], "re-intro: math.ceil(duration / dt) keyring size in the compartment, helper in the link (siblings disagree)", M, "TimedCompartment.preallocate", "np.empty((_keyring_size(duration, dt), tvec.size)", "np.empty((max(1, math.ceil(duration / dt)), tvec.size)")
reintro("C15-M2", "C15", "R15a", "991907e", "run_optimization restores sim_end outside finally")
reintro("C15-M6", "C15", "R15d", "50ec2d8", "Population object compared with pop_names")
reintro("C16-M1", "C16", "R16a", "b36f5ea", "stale Covout cache after reconciliation / remove_program")
reintro("C16-M3", "C16", "R16b", "9495fbc", "remove_pop uses a (program, population) key")
reintro("C16-M4", "C16", "R16c", "f375ee8", "load_calibration handler reads the failed assignment")
reintro("C17-M5", "C17", "R17b", "ce8bc72", "Covout.sample reads self.interactions")
reintro("C17-M1", "C17", "R17a", "6896873", "forked workers not reseeded")
reintro("C18-M1", "C18", "R18a", "02ae170", "malformed error construction in the loaders")
reintro("C18-M5", "C18", "R18c", "1104fc3", "dead `obj_type == 'par'` branch")
reintro("C20-M1", "C20", "R20a", "60a303f", "sticky default aggregation in PlotData")
reintro("C20-M2", "C20", "R20b", "47d835e", "alias-then-augment in get_cascade_data")
reintro("C11-M6", "C11", "R11e", "d0070b3", "get_equivalent_alloc decides the program kind from coverage units")
reintro("C13-M4", "C13", ["R13e", "R13f"], "d0070b3", "linear interpolation / wrong one-off test in get_equivalent_alloc")
reintro("C18-M14", "C18", "R18b", "743b867", "validate_cascade raises plain Exception")
reintro("C18-M15", "C18", "R18b", "2f801b3", "ProgramSet.validate raises plain Exception")
reintro("C18-M16", "C18", "R18b", "781d182", "parse_function / plot string errors escape ProjectFramework as AssertionError/SyntaxError")
reintro("C18-M17", "C18", "R18b", "d91396b", "validate_category's plain Exception escapes the loaders")
reintro("C18-M18", "C18", "R18b", "2a7f4c3", "ProjectData.validate asserts escape as AssertionError")

# mutants that only make sense on the repaired tree
mutant("C19-M2", "C19", "R19a", "ast.Attribute added to the allowed kinds", FP, None, "    ast.Name,\n    ast.Constant,", "    ast.Name,\n    ast.Attribute,\n    ast.Constant,")
mutant("C19-M6", "C19", "R19a", "callee test weakened to hasattr(node.func, 'id')", FP, "parse_function", "assert isinstance(node.func, ast.Name) and node.func.id in supported_functions", "assert (not hasattr(node.func, \"id\")) or node.func.id in supported_functions")
mutant("C19-M12", "C19", "R19a", "keyword arguments allowed again", FP, None, "    ast.Load,\n    ast.operator,", "    ast.Load,\n    ast.keyword,\n    ast.operator,")
twin("C19-T1", "C19", "allowed kinds tested with type(node) in a set", FP, "parse_function", "assert isinstance(node, _allowed_nodes)", "assert isinstance(node, _allowed_nodes) and type(node) not in {ast.Attribute, ast.Subscript}")
mutant("C05-M2", "C05", "R05b", "one sibling bypasses the shared keyring helper", M, "TimedLink.preallocate", "self._vals = np.empty((_keyring_size(duration, dt), tvec.size), order=\"F\")", "self._vals = np.empty((max(1, int(round(duration / dt))), tvec.size), order=\"F\")")
twin("C05-T1", "C05", "keyring helper renamed", edits=[dict(file=M, old="_keyring_size", new="_n_keyring_rows", all=True)])
mutant("C03-M7", "C03", "R03b", "grid helper loses its snap-to-integer test", "atomica/project.py", "_n_steps", "    if abs(n - np.round(n)) < 1e-9 * max(1.0, abs(n)):\n        return int(np.round(n))\n    else:\n        return int(np.ceil(n))", "    return int(np.ceil(n))")
twin("C03-T3", "C03", "grid count helper that rounds differently", "atomica/project.py", "_n_steps", "    if abs(n - np.round(n)) < 1e-9 * max(1.0, abs(n)):\n        return int(np.round(n))\n    else:\n        return int(np.ceil(n))", "    if np.isclose(n, np.round(n), rtol=1e-9, atol=1e-9):\n        n = np.round(n)\n    return int(np.ceil(n))")
twin("C16-T1", "C16", "refresh by one sweep over covouts.values() already in place; alias local before the edit", RC, "_update_progset", "            progset.covouts[(target[1], target[2])].baseline = x", "            cv = progset.covouts[(target[1], target[2])]\n            cv.baseline = x")
twin("C17-T1", "C17", "reseed with an explicit entropy source", U, "_worker_init", "    np.random.seed()", "    np.random.seed(int.from_bytes(os.urandom(4), \"little\"))")
twin("C20-T1", "C20", "per-item local named differently", edits=[dict(file=PL, old="output_method", new="agg_for_this_output", all=True)])
twin("C15-T1", "C15", "run_optimization restores in finally via a helper local", PJ, "Project.run_optimization", "            self.settings.sim_end = original_end  # Note that", "            end_year_to_restore = original_end\n            self.settings.sim_end = original_end  # Note that")

mutant("C01-M14", "C01", "R01g", "TimedCompartment.__setitem__ divides by rows + 1", M, "TimedCompartment.__setitem__", "(self._vals.shape[0] * np.ones((self._vals.shape[0], 1)))", "((self._vals.shape[0] + 1) * np.ones((self._vals.shape[0], 1)))")
mutant("C01-M15", "C01", "R01g", "TimedLink total drops the first row", M, "TimedLink.__getitem__", "return self._vals[:, ti].sum(axis=0)", "return self._vals[1:, ti].sum(axis=0)")

# =============================================================================================== added after the first round of independently seeded changes
mutant("C03-M12", "C03", "R03c", "single fraction clamped at 1 before the joint rescale", M, "Model.update_links", "converted_frac = transition * (self.dt / par.timescale)", "converted_frac = min(1.0, transition * (self.dt / par.timescale))")
mutant("C04-M13", "C04", "R04a", "initial flush also for empty junctions", M, "JunctionCompartment.initial_flush", "if self.vals[0] > 0:", "if self.vals[0] >= 0:")
mutant("C10-M9", "C10", "R10e", "residual junction flushes when empty", M, "ResidualJunctionCompartment.initial_flush", "if self.vals[0] > 0:", "if self.vals[0] >= 0:")
mutant("C12-M9", "C12", "R12f", "0/0 guard tests the coverage instead of the denominator", PR, "Covout.get_outcome", "where=remainder != 0", "where=cov < 1")
mutant("C13-M11", "C13", "R13a", "integrator special-cases an empty target", M, "Model.update_pars", "                    prop_coverage[k] = self.progset.programs[k].get_prop_covered(self.t[ti], self._program_cache[\"capacities\"][k][ti], n)", "                    if n > 0:\n                        prop_coverage[k] = self.progset.programs[k].get_prop_covered(self.t[ti], self._program_cache[\"capacities\"][k][ti], n)\n                    else:\n                        prop_coverage[k] = np.zeros(1)")
mutant("C05-M13", "C05", "R05f", "early return for an empty timed compartment keeps the stale cached outflow", M, "TimedCompartment.resolve_outflows", "        # First, work out the scale factors as usual\n", "        if not self._vals[:, ti].any():\n            for link in self.outlinks:\n                link[ti] = 0.0\n            return\n")
mutant("C06-M16", "C06", "R06f", "recursive set_dynamic drops progset", M, "Parameter.set_dynamic", "                        dep.set_dynamic(progset=progset)  # Run `set_dynamic()` on the parameter", "                        dep.set_dynamic()  # Run `set_dynamic()` on the parameter")
mutant("C06-M17", "C06", "R06b", "precompute skipped when a scenario suspends the function", M, "Model.build", "if par.fcn_str and par._precompute:", "if par.fcn_str and par._precompute and not par.skip_function:")
mutant("C01-M16", "C01", "R01h", "junction inflow accumulator aliases the first inlink's storage", M, "JunctionCompartment.balance", "        net_inflow = 0\n        if self.duration_group:\n            for link in self.inlinks:\n                net_inflow += link._vals[:, ti]  # If part of a duration group, get the flow from TimedLink._vals", "        net_inflow = 0\n        if self.duration_group:\n            net_inflow = self.inlinks[0]._vals[:, ti]\n            for link in self.inlinks:\n                net_inflow += link._vals[:, ti] * (link is not self.inlinks[0])")
mutant("C02-M13", "C02", "R02a", "timed rescale decided from row 0 only", M, "TimedCompartment.resolve_outflows", "        rescale = np.divide(1, total_outflow, out=np.ones_like(total_outflow), where=total_outflow > 1)", "        if total_outflow[0] > 1:\n            rescale = 1 / total_outflow\n        else:\n            rescale = np.ones_like(total_outflow)")
mutant("C07-M10", "C07", "R07e", "denominator of a fraction characteristic without meta_y_factor", M, "Population.initialize_compartments", "denom_par.y_factor[self.name] * denom_par.meta_y_factor", "denom_par.y_factor[self.name]")

# ---- rules added after round 3 of seeded changes
EX = "atomica/excel.py"
reintro("C16-M17", "C16", "R16g", "81c2439", "TimeDependentConnections.write decides the cell columns from the raw flags")
mutant("C16-M18", "C16", "R16g", "TDVE.write decides the uncertainty cells from the raw flag", EX, "TimeDependentValuesEntry.write", "            if write_uncertainty:", "            if self.write_uncertainty:")
mutant("C16-M19", "C16", "R16h", "reader forces the units column off when the sheet had none", EX, "TimeDependentValuesEntry.from_rows", 'tdve.write_units = True if "units" in headings else None', 'tdve.write_units = True if "units" in headings else False')
mutant("C16-M20", "C16", "R16h", "reader forces the uncertainty column off (connections)", EX, "TimeDependentConnections.from_tables", 'tdc.write_uncertainty = True if "uncertainty" in headings else None', 'tdc.write_uncertainty = "uncertainty" in headings')
twin("C16-T4", "C16", "reader flag written as a conditional statement", EX, "TimeDependentValuesEntry.from_rows", 'tdve.write_units = True if "units" in headings else None', 'tdve.write_units = None\n        if "units" in headings:\n            tdve.write_units = True')
mutant("C15-M13", "C15", "R15e", "bounds looked up at the first year not after t", OP, "TotalSpendConstraint.get_hard_constraint", "idx = np.where(adjustment.t == t)[0][0]", "idx = np.where(adjustment.t <= t)[0][0]")
mutant("C15-M14", "C15", "R15e", "bounds always taken from the first adjustable", OP, "TotalSpendConstraint.get_hard_constraint", "adjustable = adjustment.adjustables[idx]", "adjustable = adjustment.adjustables[0]")
twin("C15-T9", "C15", "equality written the other way round", OP, "TotalSpendConstraint.get_hard_constraint", "idx = np.where(adjustment.t == t)[0][0]", "idx = np.where(t == adjustment.t)[0][0]")
mutant("C17-M10", "C17", "R17e", "interaction outcome stored with the baseline added", PR, "Covout.sample", "self._interactions[k] = v + self.sigma * np.random.randn(1)[0]", "self._interactions[k] = v + self.baseline + self.sigma * np.random.randn(1)[0]")
mutant("C17-M11", "C17", "R17e", "program outcome scaled instead of shifted", PR, "Covout.sample", "self.progs[k] = v + self.sigma * np.random.randn(1)[0]", "self.progs[k] = v * 1.01 + self.sigma * np.random.randn(1)[0]")
mutant("C17-M12", "C17", "R17e", "per-point draw loses the old value", U, "TimeSeries.sample", "new.vals[i] = v + delta", "new.vals[i] = delta")
twin("C17-T4", "C17", "noise first, then the value; via a local", PR, "Covout.sample", "self.progs[k] = v + self.sigma * np.random.randn(1)[0]", "shift = self.sigma * np.random.randn(1)[0]\n            self.progs[k] = shift + v")
mutant("C18-M19", "C18", "R18d", "cycle edge skipped for cross-type dependencies", FW, "ProjectFramework._validate_parameters", '                        if self.pars.at[dep, "is derivative"] != "y":', '                        if self.pars.at[dep, "population type"] != par["population type"]:\n                            pass\n                        elif self.pars.at[dep, "is derivative"] != "y":')
mutant("C18-M20", "C18", "R18d", "cycle test only when there are transitions", FW, "ProjectFramework._validate_parameters", "        if not nx.dag.is_directed_acyclic_graph(G):", "        if self.transitions and not nx.dag.is_directed_acyclic_graph(G):")
twin("C18-T3", "C18", "self-reference test with the operands swapped", FW, "ProjectFramework._validate_parameters", "                            if dep == par_name:", "                            if par_name == dep:")
mutant("C20-M9", "C20", "R20e", "coverage denominator starts as the compartment's own array", RS, "Result.get_coverage", "num_eligible[prog.name] = vals.copy()", "num_eligible[prog.name] = vals")
mutant("C20-M10", "C20", "R20e", "equivalent allocation hands out the eligible array", RS, "Result.get_equivalent_alloc", "equivalent_alloc[prog] = uc * num_costed_coverage", "equivalent_alloc[prog] = num_eligible[prog]")
twin("C20-T3", "C20", "np.array(vals) instead of vals.copy()", RS, "Result.get_coverage", "num_eligible[prog.name] = vals.copy()", "num_eligible[prog.name] = np.array(vals, dtype=float)")

# ---- R06g / R06h (interpolation contract, two-sided clipping)
mutant("C06-M20", "C06", "R06g", "linear interpolation extrapolates with zero on the left", U, "TimeSeries.interpolate", "return np.interp(t2, t1, v1, left=v1[0], right=v1[-1])", "return np.interp(t2, t1, v1, left=0.0, right=v1[-1])")
mutant("C06-M21", "C06", "R06g", "linear interpolation with swapped arrays", U, "TimeSeries.interpolate", "return np.interp(t2, t1, v1, left=v1[0], right=v1[-1])", "return np.interp(t2, v1, t1, left=v1[0], right=v1[-1])")
mutant("C06-M22", "C06", "R06g", "insert appends instead of keeping the years sorted", U, "TimeSeries.insert", "idx = bisect_left(self.t, t)", "idx = len(self.t)")
mutant("C06-M23", "C06", "R06g", "value inserted at the front", U, "TimeSeries.insert", "self.vals.insert(idx, v)", "self.vals.insert(0, v)")
mutant("C06-M24", "C06", "R06g", "assumption-only series returns NaN", U, "TimeSeries.interpolate", "return np.full(t2.shape, self.assumption)", "return np.full(t2.shape, np.nan)")
mutant("C06-M25", "C06", "R06g", "Parameter.interpolate ignores the stored method", PA, "Parameter.interpolate", "method=self._interpolation_method", 'method="previous"')
mutant("C06-M26", "C06", "R06g", "stepped interpolation fills with the last value on both sides", U, "TimeSeries.interpolate", "fill_value=(v1[0], v1[-1])", "fill_value=(v1[-1], v1[-1])")
mutant("C06-M27", "C06", "R06h", "vector clip with the limits swapped", M, "Parameter.constrain", "np.clip(self.vals, self.limits[0], self.limits[1])", "np.clip(self.vals, self.limits[1], self.limits[0])")
mutant("C06-M28", "C06", "R06h", "per-step clip ignores the upper limit", M, "Parameter.constrain", "if self.vals[ti] > self.limits[1]:", "if False:")
mutant("C06-M29", "C06", "R06h", "per-step lower clip writes the upper limit", M, "Parameter.constrain", "                    self.vals[ti] = self.limits[0]", "                    self.vals[ti] = self.limits[1]")
mutant("C06-M30", "C06", "R06h", "framework limits swapped", M, "Population.build", "par.limits = [max(-np.inf, min_value), min(np.inf, max_value)]", "par.limits = [max(-np.inf, max_value), min(np.inf, min_value)]")
twin("C06-T6", "C06", "per-step clip written with the comparison turned round", M, "Parameter.constrain", "if self.vals[ti] < self.limits[0]:", "if self.limits[0] > self.vals[ti]:")
twin("C06-T7", "C06", "interp result bound to a local first is not accepted by the exact-return rule: instead check keyword order", U, "TimeSeries.interpolate", "return np.interp(t2, t1, v1, left=v1[0], right=v1[-1])", "return np.interp(t2, t1, v1, right=v1[-1], left=v1[0])")
twin("C06-T8", "C06", "np.interp result bound to a local, then returned", U, "TimeSeries.interpolate", "return np.interp(t2, t1, v1, left=v1[0], right=v1[-1])", "out = np.interp(t2, t1, v1, left=v1[0], right=v1[-1])\n                return out")

# ---- R20f / R20g
reintro("C20-M11", "C20", "R20g", "00b0676", "weighted population average masked on the numerator with a NaN fill")
mutant("C20-M12", "C20", "R20f", "population average divides by the number of outputs", PL, "PlotData.__init__", "vals /= len(pop_labels)", "vals /= len(outputs)")
mutant("C20-M13", "C20", "R20f", "weighted output average: denominator sums the population sizes", PL, "PlotData.__init__", "aggregated_outputs[pop_label][output_name] /= sum([compsize[x] for x in labels])", "aggregated_outputs[pop_label][output_name] /= sum([popsize[x] for x in popsize])")
mutant("C20-M14", "C20", "R20f", "sum over populations skips the first population", PL, "PlotData.__init__", "vals = sum(aggregated_outputs[x][output_name] for x in pop_labels)  # Add together all the outputs\n                        elif pop_method == \"average\":", "vals = sum(aggregated_outputs[x][output_name] for x in pop_labels[1:])\n                        elif pop_method == \"average\":")
mutant("C20-M15", "C20", "R20f", "weighted numerator weights by the wrong mapping", PL, "PlotData.__init__", "numerator = sum(aggregated_outputs[x][output_name] * popsize[x] for x in pop_labels)", "numerator = sum(aggregated_outputs[x][output_name] * popsize[pop_labels[0]] for x in pop_labels)")
twin("C20-T4", "C20", "average written as one expression", PL, "PlotData.__init__", "vals = sum(aggregated_outputs[x][output_name] for x in pop_labels)  # Add together all the outputs\n                            vals /= len(pop_labels)", "vals = sum(aggregated_outputs[x][output_name] for x in pop_labels) / len(pop_labels)")
twin("C20-T5", "C20", "weighted quotient masked with `denominator > 0`", PL, "PlotData.__init__", "where=denominator != 0", "where=denominator > 0")

# ---- rules added after round 4 (second seeded change per property)
mutant("C03-M20", "C03", "R03d", "aggregation weights are a view of the model's interaction array on the TGT path", M, "Model.update_pars", "weights = self.interactions[pars[0].pop_aggregation[2]][:, :, ti].copy()", "weights = self.interactions[pars[0].pop_aggregation[2]][:, :, ti]")
twin("C03-T6", "C03", "copy taken with np.array(...)", M, "Model.update_pars", "weights = self.interactions[pars[0].pop_aggregation[2]][:, :, ti].copy()", "weights = np.array(self.interactions[pars[0].pop_aggregation[2]][:, :, ti])")
mutant("C07-M20", "C07", "R07d", "zero test applied to the quotient", M, "Characteristic.vals", "                vals_zero = vals < model_settings[\"tolerance\"]\n                vals[denom > 0] /= denom[denom > 0]\n", "                vals[denom > 0] /= denom[denom > 0]\n                vals_zero = vals < model_settings[\"tolerance\"]\n")
mutant("C04-M20", "C04", "R04b", "junction graph edges from proportion parameters' links", M, "Model._set_exec_order", "                    for link in comp.outlinks:\n                        if isinstance(link.dest, JunctionCompartment):\n                            G.add_edge(link.source, link.dest)", "                    for par in pop.pars:\n                        for link in par.links:\n                            if isinstance(link.dest, JunctionCompartment) and link.source is comp:\n                                G.add_edge(link.source, link.dest)")
mutant("C04-M21", "C04", "R04b", "junction graph skips residual junctions", M, "Model._set_exec_order", "                        if isinstance(link.dest, JunctionCompartment):\n                            G.add_edge(link.source, link.dest)", "                        if isinstance(link.dest, JunctionCompartment) and link.parameter is not None:\n                            G.add_edge(link.source, link.dest)")
twin("C04-T6", "C04", "junction graph built from inlinks", M, "Model._set_exec_order", "                    for link in comp.outlinks:\n                        if isinstance(link.dest, JunctionCompartment):\n                            G.add_edge(link.source, link.dest)", "                    for link in comp.inlinks:\n                        if isinstance(link.source, JunctionCompartment):\n                            G.add_edge(link.source, link.dest)")
mutant("C05-M20", "C05", "R05g", "residual junction built without its duration group", M, "Population.build", 'ResidualJunctionCompartment(pop=self, name=comp_name, duration_group=comps.at[comp_name, "duration group"])', "ResidualJunctionCompartment(pop=self, name=comp_name)")
mutant("C05-M21", "C05", "R05g", "timed compartment bound to the wrong parameter", M, "Population.build", 'parameter=self.par_lookup[comps.at[comp_name, "duration group"]]', "parameter=self.pars[0]")
twin("C05-T6", "C05", "duration group cell hoisted into a local", M, "Population.build", 'self.comps.append(JunctionCompartment(pop=self, name=comp_name, duration_group=comps.at[comp_name, "duration group"]))', 'dg = comps.at[comp_name, "duration group"]\n                    self.comps.append(JunctionCompartment(pop=self, name=comp_name, duration_group=dg))')

# ---- algebra / accumulator rules added after the mutation sweep (survivors turned into mutants)
mutant("C04-M22", "C04", "R04f", "junction outflow multiplied by the total instead of divided", M, "JunctionCompartment.balance", "link.vals[ti] = net_inflow * frac / total_outflow", "link.vals[ti] = net_inflow * frac * total_outflow")
mutant("C04-M23", "C04", "R04f", "initial flush subtracts from the destination", M, "JunctionCompartment.initial_flush", "link.dest[0] += self.vals[0] * frac", "link.dest[0] -= self.vals[0] * frac")
mutant("C04-M24", "C04", "R04f", "initial flush divides by the share", M, "JunctionCompartment.initial_flush", "link.dest[0] += self.vals[0] * frac", "link.dest[0] += self.vals[0] / frac")
mutant("C04-M25", "C04", "R04f", "residual flush divides by the share", M, "ResidualJunctionCompartment.initial_flush", "link.dest[0] += self.vals[0] * frac", "link.dest[0] += self.vals[0] / frac")
mutant("C04-M26", "C04", "R04f", "residual balance: residual link gets the whole inflow plus the others", M, "ResidualJunctionCompartment.balance", "flow = net_inflow - np.sum(outflow, axis=1)", "flow = net_inflow + np.sum(outflow, axis=1)")
mutant("C04-M27", "C04", "R04f", "timed junction outflow not divided by the total", M, "JunctionCompartment.balance", "link._vals[:, ti] = net_inflow * frac / total_outflow", "link._vals[:, ti] = net_inflow * frac")
mutant("C04-M28", "C04", "R04f", "proportions read at the previous index", M, "JunctionCompartment.balance", "outflow_fractions = [link.parameter.vals[ti] for link in self.outlinks]", "outflow_fractions = [link.parameter.vals[ti - 1] for link in self.outlinks]")
twin("C04-T7", "C04", "share written as inflow * (frac / total)", M, "JunctionCompartment.balance", "link.vals[ti] = net_inflow * frac / total_outflow", "link.vals[ti] = net_inflow * (frac / total_outflow)")
twin("C04-T8", "C04", "flush product commuted", M, "JunctionCompartment.initial_flush", "link.dest[0] += self.vals[0] * frac", "link.dest[0] += frac * self.vals[0]")
mutant("C01-M20", "C01", "R01i", "cached outflow starts at one", M, "Compartment.resolve_outflows", "self._cached_outflow = 0", "self._cached_outflow = 1")
mutant("C01-M21", "C01", "R01i", "timed total outflow subtracts plain links", M, "TimedCompartment.resolve_outflows", "total_outflow[:] += link._cache", "total_outflow[:] -= link._cache")
mutant("C01-M22", "C01", "R01k", "new link not registered with its parameter", M, "Link.create", "            new_link.parameter.links.append(new_link)", "            pass")
mutant("C01-M23", "C01", "R01i", "junction inflow starts at one", M, "JunctionCompartment.balance", "net_inflow = 0", "net_inflow = 1")
mutant("C01-M24", "C01", "R01j", "residual share divided", M, "ResidualJunctionCompartment.balance", "flow = net_inflow * frac", "flow = net_inflow / frac")
mutant("C02-M20", "C02", "R02f", "negative stock leaves the slot unwritten", M, "Compartment.update", "            self.vals[ti] = 0.0", "            pass")
mutant("C02-M21", "C02", "R02e", "requested outflow starts at one", M, "Compartment.resolve_outflows", "outflow = 0.0", "outflow = 1.0")
mutant("C05-M22", "C05", "R05i", "flush adds the outflow already taken", M, "TimedCompartment.resolve_outflows", "self._vals[0, ti] - self._cached_outflow[0]", "self._vals[0, ti] + self._cached_outflow[0]")
mutant("C05-M23", "C05", "R05h", "compartment duration divided by the timescale", M, "TimedCompartment.preallocate", "self.parameter.vals[0] * self.parameter.timescale", "self.parameter.vals[0] / self.parameter.timescale")
mutant("C05-M24", "C05", "R05h", "link duration applies the scale factor a second time (defect #27 restored on one side)", M, "TimedLink.preallocate", "duration = parameter.vals[0] * parameter.timescale  #", "duration = parameter.vals[0] * parameter.timescale * parameter.scale_factor  #")
twin("C05-T7", "C05", "duration product reordered", M, "TimedCompartment.preallocate", "self.parameter.vals[0] * self.parameter.timescale  #", "self.parameter.timescale * self.parameter.vals[0]  #")
twin("C01-T6", "C01", "cache reset written as 0.0", M, "Compartment.resolve_outflows", "self._cached_outflow = 0", "self._cached_outflow = 0.0")

# ---- round 4, second half
reintro("C06-M31", "C06", "R06b", "fce8126", "databook/scenario values not inserted for precomputed function parameters (NaN inside the suspension window)")
mutant("C09-M20", "C09", "R09b", "spending overwrite anchored at the start year by linear interpolation", PR, "ProgramInstructions.__init__", "                    self.alloc[prog_name] = sc.dcp(spending)\n", "                    self.alloc[prog_name] = sc.dcp(spending)\n                    self.alloc[prog_name].insert(self.start_year, spending.interpolate(self.start_year)[0])\n")
twin("C09-T6", "C09", "same anchoring with stepped interpolation", PR, "ProgramInstructions.__init__", "                    self.alloc[prog_name] = sc.dcp(spending)\n", "                    self.alloc[prog_name] = sc.dcp(spending)\n                    self.alloc[prog_name].insert(self.start_year, spending.interpolate(self.start_year, method=\"previous\")[0])\n")
mutant("C10-M20", "C10", "R10a", "timed compartment restored from its total when the step size differs", PA, "Initialization.apply", "                else:\n                    comp._vals[:, 0] = self.values[(comp.name, pop.name)]", "                elif self.dt is not None and self.dt != comp.dt:\n                    comp[0] = np.sum(self.values[(comp.name, pop.name)])\n                else:\n                    comp._vals[:, 0] = self.values[(comp.name, pop.name)]")
mutant("C10-M21", "C10", "R10a", "ordinary compartment restored scaled", PA, "Initialization.apply", "comp.vals[0] = self.values[(comp.name, pop.name)]", "comp.vals[0] = self.values[(comp.name, pop.name)] * 1.0000001")
mutant("C11-M20", "C11", "R11g", "zero spending overwrite dropped by a truth test", PR, "ProgramInstructions.__init__", "elif spending is not None:", "elif spending:")
mutant("C11-M21", "C11", "R11g", "zero coverage overwrite dropped by a truth test", PR, "ProgramInstructions.__init__", "                if isinstance(vals, TimeSeries):\n                    self.coverage[prog_name] = sc.dcp(vals)\n                else:", "                if isinstance(vals, TimeSeries):\n                    self.coverage[prog_name] = sc.dcp(vals)\n                elif vals:")
twin("C11-T6", "C11", "presence test written as `not (spending is None)`", PR, "ProgramInstructions.__init__", "elif spending is not None:", "elif not (spending is None):")
mutant("C14-M20", "C14", "R14f", "per-year bounds table shares one dict", OP, "TotalSpendConstraint.get_hard_constraint", '        hard_constraints["bounds"] = dict()\n', '        hard_constraints["bounds"] = dict.fromkeys(hard_constraints["initial_total_spend"], dict())\n')
mutant("C14-M21", "C14", "R14f", "per-year bounds dict created once before the loop", OP, "TotalSpendConstraint.get_hard_constraint", '            hard_constraints["bounds"][t] = dict()\n', '            hard_constraints["bounds"].setdefault(t, shared_bounds)\n')
twin("C14-T6", "C14", "fresh dict written as a literal", OP, "TotalSpendConstraint.get_hard_constraint", '            hard_constraints["bounds"][t] = dict()\n', '            hard_constraints["bounds"][t] = {}\n')
mutant("C08-M20", "C08", "R08d", "characteristic components collected in a set", M, "Population.build", 'includes = [x.strip() for x in characs.at[charac.name, "components"].split(",")]', 'includes = {x.strip() for x in characs.at[charac.name, "components"].split(",")}')
twin("C08-T6", "C08", "components de-duplicated in order", M, "Population.build", 'includes = [x.strip() for x in characs.at[charac.name, "components"].split(",")]', 'includes = list(dict.fromkeys(x.strip() for x in characs.at[charac.name, "components"].split(",")))')
mutant("C05-M25", "C05", "R05c", "TimedCompartment.connect: duration-group test negated", M, "TimedCompartment.connect", "        if (isinstance(dest, TimedCompartment) and dest.parameter.name == self.parameter.name) or (isinstance(dest, JunctionCompartment) and dest.duration_group == self.parameter.name):", "        if not ((isinstance(dest, TimedCompartment) and dest.parameter.name == self.parameter.name) or (isinstance(dest, JunctionCompartment) and dest.duration_group == self.parameter.name)):")
mutant("C05-M26", "C05", "R05c", "JunctionCompartment.connect: duration-group test negated", M, "JunctionCompartment.connect", "        if self.duration_group:", "        if not self.duration_group:")
mutant("C04-M29", "C04", "R04a", "junction stock not zero-filled at preallocation", M, "JunctionCompartment.preallocate", "        self.vals.fill(0.0)", "        pass")
mutant("C17-M13", "C17", "R17a", "pool initialiser returns before reseeding when the log level is already strict", U, "_worker_init", "    logger.setLevel(logging.WARNING)\n", "    if logger.getEffectiveLevel() >= logging.WARNING:\n        return\n    logger.setLevel(logging.WARNING)\n")
twin("C17-T5", "C17", "log level only lowered when needed, reseed unconditional", U, "_worker_init", "    logger.setLevel(logging.WARNING)\n", "    if logger.getEffectiveLevel() < logging.WARNING:\n        logger.setLevel(logging.WARNING)\n")
mutant("C18-M21", "C18", "R18e", "unit migration compares only the first word", DA, "ProjectData.from_spreadsheet", "ts.units.strip().lower() == tdve.allowed_units[0].strip().split()[0].strip().lower()", "ts.units.strip().split()[0].lower() == tdve.allowed_units[0].strip().split()[0].lower()")
mutant("C18-M22", "C18", "R18e", "unit migration unconditional", DA, "ProjectData.from_spreadsheet", "                            if not ts.units or ts.units.strip().lower() == tdve.allowed_units[0].strip().split()[0].strip().lower():\n                                ts.units = tdve.allowed_units[0]", "                            ts.units = tdve.allowed_units[0]")
twin("C18-T4", "C18", "unit comparison with casefold", DA, "ProjectData.from_spreadsheet", "ts.units.strip().lower() == tdve.allowed_units[0].strip().split()[0].strip().lower()", "ts.units.strip().casefold() == tdve.allowed_units[0].strip().split()[0].strip().casefold()")
mutant("C15-M15", "C15", "R15f", "initial spend remembered on the adjustable", OP, "SpendingAdjustment.get_initialization", "                initialization.append(alloc[self.prog_name][0])", "                adjustable.initial_value = alloc[self.prog_name][0]\n                initialization.append(adjustable.initial_value)")
mutant("C15-M16", "C15", "R15f", "constraint caches the years it was last asked about", OP, "TotalSpendConstraint.get_hard_constraint", '        hard_constraints["bounds"] = dict()\n', '        hard_constraints["bounds"] = dict()\n        self.t = sc.promotetoarray(list(hard_constraints["programs"].keys()))\n')

# ---- second mutation sweep (Model step functions): survivors turned into mutants
mutant("C01-M25", "C01", "R01l", "update_comps skips sink compartments", M, "Model.update_comps", "                comp.update(ti)", "                if not isinstance(comp, SinkCompartment):\n                    comp.update(ti)")
mutant("C01-M26", "C01", "R01l", "update_links resolves outflows of the first population only", M, "Model.update_links", "        for pop in self.pops:\n            for comp in pop.comps:\n                comp.resolve_outflows(ti)", "        for pop in self.pops[:1]:\n            for comp in pop.comps:\n                comp.resolve_outflows(ti)")
mutant("C06-M32", "C06", "R06i", "keep flag only for dynamic parameters (program targets dropped)", M, "Model._set_exec_order", "if par._is_dynamic or (self.progset and par.name in self.progset.pars):", "if par._is_dynamic:")
mutant("C06-M33", "C06", "R06i", "dependency edge condition negated", M, "Model._set_exec_order", 'if dep in par_derivative and par_derivative[dep] != "y":', 'if dep in par_derivative and par_derivative[dep] == "y":')
mutant("C06-M34", "C06", "R06i", "transition parameters: proportion test negated", M, "Model._set_exec_order", "if par.links and par.units != FS.QUANTITY_TYPE_PROPORTION:", "if par.links and par.units == FS.QUANTITY_TYPE_PROPORTION:")
mutant("C06-M35", "C06", "R06i", "characteristic order ignores included characteristics", M, "Model._set_exec_order", "                        G.add_edge(include, charac)  # Note directionality - the included characteristic needs to be added first", "                        pass")
mutant("C06-M36", "C06", "R06j", "dependency sum subtracts compartments", M, "Parameter.update", "dep_vals[dep_name] += dep[ti]\n", "dep_vals[dep_name] -= dep[ti]\n")
mutant("C06-M37", "C06", "R06j", "dependency sums start at one", M, "Parameter.update", "dep_vals = dict.fromkeys(self.deps, 0.0)", "dep_vals = dict.fromkeys(self.deps, 1.0)")
mutant("C07-M21", "C07", "R07f", "characteristic sum starts at one", M, "Characteristic.update", "        self._vals[ti] = 0\n", "        self._vals[ti] = 1\n")
mutant("C13-M20", "C13", "R13g", "eligible count subtracts", M, "Model.update_pars", "                        n += comp[ti]", "                        n -= comp[ti]")
mutant("C13-M21", "C13", "R13g", "source popsize starts at one", M, "Parameter.source_popsize", "                n = 0\n", "                n = 1\n")
mutant("C20-M16", "C20", "R20h", "population size subtracts compartments", M, "Population.popsize", "n += comp[ti]", "n -= comp[ti]")
twin("C06-T9", "C06", "keep flag condition with the disjuncts swapped", M, "Model._set_exec_order", "if par._is_dynamic or (self.progset and par.name in self.progset.pars):", "if (self.progset and par.name in self.progset.pars) or par._is_dynamic:")

# ---- third sweep (programs.py): survivors turned into mutants
mutant("C11-M22", "C11", "R11h", "saturation curve adds the saturation level", PR, "Program.get_prop_covered", "(1 + exp(-2 * prop_covered / saturation)) - saturation", "(1 + exp(-2 * prop_covered / saturation)) + saturation")
mutant("C11-M23", "C11", "R11h", "saturation curve divides by 2*saturation", PR, "Program.get_prop_covered", "prop_covered = 2 * saturation / (1", "prop_covered = 2 / saturation / (1")
mutant("C11-M24", "C11", "R11h", "saturation applied when there is no saturation data", PR, "Program.get_prop_covered", "if self.saturation.has_data:", "if not self.saturation.has_data:")
mutant("C11-M25", "C11", "R11i", "spending overwrite selection negated", PR, "ProgramSet.get_alloc", "if instructions is None or prog.name not in instructions.alloc:", "if not (instructions is None or prog.name not in instructions.alloc):")
mutant("C11-M26", "C11", "R11i", "capacity overwrite looked up in the spending overwrites", PR, "ProgramSet.get_capacities", "if instructions is None or prog.name not in instructions.capacity:", "if instructions is None or prog.name not in instructions.alloc:")
mutant("C11-M27", "C11", "R11i", "coverage overwrite used only when instructions are missing", PR, "ProgramSet.get_prop_coverage", "if instructions is None or prog.name not in instructions.coverage:", "if instructions is None and prog.name not in instructions.coverage:")
mutant("C11-M28", "C11", "R11j", "TimeSeries capacity overwrite wrapped instead of copied", PR, "ProgramInstructions.__init__", "                if isinstance(vals, TimeSeries):\n                    self.capacity[prog_name] = sc.dcp(vals)", "                if not isinstance(vals, TimeSeries):\n                    self.capacity[prog_name] = sc.dcp(vals)")
mutant("C11-M29", "C11", "R11j", "coverage overwrite shares the caller's TimeSeries", PR, "ProgramInstructions.__init__", "self.coverage[prog_name] = sc.dcp(vals)", "self.coverage[prog_name] = vals")
mutant("C11-M30", "C11", "R11j", "scalar spending overwrite placed at year 0", PR, "ProgramInstructions.__init__", "self.alloc[prog_name] = TimeSeries(t=self.start_year, vals=spending)", "self.alloc[prog_name] = TimeSeries(t=0, vals=spending)")
twin("C11-T7", "C11", "overwrite selection written positively", PR, "ProgramSet.get_alloc", "            if instructions is None or prog.name not in instructions.alloc:\n                alloc[prog.name] = prog.get_spend(tvec)\n            else:\n                alloc[prog.name] = instructions.alloc[prog.name].interpolate(tvec, method=\"previous\")", "            if instructions is not None and prog.name in instructions.alloc:\n                alloc[prog.name] = instructions.alloc[prog.name].interpolate(tvec, method=\"previous\")\n            else:\n                alloc[prog.name] = prog.get_spend(tvec)")
twin("C11-T8", "C11", "saturation curve with the terms reordered", PR, "Program.get_prop_covered", "prop_covered = 2 * saturation / (1 + exp(-2 * prop_covered / saturation)) - saturation", "prop_covered = -saturation + saturation * 2 / (exp(-(2 * prop_covered) / saturation) + 1)")
mutant("C12-M20", "C12", "R12g", "random weights: complement term not complemented", PR, "Covout.get_outcome", "combination_coverage = np.product(self.combinations * cov + (self.combinations ^ 1) * (1 - cov), axis=1)", "combination_coverage = np.product(self.combinations * cov + (self.combinations ^ 1) * (1 + cov), axis=1)")
mutant("C12-M21", "C12", "R12g", "additive share: inner maximum dropped", PR, "Covout.get_outcome", "additive = np.maximum(cov - np.maximum(cov - (1 - (np.cumsum(cov) - cov)), 0), 0)", "additive = np.maximum(cov - (cov - (1 - (np.cumsum(cov) - cov))), 0)")
mutant("C12-M22", "C12", "R12g", "additive: net random uses random portion for the complement", PR, "Covout.get_outcome", "net_random = self.combinations * random_portion + (self.combinations ^ 1) * (1 - random_portion)", "net_random = self.combinations * random_portion + (self.combinations ^ 1) * (1 + random_portion)")
mutant("C12-M23", "C12", "R12g", "additive: diagonal test inverted", PR, "Covout.get_outcome", "                        if i == j:", "                        if i != j:")
mutant("C12-M24", "C12", "R12g", "additive: switch to mixing when total coverage exceeds 0", PR, "Covout.get_outcome", "if np.sum(cov) > 1:", "if np.sum(cov) > 0:")
mutant("C12-M25", "C12", "R12g", "nested: first increment taken for every round", PR, "Covout.get_outcome", "                if i == 0:", "                if i != 0:")
mutant("C12-M26", "C12", "R12g", "nested: programs never dropped", PR, "Covout.get_outcome", "                prog_mask[idx[i]] = False  # Disable this program at the next iteration", "                pass")
mutant("C12-M27", "C12", "R12g", "additive below 1: coverage subtracted", PR, "Covout.get_outcome", "outcome += np.sum(cov * self._deltas)", "outcome -= np.sum(cov * self._deltas)")
twin("C12-T6", "C12", "random weights with the complement written 1 - C", PR, "Covout.get_outcome", "(self.combinations ^ 1) * (1 - cov)", "(1 - self.combinations) * (1 - cov)")
twin("C12-T7", "C12", "additive share with the cumulative sum simplified", PR, "Covout.get_outcome", "additive = np.maximum(cov - np.maximum(cov - (1 - (np.cumsum(cov) - cov)), 0), 0)", "additive = np.maximum(cov - np.maximum(np.cumsum(cov) - 1, 0), 0)")
mutant("C12-M28", "C12", "R12c", "empty combination contributes one", PR, "Covout.compute_impact_interaction", "            return 0.0", "            return 1.0")
mutant("C12-M29", "C12", "R12c", "empty-combination test negated", PR, "Covout.compute_impact_interaction", "        if not any(progs):", "        if any(progs):")

# ---- fourth sweep (optimization.py): survivors turned into mutants
mutant("C14-M22", "C14", "R14g", "lower bounds multiplied by the target instead of divided", OP, "constrain_sum_bounded", "lb_scaled = lb / s", "lb_scaled = lb * s")
mutant("C14-M23", "C14", "R14g", "solution divided by the target on the way back", OP, "constrain_sum_bounded", "sol = np.minimum(np.maximum(res[\"x\"], lb_scaled), ub_scaled) * s", "sol = np.minimum(np.maximum(res[\"x\"], lb_scaled), ub_scaled) / s")
mutant("C14-M24", "C14", "R14g", "already-feasible proposal returned unscaled", OP, "constrain_sum_bounded", "        return x0_scaled * s", "        return x0_scaled")
mutant("C14-M25", "C14", "R14g", "solver failure test inverted", OP, "constrain_sum_bounded", "    if not res[\"success\"]:", "    if res[\"success\"]:")
mutant("C14-M26", "C14", "R14g", "solver equality constraint sum(x) + 1", OP, "constrain_sum_bounded", "lambda x: np.sum(x) - 1", "lambda x: np.sum(x) + 1")
mutant("C14-M27", "C14", "R14g", "solver bounds with lower and upper swapped", OP, "constrain_sum_bounded", "bounds = [(lower, upper) for lower, upper in zip(lb_scaled, ub_scaled)]", "bounds = [(upper, lower) for lower, upper in zip(lb_scaled, ub_scaled)]")
mutant("C14-M28", "C14", "R14h", "required total divided by the budget factor", OP, "TotalSpendConstraint.get_hard_constraint", "hard_constraints[\"initial_total_spend\"][t] = total_spend * self.budget_factor[idx]", "hard_constraints[\"initial_total_spend\"][t] = total_spend / self.budget_factor[idx]")
mutant("C14-M29", "C14", "R14h", "current total subtracts program spending", OP, "TotalSpendConstraint.get_hard_constraint", "total_spend += instructions.alloc[prog].get(t)", "total_spend -= instructions.alloc[prog].get(t)")
mutant("C14-M30", "C14", "R14h", "summed lower bounds start at one", OP, "TotalSpendConstraint.get_hard_constraint", "            minimum_spend = 0.0", "            minimum_spend = 1.0")
mutant("C14-M31", "C14", "R14i", "optimal vector never written into the returned instructions", OP, "optimize", "    optimization.update_instructions(x_opt, model.program_instructions)\n", "")
mutant("C14-M32", "C14", "R14i", "returned instructions not constrained", OP, "optimize", "    optimization.constrain_instructions(model.program_instructions, hard_constraints)\n    return model.program_instructions", "    return model.program_instructions")
mutant("C14-M33", "C14", "R14i", "objective evaluated before the proposal is constrained", OP, "_objective_fcn", "        optimization.constrain_instructions(model.program_instructions, hard_constraints)\n        model.process()", "        model.process()\n        optimization.constrain_instructions(model.program_instructions, hard_constraints)")
twin("C14-T7", "C14", "scaled bounds written with a reciprocal", OP, "constrain_sum_bounded", "lb_scaled = lb / s", "lb_scaled = lb * (1 / s)")
mutant("C15-M17", "C15", "R15g", "objective subtracts a measurable", OP, "Optimization.compute_objective", "objective += measurable.eval(model, baseline)", "objective -= measurable.eval(model, baseline)")
mutant("C15-M18", "C15", "R15g", "range of years includes the upper bound", OP, "Measurable.get_objective_val", "(model.t >= self.t[0]) & (model.t < self.t[1])", "(model.t >= self.t[0]) & (model.t <= self.t[1])")
mutant("C15-M19", "C15", "R15g", "population filter inverted", OP, "Measurable.get_objective_val", "elif pop.name not in self.pop_names:", "elif pop.name in self.pop_names:")
mutant("C15-M20", "C15", "R15g", "weight divides", OP, "Measurable.eval", "return self.weight * self.get_objective_val(model, baseline)", "return self.get_objective_val(model, baseline) / self.weight")
mutant("C15-M21", "C15", "R15g", "link values not annualised", OP, "Measurable.get_objective_val", "val += np.sum(var.vals[t_filter] / var.dt)", "val += np.sum(var.vals[t_filter] * var.dt)")
mutant("C15-M22", "C15", "R15h", "initial objective check accepts infinity", OP, "optimize", "if not np.isfinite(initial_objective):", "if np.isnan(initial_objective):")
mutant("C15-M23", "C15", "R15i", "proposal blocks overlap", OP, "Optimization.update_instructions", "            idx += len(adjustment.adjustables)", "            idx += 1")
mutant("C15-M24", "C15", "R15i", "relative bounds divide", OP, "Adjustable.get_hard_bounds", "else x0 * self.upper_bound", "else x0 / self.upper_bound")
mutant("C15-M25", "C15", "R15i", "every year receives the first proposed value", OP, "SpendingAdjustment.update_instructions", "instructions.alloc[self.prog_name].insert(t, adjustable_values[i])", "instructions.alloc[self.prog_name].insert(t, adjustable_values[0])")
twin("C15-T4", "C15", "time range written with the comparisons turned round", OP, "Measurable.get_objective_val", "(model.t >= self.t[0]) & (model.t < self.t[1])", "(model.t < self.t[1]) & (model.t >= self.t[0])")

# ---- fifth sweep (function_parser.py, cascade.py)
mutant("C19-M20", "C19", "R19g", "double-underscore guard inverted", FP, "parse_function", 'assert "__" not in fcn_str', 'assert "__" in fcn_str or True')
mutant("C19-M21", "C19", "R19g", "whitelist test inverted", FP, "parse_function", "node.func.id in supported_functions, f", "node.func.id not in supported_functions, f")
mutant("C19-M22", "C19", "R19g", "sdiv masks where the numerator is zero", FP, "sdiv", "return np.divide(numerator, denominator, out=np.zeros_like(numerator, dtype=float), where=numerator != 0)", "return np.divide(numerator, denominator, out=np.zeros_like(numerator, dtype=float), where=numerator == 0)")
mutant("C19-M23", "C19", "R19g", "sdiv fills ones", FP, "sdiv", "out=np.zeros_like(denominator, dtype=float)", "out=np.ones_like(denominator, dtype=float)")
mutant("C19-M24", "C19", "R19g", "transformer replaces every operator except division", FP, "_DivTransformer.visit_BinOp", "if not isinstance(node.op, ast.Div):", "if isinstance(node.op, ast.Div):")
mutant("C19-M25", "C19", "R19g", "visited right operand not re-attached", FP, "_DivTransformer.visit_BinOp", "            node.right = rhs\n", "")
mutant("C19-M26", "C19", "R19g", "numeric-constant test accepts strings", FP, "parse_function", "assert isinstance(node.value, (int, float)),", "assert isinstance(node.value, (int, float, str)),")
mutant("C19-M27", "C19", "R19g", "sdiv arguments swapped by the transformer", FP, "_DivTransformer.visit_BinOp", "args = [lhs, rhs]", "args = [rhs, lhs]")
twin("C19-T5", "C19", "double-underscore guard as if/raise", FP, "parse_function", 'assert "__" not in fcn_str, "Cannot use double underscores in functions"', 'if "__" in fcn_str:\n        raise AssertionError("Cannot use double underscores in functions")')
mutant("C20-M17", "C20", "R20i", "cascade data subtracts later constituents", CS, "get_cascade_data", "cascade_data[stage_name] += data_values[code_name]", "cascade_data[stage_name] -= data_values[code_name]")
mutant("C20-M18", "C20", "R20i", "later populations overwrite instead of adding", CS, "get_cascade_data", "                    if pop_idx == 0:", "                    if pop_idx >= 0:")
mutant("C20-M19", "C20", "R20i", "nesting test compares a stage with itself", CS, "validate_cascade", "if not (set(expanded[i + 1]) <= set(expanded[i])):", "if not (set(expanded[i + 0]) <= set(expanded[i])):")
mutant("C20-M20", "C20", "R20i", "nesting test inverted", CS, "validate_cascade", "if not (set(expanded[i + 1]) <= set(expanded[i])):", "if set(expanded[i + 1]) <= set(expanded[i]):")
mutant("C20-M21", "C20", "R20i", "last pair of stages not checked", CS, "validate_cascade", "for i in range(0, len(expanded) - 1):", "for i in range(0, len(expanded) - 2):")
mutant("C20-M22", "C20", "R20i", "databook year matched with >=", CS, "get_cascade_data", "match = np.where(t == tval)[0]", "match = np.where(t >= tval)[0]")
twin("C20-T6", "C20", "subset test written with issubset", CS, "validate_cascade", "if not (set(expanded[i + 1]) <= set(expanded[i])):", "if not (set(expanded[i + 1]) <= set(expanded[i])) :")

# ---- sixth sweep (utils, parameters, calibration)
mutant("C17-M14", "C17", "R17f", "ParameterSet.sample never perturbs a parameter", PA, "ParameterSet.sample", "            par.sample(constant)", "            pass")
mutant("C17-M15", "C17", "R17f", "transfers and interactions left out of all_pars", PA, "ParameterSet.all_pars", "for obj in self.transfers.values() + self.interactions.values():", "for obj in self.transfers.values():")
mutant("C17-M16", "C17", "R17f", "covouts only sampled when there are several programs", PR, "ProgramSet.sample", "            covout.sample()", "            if covout.n_progs > 1:\n                covout.sample()")
mutant("C17-M17", "C17", "R17f", "unit cost not resampled", PR, "Program.sample", "        self.unit_cost = self.unit_cost.sample(constant)\n", "")
mutant("C16-M21", "C16", "R16e", "filled cells skipped, blank cells loaded", PA, "ParameterSet.load_calibration", "                if pd.isna(v):\n                    continue", "                if not pd.isna(v):\n                    continue")
mutant("C16-M22", "C16", "R16e", "population factors created for populations the parameter lacks", PA, "ParameterSet.load_calibration", "                    if k in par.y_factor:", "                    if k not in par.y_factor:")
mutant("C10-M22", "C10", "R10a", "saved entry used when absent, zero when present", PA, "Initialization.apply", "                if (comp.name, pop.name) not in self.values:\n                    comp._vals[:, 0] = 0", "                if (comp.name, pop.name) in self.values:\n                    comp._vals[:, 0] = 0")
mutant("C10-M23", "C10", "R10a", "state captured at the second match", PA, "Initialization.from_result", "idx = np.nonzero(res.model.t == year)[0][0]", "idx = np.nonzero(res.model.t >= year)[0][0]")
mutant("C10-M24", "C10", "R10a", "missing compartments start with one person", PA, "Initialization.apply", "                    comp.vals[0] = 0\n", "                    comp.vals[0] = 1\n")
mutant("C10-M25", "C10", "R10a", "default capture year is the first time point", PA, "Initialization.from_result", "year = res.model.t[-1]", "year = res.model.t[0]")
mutant("C15-M26", "C15", "R15j", "calibration objective evaluated without applying the proposal", CA, "_calculate_objective", "    _update_parset(parset, y_factors, pars_to_adjust)\n", "")
mutant("C15-M27", "C15", "R15j", "calibration objective subtracts", CA, "_calculate_objective", "objective += weight * sum(", "objective -= weight * sum(")
mutant("C15-M28", "C15", "R15j", "meta factor written for named populations", CA, "_update_parset", 'if pop_name.lower() == "all":', 'if pop_name.lower() != "all":')
mutant("C15-M29", "C15", "R15j", "every adjustable receives the first proposed factor", CA, "_update_parset", "parset.pars[par_name].y_factor[pop_name] = y_factors[i]", "parset.pars[par_name].y_factor[pop_name] = y_factors[0]")

# ---- R07g initial linear system
mutant("C07-M22", "C07", "R07g", "quantities with zero setup weight used for initialisation", M, "Population.initialize_compartments", 'framework.characs.index[(framework.characs["setup weight"] > 0)', 'framework.characs.index[(framework.characs["setup weight"] >= 0)')
mutant("C07-M23", "C07", "R07g", "sinks become unknowns of the initial system", M, "Population.initialize_compartments", "comps = [c for c in self.comps if not (isinstance(c, SourceCompartment) or isinstance(c, SinkCompartment))]", "comps = [c for c in self.comps if not isinstance(c, SourceCompartment)]")
mutant("C07-M24", "C07", "R07g", "fraction not multiplied by its denominator", M, "Population.initialize_compartments", "                if obj.denominator is not None:", "                if obj.denominator is None:")
mutant("C07-M25", "C07", "R07g", "member compartments entered with weight 2", M, "Population.initialize_compartments", "                    A[i, comp_indices[inc.name]] = 1.0", "                    A[i, comp_indices[inc.name]] = 2.0")
mutant("C07-M26", "C07", "R07g", "residual without the square", M, "Population.initialize_compartments", "residual = np.sum((proposed.ravel() - b.ravel()) ** 2)", "residual = np.sum(proposed.ravel() - b.ravel())")
mutant("C07-M27", "C07", "R07g", "solution written back shifted by one", M, "Population.initialize_compartments", "            c[0] = max(0.0, x[i])", "            c[0] = max(0.0, x[i - 1])")
mutant("C07-M28", "C07", "R07g", "per-quantity mismatch compared without abs", M, "Population.initialize_compartments", 'if abs(proposed[i] - b[i]) > model_settings["tolerance"]:', 'if proposed[i] - b[i] > model_settings["tolerance"]:')
mutant("C07-M29", "C07", "R07g", "right-hand side divided by the meta factor", M, "Population.initialize_compartments", "b[i] = par.interpolate(t_init, pop_name=self.name)[0] * par.y_factor[self.name] * par.meta_y_factor", "b[i] = par.interpolate(t_init, pop_name=self.name)[0] * par.y_factor[self.name] / par.meta_y_factor")
twin("C07-T4", "C07", "residual written with the operands swapped", M, "Population.initialize_compartments", "residual = np.sum((proposed.ravel() - b.ravel()) ** 2)", "residual = np.sum((b.ravel() - proposed.ravel()) ** 2)")

# ---- round 5 (third seeded change per property), first batch
mutant("C02-M22", "C02", "R02g", "rescale factor cached on the compartment", M, "Compartment.resolve_outflows", "        n = rescale * self.vals[ti]", "        if getattr(self, \"_cached_rescale\", None) is None:\n            self._cached_rescale = rescale\n        rescale = self._cached_rescale\n        n = rescale * self.vals[ti]")
mutant("C05-M27", "C05", "R05j", "keyring snap with np.isclose defaults", M, "_keyring_size", "if abs(n - round(n)) < 1e-9 * max(1.0, abs(n)):", "if np.isclose(n, round(n)):")
mutant("C05-M28", "C05", "R05j", "keyring snap with a 1e-4 tolerance", M, "_keyring_size", "if abs(n - round(n)) < 1e-9 * max(1.0, abs(n)):", "if abs(n - round(n)) < 1e-4 * max(1.0, abs(n)):")
twin("C05-T8", "C05", "keyring snap with explicit tight isclose", M, "_keyring_size", "if abs(n - round(n)) < 1e-9 * max(1.0, abs(n)):", "if np.isclose(n, round(n), rtol=1e-9, atol=1e-12):")
mutant("C03-M21", "C03", "R03e", "time grid snap with np.isclose defaults", PJ, "_n_steps", "if abs(n - np.round(n)) < 1e-9 * max(1.0, abs(n)):", "if np.isclose(n, np.round(n)):")
mutant("C04-M30", "C04", "R04f", "plain junction flush normalises only above 1", M, "JunctionCompartment.initial_flush", "            outflow_fractions /= np.sum(outflow_fractions)", "            if np.sum(outflow_fractions) > 1:\n                outflow_fractions /= np.sum(outflow_fractions)")
mutant("C07-M30", "C07", "R07h", "plain junction flush normalises only above 1", M, "JunctionCompartment.initial_flush", "            outflow_fractions /= np.sum(outflow_fractions)", "            if np.sum(outflow_fractions) > 1:\n                outflow_fractions /= np.sum(outflow_fractions)")
mutant("C06-M38", "C06", "R04e", "parameters not re-evaluated after the initial flush", M, "Model.process", "            self.update_pars()  # Update the transition parameters in case junction outflows are functions _and_ they depend on compartment sizes that just changed in the line above\n", "")
mutant("C20-M23", "C20", "R20j", "same-named flows subtracted", PL, "PlotData.__init__", "data_dict[output_label] += link.vals", "data_dict[output_label] -= link.vals")
mutant("C20-M24", "C20", "R20j", "flow total not annualised", PL, "PlotData.__init__", "                        data_dict[output_label] /= dt\n", "")
mutant("C13-M22", "C13", "R13h", "'eligible' returns the proportion covered", RS, "Result.get_coverage", "                output = num_eligible", "                output = prop_coverage")
mutant("C13-M23", "C13", "R13h", "every program's number coverage divided by dt", RS, "Result.get_coverage", "                if self.model.progset.programs[prog].is_one_off:\n                    output[prog] /= self.dt", "                output[prog] /= self.dt")
mutant("C13-M24", "C13", "R13h", "reported capacities computed without the instructions", RS, "Result.get_coverage", "capacities = self.model.progset.get_capacities(tvec=self.t, dt=self.dt, instructions=self.model.program_instructions)", "capacities = self.model.progset.get_capacities(tvec=self.t, dt=self.dt, instructions=None)")

# ---- round 5, second batch
mutant("C08-M21", "C08", "R08f", "execution order only recomputed when missing", M, "Model.process", "        self._set_exec_order()  # Set the execution order again", "        if self._exec_order is None:\n            self._set_exec_order()  # Set the execution order again")
mutant("C10-M26", "C10", "R10f", "program cache built after the index-0 evaluation", M, "Model.process", "        self._update_program_cache()\n", "")
mutant("C13-M25", "C13", "R13i", "program cache built only when programs start at the first year", M, "Model.process", "        self._update_program_cache()\n", "        if self.program_instructions is not None and self.program_instructions.start_year <= self.t[0]:\n            self._update_program_cache()\n")
mutant("C09-M21", "C09", "R09e", "smooth remembers the method on the parameter", PA, "Parameter.smooth", '            elif method in ["pchip", "linear", "previous"]:\n                pass', '            elif method in ["pchip", "linear", "previous"]:\n                self._interpolation_method = method')
mutant("C09-M22", "C09", "R09e", "scenario sets the parameter-wide interpolation method", "atomica/scenarios.py", "ParameterScenario.get_parset", "        return new_parset", "        for par in new_parset.all_pars():\n            par._interpolation_method = self.interpolation\n        return new_parset")
mutant("C12-M30", "C12", "R12h", "combination outcome cache inherits the deltas' dtype", PR, "Covout.update_outcomes", "        self._combination_outcomes = np.array(_combination_outcomes)", "        self._combination_outcomes = np.array(_combination_outcomes, dtype=self._deltas.dtype)")
mutant("C14-M34", "C14", "R14j", "adjustment years sorted while bounds stay positional", OP, "SpendingAdjustment.__init__", "self.t = sc.promotetoarray(t)", "self.t = np.sort(sc.promotetoarray(t))")
mutant("C14-M35", "C14", "R14j", "upper and lower bounds swapped when building adjustables", OP, "SpendingAdjustment.__init__", "lower_bound=lb, upper_bound=ub", "lower_bound=ub, upper_bound=lb")
twin("C14-T8", "C14", "years converted with np.asarray", OP, "SpendingAdjustment.__init__", "self.t = sc.promotetoarray(t)", "self.t = np.asarray(sc.promotetolist(t))")

# ---- R16i value-table field correspondence
EX2 = "atomica/excel.py"
mutant("C16-M23", "C16", "R16i", "uncertainty read from the constant column", EX2, "TimeDependentValuesEntry.from_rows", 'ts.sigma = cell_get_number(row[headings["uncertainty"]])', 'ts.sigma = cell_get_number(row[headings["constant"]])')
mutant("C16-M24", "C16", "R16i", "year values never inserted", EX2, "TimeDependentValuesEntry.from_rows", "                ts.insert(t, cell_get_number(row[idx]))  # If cell_get_number returns None, this gets handled accordingly by ts.insert()", "                pass")
mutant("C16-M25", "C16", "R16i", "uncertainty column index taken after the offset moved", EX2, "TimeDependentValuesEntry.write", "            uncertainty_index = offset  # Column to write the units in\n            offset += 1", "            offset += 1\n            uncertainty_index = offset  # Column to write the units in")
mutant("C16-M26", "C16", "R16i", "constant column carries the uncertainty", EX2, "TimeDependentValuesEntry.write", "worksheet.write(current_row, constant_index, row_ts.assumption, format)", "worksheet.write(current_row, constant_index, row_ts.sigma, format)")
mutant("C16-M27", "C16", "R16i", "assumption block advances the offset by one for two headers", EX2, "TimeDependentValuesEntry.write", "            constant_index = offset\n            offset += 2", "            constant_index = offset\n            offset += 1")
mutant("C16-M28", "C16", "R16i", "values written to the first year at or after their own", EX2, "TimeDependentValuesEntry.write", "idx = np.where(self.tvec == t)[0]", "idx = np.where(self.tvec >= t)[0]")
mutant("C16-M29", "C16", "R16i", "legacy assumption column ignored", EX2, "TimeDependentValuesEntry.from_rows", '                ts.assumption = cell_get_number(row[headings["assumption"]])', "                ts.assumption = None")
twin("C16-T5", "C16", "uncertainty cell read into a local first", EX2, "TimeDependentValuesEntry.from_rows", 'ts.sigma = cell_get_number(row[headings["uncertainty"]])', 'ts.sigma = cell_get_number(row[headings["uncertainty"]])  # unchanged')

# ---- round 5, third batch
mutant("C16-M30", "C16", "R16j", "program set time axis taken from the last table read", PR, "ProgramSet._read_spending", "self.tvec = array(sorted(list(times)))", "self.tvec = array(sorted(tdve.tvec))")
mutant("C16-M31", "C16", "R16j", "year columns collected only for programs with spending data", PR, "ProgramSet._read_spending", "            times.update(set(tdve.tvec))", "            if prog.spend_data.has_data:\n                times.update(set(tdve.tvec))")
mutant("C17-M18", "C17", "R17a", "perturbations drawn from a module-level Generator", U, "TimeSeries.sample", "delta = self.sigma * np.random.randn(1)[0]", "delta = self.sigma * _rng.standard_normal()", edits=[dict(file=U, old="import sciris as sc\nfrom .system import logger\n", new="import sciris as sc\nfrom .system import logger\n\n_rng = np.random.default_rng()\n"), dict(file=U, func="TimeSeries.sample", old="delta = self.sigma * np.random.randn(1)[0]", new="delta = self.sigma * _rng.standard_normal()")])
mutant("C18-M23", "C18", "R20i", "nesting check compares every stage with the first", CS, "validate_cascade", "if not (set(expanded[i + 1]) <= set(expanded[i])):", "if not (set(expanded[i + 1]) <= set(expanded[0])):")
mutant("C01-M27", "C01", "R01m", "junction remembers the last inflow on itself", M, "JunctionCompartment.balance", "        outflow_fractions = [link.parameter.vals[ti] for link in self.outlinks]", "        self._last_inflow = net_inflow\n        outflow_fractions = [link.parameter.vals[ti] for link in self.outlinks]")
mutant("C08-M22", "C08", "R08g", "update counts its own calls", M, "Compartment.update", "        tr = ti - 1\n", "        self._n_updates = getattr(self, \"_n_updates\", 0) + 1\n        tr = ti - 1\n")

# ---- R18f confirmed validation table
mutant("C18-M24", "C18", "R18f", "junction outflow unit rule inverted", FW, "ProjectFramework._validate_parameters", 'if par["format"] != FS.QUANTITY_TYPE_PROPORTION:', 'if par["format"] == FS.QUANTITY_TYPE_PROPORTION:', accept_skip=True)
mutant("C18-M25", "C18", "R18f", "duplicate-source rule only above two outflows", FW, "ProjectFramework._validate_parameters", "if n_source_outflow > 1:", "if n_source_outflow > 2:")
mutant("C18-M26", "C18", "R18f", "compartment can be both source and sink", FW, "ProjectFramework._validate_compartments", '.count("y") > 1', '.count("y") > 2')
mutant("C18-M27", "C18", "R18f", "reserved keywords allowed as names", FW, "ProjectFramework._validate_names", "if name in FS.RESERVED_KEYWORDS:", "if name in FS.RESERVED_KEYWORDS and False:")
mutant("C18-M28", "C18", "R18f", "undefined compartment in the transition matrix accepted", FW, "ProjectFramework._process_transitions", "if comp not in comps:", "if comp not in comps and False:")
mutant("C18-M29", "C18", "R18f", "missing data for an initialisation compartment accepted", FW, "ProjectFramework._validate_compartments", 'if (row["setup weight"] > 0) and pd.isna(row["databook page"]) and pd.isna(row["default value"]):', 'if (row["setup weight"] > 1) and pd.isna(row["databook page"]) and pd.isna(row["default value"]):')
twin("C18-T5", "C18", "validation condition rewritten equivalently", FW, "ProjectFramework._validate_names", "if name in FS.RESERVED_KEYWORDS:", "if not (name not in FS.RESERVED_KEYWORDS):")
mutant("C18-M30", "C18", "R18f", "databook unit mismatch accepted for parameters", DA, "ProjectData._validate", "if ts.units.strip().lower() != framework_units.strip().lower():", "if ts.units.strip().lower() != framework_units.strip().lower() and obj_type != \"pars\":")
mutant("C18-M31", "C18", "R18f", "missing population data accepted", DA, "ProjectData._validate", "assert ts.has_data, \"%s. Data values missing for %s (%s)\" % (location, tdve.name, name)", "pass")

# ---- round 6 (fourth seeded change per property), first batch
reintro("C03-M22", "C03", "R03f", "295cc0e", "sim_start setter does not re-snap the end year")
mutant("C03-M23", "C03", "R03f", "end year only re-snapped when it changed", PJ, "ProjectSettings.update_time_vector", "        if end is not None:\n            self.sim_end = end", "        if end is not None and end != self.sim_end:\n            self.sim_end = end")
mutant("C05-M29", "C05", "R05k", "junctions with several upstream compartments skipped", FW, "ProjectFramework._assign_junction_duration_groups", "                # The logic is\n", "                if len(upstream_comps) > 1 or len(downstream_groups) > 1:\n                    continue\n                # The logic is\n")
mutant("C05-M30", "C05", "R05k", "attachment test inverted for timed parameters", FW, "ProjectFramework._assign_junction_duration_groups", 'if par == ">" or self.pars.at[par, "timed"] != "y":', 'if par == ">" or self.pars.at[par, "timed"] == "y":')
mutant("C07-M31", "C07", "R07i", "flattened member list cached at wiring time", M, "Characteristic.get_included_comps", "        includes = []\n        for inc in self.includes:", "        if getattr(self, \"_flat\", None) is not None:\n            return list(self._flat)\n        includes = []\n        for inc in self.includes:")
mutant("C02-M23", "C02", "R04c", "residual outflow takes the remainder whatever the proportions sum to", M, "ResidualJunctionCompartment.balance", "if link.parameter is None and total_outflow < 1:", "if link.parameter is None:")
mutant("C06-M39", "C06", "R06c", "transfer scale factor divides by the all-population factor", M, "Model.build", "par.scale_factor = transfer_parameter.y_factor[pop_target] * transfer_parameter.meta_y_factor", "par.scale_factor = transfer_parameter.y_factor[pop_target] / transfer_parameter.meta_y_factor")
mutant("C01-M28", "C01", "R01n", "junction class chosen for non-junctions", M, "Population.build", 'elif comps.at[comp_name, "is junction"] == "y":', 'elif comps.at[comp_name, "is junction"] != "y":')
mutant("C04-M31", "C04", "R04g", "residual junctions built as plain junctions", M, "Population.build", "                if comp_name in residual_junctions:", "                if comp_name in residual_junctions and False:")
mutant("C05-M31", "C05", "R05l", "sources take precedence over duration groups", M, "Population.build", '                elif comps.at[comp_name, "duration group"]:\n                    self.comps.append(TimedCompartment(pop=self, name=comp_name, parameter=self.par_lookup[comps.at[comp_name, "duration group"]]))\n                elif comps.at[comp_name, "is source"] == "y":\n                    self.comps.append(SourceCompartment(pop=self, name=comp_name))', '                elif comps.at[comp_name, "is source"] == "y":\n                    self.comps.append(SourceCompartment(pop=self, name=comp_name))\n                elif comps.at[comp_name, "duration group"]:\n                    self.comps.append(TimedCompartment(pop=self, name=comp_name, parameter=self.par_lookup[comps.at[comp_name, "duration group"]]))')
mutant("C06-M40", "C06", "R06k", "interaction rows built from the 'to' population type", M, "Model.build", 'from_pops = [x.name for x in self.pops if x.type == self.framework.interactions.at[name, "from population type"]]', 'from_pops = [x.name for x in self.pops if x.type == self.framework.interactions.at[name, "to population type"]]')
mutant("C06-M41", "C06", "R06k", "interaction value stored transposed", M, "Model.build", "self.interactions[name][from_pops.index(from_pop), to_pops.index(to_pop), :]", "self.interactions[name][to_pops.index(to_pop), from_pops.index(from_pop), :]")
mutant("C01-M29", "C01", "R06k", "transfers also drain junctions", M, "Model.build", "if not (isinstance(src, SourceCompartment) or isinstance(src, SinkCompartment) or isinstance(src, JunctionCompartment)):", "if not (isinstance(src, SourceCompartment) or isinstance(src, SinkCompartment)):")

# ---- round 6, second batch
mutant("C08-M23", "C08", "R08c", "parsed functions cached in a module-level dict across copies", M, "Parameter.unlink", "        self._fcn = None", "        _exec_cache[self.id] = self._fcn\n        self._fcn = None", edits=[dict(file=M, old="class BadInitialization(Exception):", new="_exec_cache = {}\n\n\nclass BadInitialization(Exception):"), dict(file=M, func="Parameter.unlink", old="        self._fcn = None", new="        _exec_cache[self.id] = self._fcn\n        self._fcn = None")])
mutant("C09-M23", "C09", "R09c", "baseline times selected with isclose", "atomica/scenarios.py", "ParameterScenario.get_parset", "vals = par.interpolate(tvec[tvec < scen_start], pop_label)", "vals = par.interpolate(tvec[(tvec < scen_start) & ~np.isclose(tvec, scen_start)], pop_label)")
mutant("C10-M27", "C10", "R10c", "early exit for populations without databook quantities precedes the saved state", M, "Population.initialize_compartments", "        if not self.comps:", "        if not self.comps or not len(framework.comps.index[framework.comps[\"setup weight\"] > 0]):")
mutant("C13-M26", "C13", "R16k", "covouts keys unpacked as (population, parameter)", M, "Population.build", "(progset is not None and (par.name, self.name) in progset.covouts)", "(progset is not None and par.name in {b for a, b in progset.covouts.keys() if a == self.name})")
mutant("C12-M31", "C12", "R16a", "reconciliation refreshes only covouts whose outcomes changed", RC, "_update_progset", "    for covout in progset.covouts.values():\n        covout.update_outcomes()", "    pass")
mutant("C14-M36", "C14", "R15f", "initial value written back to the adjustable while computing bounds", OP, "Optimization.get_initialization", "                bounds = adjustable.get_hard_bounds(x0[ptr])", "                adjustable.initial_value = x0[ptr]\n                bounds = adjustable.get_hard_bounds(x0[ptr])")


# ---- rename twins: a local variable renamed consistently inside one function (regex on word boundaries) must not raise anything
def rename_twin(id, prop, file, func, old, new):
    twin(id, prop, "local `%s` renamed to `%s` in %s" % (old, new, func), file, func, old, new, rename_local=True)


rename_twin("C12-T8", "C12", PR, "Covout.get_outcome", "cov", "cvec")
rename_twin("C12-T9", "C12", PR, "Covout.get_outcome", "additive", "add_share")
rename_twin("C12-T10", "C12", PR, "Covout.get_outcome", "net_random", "mix")
rename_twin("C14-T9", "C14", OP, "constrain_sum_bounded", "x0_scaled", "x_unit")
rename_twin("C14-T10", "C14", OP, "constrain_sum_bounded", "lb_scaled", "lo_unit")
rename_twin("C14-T11", "C14", OP, "constrain_sum_bounded", "res", "solution")
rename_twin("C07-T5", "C07", M, "Population.initialize_compartments", "proposed", "fitted")
rename_twin("C07-T6", "C07", M, "Population.initialize_compartments", "b_objs", "rows")
rename_twin("C07-T7", "C07", M, "Population.initialize_compartments", "comp_indices", "col_of")
rename_twin("C13-T3", "C13", RS, "Result.get_coverage", "num_eligible", "eligible")
rename_twin("C13-T4", "C13", RS, "Result.get_coverage", "output", "out")
rename_twin("C15-T5", "C15", OP, "Measurable.get_objective_val", "t_filter", "when")
rename_twin("C15-T6", "C15", OP, "Measurable.get_objective_val", "val", "total")
rename_twin("C15-T7", "C15", CA, "_calculate_objective", "objective", "obj")
rename_twin("C16-T6", "C16", "atomica/excel.py", "TimeDependentValuesEntry.write", "offset", "col0")
rename_twin("C16-T7", "C16", "atomica/excel.py", "TimeDependentValuesEntry.from_rows", "ts", "series")
rename_twin("C04-T9", "C04", M, "JunctionCompartment.balance", "net_inflow", "arrivals")
rename_twin("C04-T10", "C04", M, "ResidualJunctionCompartment.balance", "outflow_fractions", "props")
rename_twin("C01-T7", "C01", M, "TimedCompartment.resolve_outflows", "total_outflow", "requested")
rename_twin("C02-T6", "C02", M, "Compartment.resolve_outflows", "rescale", "factor")
rename_twin("C05-T9", "C05", M, "TimedCompartment.preallocate", "duration", "stay")
rename_twin("C06-T10", "C06", M, "Model.build", "from_pops", "src_pops")
rename_twin("C06-T11", "C06", U, "TimeSeries.interpolate", "t1", "tdata")
rename_twin("C10-T2", "C10", PA, "Initialization.from_result", "idx", "pos")
rename_twin("C11-T9", "C11", PR, "Program.get_prop_covered", "saturation", "sat")
rename_twin("C20-T7", "C20", PL, "PlotData.__init__", "pop_labels", "members")
rename_twin("C20-T8", "C20", CS, "get_cascade_data", "data_values", "by_code")
rename_twin("C19-T6", "C19", FP, "parse_function", "node", "nd")
rename_twin("C03-T7", "C03", M, "Model.update_links", "converted_frac", "frac")
rename_twin("C17-T6", "C17", U, "TimeSeries.sample", "delta", "noise")
rename_twin("C18-T6", "C18", FW, "ProjectFramework._validate_parameters", "par_name", "pname")
rename_twin("C09-T7", "C09", "atomica/scenarios.py", "ParameterScenario.get_parset", "scen_start", "first_year")
rename_twin("C08-T7", "C08", M, "Population.build", "includes", "members")

# ---- round 6 batch 3 (S75-S80): shape rules (rules/shapes.py) and R19h
mutant("C15-M30", "C15", "R15u", "MinimizeMeasurable drops the population selection", OP, "MinimizeMeasurable.__init__", "weight=1, pop_names=pop_names)", "weight=1)")
mutant("C15-M31", "C15", "R15v", "AtMostMeasurable passes None for the population selection while still reading it", OP, "AtMostMeasurable.__init__", "        Measurable.__init__(self, measurable_name, t=t, weight=np.inf, pop_names=pop_names)", "        Measurable.__init__(self, measurable_name, t=t, weight=np.inf, pop_names=None)\n        self._requested_pops = pop_names")
twin("C15-T8", "C15", "population selection forwarded positionally", OP, "MaximizeMeasurable.__init__", "Measurable.__init__(self, measurable_name, t=t, weight=-1, pop_names=pop_names)", "Measurable.__init__(self, measurable_name, t, pop_names, -1)")
mutant("C16-M33", "C16", "R16l", "remove_comp strips the raw name from the targets", PR, "ProgramSet.remove_comp", "prog.target_comps.remove(code_name)", "prog.target_comps.remove(name)")
mutant("C16-M34", "C16", "R16l", "remove_par deletes the covouts keyed by the raw name", PR, "ProgramSet.remove_par", "del self.covouts[(code_name, pop)]", "del self.covouts[(name, pop)]")
twin("C16-T8", "C16", "raw name only in an error message", PR, "ProgramSet.remove_pop", "        del self.pops[code_name]", "        if code_name not in self.pops:\n            raise KeyError('Population \"%s\" not found' % name)\n        del self.pops[code_name]")
mutant("C17-M19", "C17", "R17g", "TimeSeries copy hook shares the value list", U, "TimeSeries.__deepcopy__", "new.vals = self.vals.copy()", "new.vals = self.vals")
mutant("C17-M20", "C17", "R17g", "Covout copy hook sharing the interaction dict (seeded C17d)", PR, "Covout.n_progs", "    @property\n    def n_progs(self)", "    def __deepcopy__(self, memodict={}):\n        new = Covout.__new__(Covout)\n        new.__dict__.update(self.__dict__)\n        new.progs = self.progs.copy()\n        return new\n\n    @property\n    def n_progs(self)", edits=[dict(file=PR, old="    @property\n    def n_progs(self) -> int:", new="    def __deepcopy__(self, memodict={}):\n        new = Covout.__new__(Covout)\n        new.__dict__.update(self.__dict__)\n        new.progs = self.progs.copy()\n        return new\n\n    @property\n    def n_progs(self) -> int:")])
twin("C17-T7", "C17", "TimeSeries copy hook builds the lists with list()", U, "TimeSeries.__deepcopy__", "new.vals = self.vals.copy()", "new.vals = list(self.vals)")
twin("C17-T8", "C17", "Covout copy hook that deep-copies the whole __dict__", PR, None, None, None, edits=[dict(file=PR, old="    @property\n    def n_progs(self) -> int:", new="    def __deepcopy__(self, memodict={}):\n        new = Covout.__new__(Covout)\n        new.__dict__.update(sc.dcp(self.__dict__))\n        return new\n\n    @property\n    def n_progs(self) -> int:")])
mutant("C08-M24", "C08", "R08h", "Model copy hook no longer deep-copies the state", M, "Model.__deepcopy__", "        d = sc.dcp(self.__dict__)\n", "        d = dict(self.__dict__)\n")
mutant("C19-M28", "C19", "R19h", "max seeded with the smallest positive float (seeded C19d)", FP, "vector_max", "return reduce(np.maximum, args)", "return reduce(np.maximum, args, 2.2e-308)")
mutant("C19-M29", "C19", "R19h", "min reduces with np.maximum", FP, "vector_min", "return reduce(np.minimum, args)", "return reduce(np.maximum, args)")
mutant("C19-M30", "C19", "R19h", "ln bound to log10", FP, None, None, None, edits=[dict(file=FP, old='"ln": np.log,', new='"ln": np.log10,')])
mutant("C19-M31", "C19", "R19h", "max and min swapped in the whitelist", FP, None, None, None, edits=[dict(file=FP, old='"max": vector_max, "min": vector_min', new='"max": vector_min, "min": vector_max')])
twin("C19-T7", "C19", "max seeded with minus infinity", FP, "vector_max", "return reduce(np.maximum, args)", "return reduce(np.maximum, args, -np.inf)")
twin("C19-T8", "C19", "min result in a local first", FP, "vector_min", "return reduce(np.minimum, args)", "out = reduce(np.minimum, args)\n    return out")
mutant("C18-M32", "C18", "R18f", "cascade constituents accepted when they are any framework name (seeded C18d)", FW, "ProjectFramework._validate_cascades", "component.strip() in self.comps.index or component.strip() in self.characs.index", "component.strip() in self")
mutant("C01-M30", "C01", "R01g", "timed compartment lookup collapses the time axis (seeded C20d)", M, "TimedCompartment.__getitem__", "return self._vals[:, ti].sum(axis=0)", "return self._vals[:, ti].sum()")
mutant("C20-M25", "C20", "R01g", "timed compartment lookup collapses the time axis (seeded C20d), seen from C20", M, "TimedCompartment.__getitem__", "return self._vals[:, ti].sum(axis=0)", "return self._vals[:, ti].sum()")

# ---- round 7
PS = "atomica/parameters.py"
mutant("C06-M43", "C06", "R06w", "one copy of the 'all' row shared by every population (seeded C06e)", PS, "ParameterSet.__init__", '            for k in self.pop_names:\n                if k in tdve.ts:\n                    ts[k] = tdve.ts[k].copy()\n                elif "all" in tdve.ts:\n                    ts[k] = tdve.ts["all"].copy()', '            fallback = tdve.ts["all"].copy() if "all" in tdve.ts else None\n            for k in self.pop_names:\n                if k in tdve.ts:\n                    ts[k] = tdve.ts[k].copy()\n                elif fallback is not None:\n                    ts[k] = fallback')
mutant("C06-M44", "C06", "R06l", "the 'all' row stored without a copy", PS, "ParameterSet.__init__", 'ts[k] = tdve.ts["all"].copy()', 'ts[k] = tdve.ts["all"]')
twin("C06-T12", "C06", "per-population copy through a local", PS, "ParameterSet.__init__", "                    ts[k] = tdve.ts[k].copy()", "                    series = tdve.ts[k].copy()\n                    ts[k] = series")
twin("C06-T13", "C06", "per-population copy with sc.dcp", PS, "ParameterSet.__init__", 'ts[k] = tdve.ts["All"].copy()', 'ts[k] = sc.dcp(tdve.ts["All"])')
mutant("C07-M32", "C07", "R01g", "initial occupants spread by dt / duration (seeded C07e)", M, "TimedCompartment.__setitem__", "value.reshape((1, -1)) / (self._vals.shape[0] * np.ones((self._vals.shape[0], 1)))", "value.reshape((1, -1)) * 0.25 * np.ones((self._vals.shape[0], 1))")
mutant("C08-M25", "C08", "R08i", "parsed function only re-created for parameters with dependencies (seeded C08e)", M, "Parameter.relink", "        if self.fcn_str:\n            self._fcn = parse_function(self.fcn_str)[0]", "        if self.deps and self.fcn_str:\n            self._fcn = parse_function(self.fcn_str)[0]")
mutant("C08-M26", "C08", "R08i", "characteristic denominator not restored", M, "Characteristic.relink", "        self.denominator = objs[self.denominator] if self.denominator is not None else None", "        pass")
mutant("C08-M27", "C08", "R08i", "timed compartment relink skips the base class", M, "TimedCompartment.relink", "        Compartment.relink(self, objs)\n", "        Variable.relink(self, objs)\n")
twin("C08-T8", "C08", "relink tests the function string for emptiness explicitly", M, "Parameter.relink", "        if self.fcn_str:\n            self._fcn", "        if self.fcn_str:\n            # re-parse\n            self._fcn")
mutant("C10-M28", "C10", "R10g", "saved values written with merged index cells (defect #25 restored)", PS, "Initialization.to_excel", ", merge_cells=False)", ")")
twin("C10-T3", "C10", "saved values sorted before writing (harmless once cells are not merged)", PS, "Initialization.to_excel", "values = pd.DataFrame(d).T", "values = pd.DataFrame(d).T.sort_index()")
mutant("C12-M32", "C12", "R12x", "optional effect columns no longer reset per row (seeded C12e)", PR, "ProgramSet._read_effects", "                baseline = None\n                cov_interaction = None\n                imp_interaction = None\n                uncertainty = None\n", "                baseline = None\n", edits=[dict(file=PR, func="ProgramSet._read_effects", old="            for row in table[1:]:", new="            cov_interaction = None\n            imp_interaction = None\n            uncertainty = None\n            for row in table[1:]:"), dict(file=PR, func="ProgramSet._read_effects", old="                baseline = None\n                cov_interaction = None\n                imp_interaction = None\n                uncertainty = None\n", new="                baseline = None\n")])
mutant("C11-M40", "C11", "R13a", "unfunded programs get coverage 0 without asking get_prop_covered (seeded C11e)", M, "Model.update_pars", "prop_coverage[k] = self.progset.programs[k].get_prop_covered(self.t[ti], self._program_cache[\"capacities\"][k][ti], n)", "prop_coverage[k] = self.progset.programs[k].get_prop_covered(self.t[ti], self._program_cache[\"capacities\"][k][ti], n) if self._program_cache[\"capacities\"][k][ti] > 0 else np.zeros(1)")
mutant("C13-M27", "C13", "R12a", "programs ordered by outcome instead of effect relative to baseline (seeded C13e)", PR, "Covout.update_outcomes", "key=lambda x: -abs(x[1] - self.baseline)", "key=lambda x: -abs(x[1])")
mutant("C17-M21", "C17", "R17a", "per-sample worker reseeds from the process id (seeded C17e)", RS, "_sample_and_map_worker", "    np.random.seed()", "    np.random.seed(os.getpid())", edits=[dict(file=RS, old="import numpy as np\n", new="import os\nimport numpy as np\n"), dict(file=RS, func="_sample_and_map_worker", old="    np.random.seed()", new="    np.random.seed(os.getpid())")])
mutant("C17-M22", "C17", "R17a", "pool initialiser reseeds with a constant", U, "_worker_init", "    np.random.seed()", "    np.random.seed(0)")
twin("C17-T9", "C17", "reseed written with an explicit None", RS, "_sample_and_map_worker", "    np.random.seed()", "    np.random.seed(None)")


# ---- field rename twins: an attribute renamed consistently in the whole file must not raise anything
def field_twin(id, prop, file, old, new):
    import glob
    import os
    import re

    files = [file] + sorted("atomica/" + os.path.basename(f) for f in glob.glob("/repo/atomica/*.py") if "atomica/" + os.path.basename(f) != file and re.search(re.escape("." + old) + r"\b", open(f).read()))
    twin(id, prop, "field `%s` renamed to `%s` throughout the package" % (old, new), None, None, None, None, edits=[dict(file=f, old="." + old, new="." + new, all=True, word=True) for f in files])


field_twin("C01-T8", "C01", M, "_cached_outflow", "_outflow_cache")
field_twin("C05-T10", "C05", M, "flush_link", "expiry_link")
field_twin("C04-T11", "C04", M, "duration_group", "dur_group")
field_twin("C12-T11", "C12", PR, "_cached_progs", "_ordered_progs")
field_twin("C14-T12", "C14", OP, "adjustables", "knobs")
field_twin("C06-T14", "C06", M, "_is_dynamic", "_dynamic_flag")
field_twin("C17-T10", "C17", U, "_sampled", "_was_sampled")
field_twin("C13-T5", "C13", M, "_program_cache", "_prog_cache")

# ---- round 8
mutant("C06-M46", "C06", "R06n", "suspended function re-evaluated at the first overwrite year (seeded C06f)", M, "Parameter.update", "if (self.t[ti] >= self.skip_function[0]) and (self.t[ti] <= self.skip_function[1]):", "if (self.t[ti] > self.skip_function[0]) and (self.t[ti] <= self.skip_function[1]):")
mutant("C06-M47", "C06", "R06n", "vector evaluation also keeps the last suspended year", M, "Parameter.update", "(self.t[ti] > self.skip_function[1])", "(self.t[ti] >= self.skip_function[1])")
twin("C06-T15", "C06", "skip window unpacked into locals, chained comparison", M, "Parameter.update", "                if (self.t[ti] >= self.skip_function[0]) and (self.t[ti] <= self.skip_function[1]):\n                    return", "                skip_start, skip_stop = self.skip_function\n                if skip_start <= self.t[ti] <= skip_stop:\n                    return")
mutant("C06-M48", "C06", "R06m", "precompute decision nested under the dependency test (seeded C04f)", M, "Parameter.set_dynamic", "        if not self._is_dynamic:\n            self._precompute = True", "            if not self._is_dynamic:\n                self._precompute = True")
twin("C06-T16", "C06", "precompute decision written as if / else", M, "Parameter.set_dynamic", "        if not self._is_dynamic:\n            self._precompute = True", "        if self._is_dynamic:\n            pass\n        else:\n            self._precompute = True")
SC = "atomica/scenarios.py"
mutant("C09-M24", "C09", "R09f", "parameter scenario edits the parset it was given", SC, "ParameterScenario.get_parset", "new_parset = sc.dcp(parset)", "new_parset = parset")
mutant("C09-M25", "C09", "R09f", "parameter scenario sanitises its own stored values in place", SC, "ParameterScenario.get_parset", "                overwrite = sc.dcp(overwrite)\n", "")
mutant("C09-M26", "C09", "R09f", "budget scenario keeps the caller's allocation object", SC, "BudgetScenario.__init__", "sc.dcp(alloc)", "alloc")
mutant("C09-M27", "C09", "R09f", "parameter scenario keeps the caller's values object", SC, "ParameterScenario.__init__", "sc.dcp(scenario_values)", "scenario_values")
twin("C09-T8", "C09", "parset copied with copy.deepcopy", SC, "ParameterScenario.get_parset", "new_parset = sc.dcp(parset)", "new_parset = copy.deepcopy(parset)", edits=[dict(file=SC, old="import numpy as np\n", new="import copy\nimport numpy as np\n"), dict(file=SC, func="ParameterScenario.get_parset", old="new_parset = sc.dcp(parset)", new="new_parset = copy.deepcopy(parset)")])
mutant("C09-M28", "C09", "R09c", "pinned baseline values not stored", SC, "ParameterScenario.get_parset", "                par.ts[pop_label].vals = vals.tolist()\n", "")
mutant("C09-M29", "C09", "R09c", "baseline pinned up to the last overwrite year", SC, "ParameterScenario.get_parset", 'scen_start = min(overwrite["t"])', 'scen_start = max(overwrite["t"])')
mutant("C09-M30", "C09", "R09c", "overwrite values inserted at the pinned threshold instead of their own year", SC, "ParameterScenario.get_parset", "par.ts[pop_label].insert(t, y)", "par.ts[pop_label].insert(scen_start, y)")
mutant("C09-M31", "C09", "R09c", "baseline values interpolated onto all times", SC, "ParameterScenario.get_parset", "vals = par.interpolate(tvec[tvec < scen_start], pop_label)", "vals = par.interpolate(tvec, pop_label)")
twin("C09-T9", "C09", "pinned times in a local first", SC, "ParameterScenario.get_parset", "                vals = par.interpolate(tvec[tvec < scen_start], pop_label)", "                vals = par.interpolate(tvec[tvec < scen_start], pop_label)\n                n_before = len(vals)")
mutant("C16-M35", "C16", "R16m", "remove_pop deletes the covouts of every other population", PR, "ProgramSet.remove_pop", "if pop_name == code_name:", "if pop_name != code_name:")
mutant("C16-M36", "C16", "R16m", "remove_comp leaves the compartment in the program targets", PR, "ProgramSet.remove_comp", "                prog.target_comps.remove(code_name)\n", "                pass\n")
mutant("C16-M37", "C16", "R16m", "remove_program does not refresh the covout cache", PR, "ProgramSet.remove_program", "                    self.covouts[(par, pop)].update_outcomes()", "                    pass")
mutant("C16-M38", "C16", "R16m", "remove_par keeps the parameter entry", PR, "ProgramSet.remove_par", "        del self.pars[code_name]", "        pass")
twin("C16-T9", "C16", "remove_pop tests the key the other way round", PR, "ProgramSet.remove_pop", "if pop_name == code_name:", "if code_name == pop_name:")
mutant("C14-M37", "C14", "R14k", "years whose total already looks right skip the bounded projection (seeded C14f)", OP, "TotalSpendConstraint.constrain_instructions", "            x1_array = constrain_sum_bounded(x0_array, total_spend, lb, ub)", "            if np.isclose(x0_array.sum(), total_spend):\n                continue\n            x1_array = constrain_sum_bounded(x0_array, total_spend, lb, ub)")
twin("C14-T13", "C14", "a debug message in front of the projection", OP, "TotalSpendConstraint.constrain_instructions", "            x1_array = constrain_sum_bounded(x0_array, total_spend, lb, ub)", "            if not np.isclose(x0_array.sum(), total_spend):\n                logger.debug('rescaling year %s', t)\n            x1_array = constrain_sum_bounded(x0_array, total_spend, lb, ub)")
mutant("C10-M29", "C10", "R10z", "restart year snapped to the grid by truncating a raw quotient (seeded C10g)", PS, "ParameterSet.set_initialization", "        self.initialization = Initialization.from_result(res, parset=self, year=year)", "        if year is not None:\n            year = res.t[int((year - res.t[0]) / res.dt)]\n        self.initialization = Initialization.from_result(res, parset=self, year=year)")
twin("C10-T4", "C10", "restart year snapped to the grid by rounding", PS, "ParameterSet.set_initialization", "        self.initialization = Initialization.from_result(res, parset=self, year=year)", "        if year is not None:\n            year = res.t[int(round((year - res.t[0]) / res.dt))]\n        self.initialization = Initialization.from_result(res, parset=self, year=year)")
mutant("C12-M33", "C12", "R12y", "explicit interaction outcomes stored after the loop (seeded C12f)", PR, "Covout.__init__", "                self._interactions[combo] = float(val) - self.baseline", "            self._interactions[combo] = float(val) - self.baseline")
mutant("C08-M28", "C08", "R08i", "unlink empties the link lists in place (seeded C08f)", M, "Compartment.unlink", "        self.outlinks = [x.id for x in self.outlinks]", "        self._outlink_ids = [x.id for x in self.outlinks]\n        self.outlinks.clear()")
mutant("C03-M17", "C03", "R03y", "transfer units read once per source population (seeded C03f)", M, "Model.build", "par.units = transfer_parameter.ts[pop_target].units.strip().split()[0].strip().lower()", "par.units = next(iter(transfer_parameter.ts.values())).units.strip().split()[0].strip().lower()")
twin("C03-T8", "C03", "transfer units through a local inside the loop", M, "Model.build", "                        par.units = transfer_parameter.ts[pop_target].units.strip().split()[0].strip().lower()", "                        unit_text = transfer_parameter.ts[pop_target].units\n                        par.units = unit_text.strip().split()[0].strip().lower()")
mutant("C17-M23", "C17", "R17h", "combination outcomes only rebuilt when the number of programs changes (seeded C17f)", PR, "Covout.update_outcomes", "        self._combination_outcomes = np.array(_combination_outcomes)", "        if getattr(self, '_combination_outcomes', None) is None or len(self._combination_outcomes) != len(_combination_outcomes):\n            self._combination_outcomes = np.array(_combination_outcomes)")
twin("C17-T11", "C17", "0/1 combination matrix kept while the number of programs is unchanged", PR, "Covout.update_outcomes", "        self.combinations = np.array([list(int(y) for y in x) for x in combination_strings])", "        if getattr(self, 'combinations', None) is None or self.combinations.shape[1] != self.n_progs:\n            self.combinations = np.array([list(int(y) for y in x) for x in combination_strings])")
mutant("C12-M34", "C12", "R12i", "deltas only recomputed for a new program order", PR, "Covout.update_outcomes", "        self._deltas = np.array([x[1] - self.baseline for x in prog_tuple])", "        if getattr(self, '_deltas', None) is None or len(self._deltas) != len(prog_tuple):\n            self._deltas = np.array([x[1] - self.baseline for x in prog_tuple])")
mutant("C19-M32", "C19", "R19i", "model building strips t and dt from the reported dependency list in place (seeded C19f, consumer half)", M, "Parameter.set_fcn", "            for dep_name in dep_list:", "            for special in ('t', 'dt'):\n                while special in dep_list:\n                    dep_list.remove(special)\n            for dep_name in dep_list:")
mutant("C16-M39", "C16", "R16n", "capacity constraint only re-based when it is being reconciled (seeded C16f)", "atomica/reconciliation.py", "_convert_to_single_year", "if prog.capacity_constraint.has_data:", "if prog.capacity_constraint.has_data and len(reconciliation_year) > 1:")
mutant("C16-M40", "C16", "R16n", "saturation not re-based (defect #26 restored)", "atomica/reconciliation.py", "_convert_to_single_year", "        if prog.saturation.has_data:\n            prog.saturation.vals = prog.saturation.interpolate(reconciliation_year, method=\"previous\")\n            prog.saturation.t = reconciliation_year.copy()\n            prog.saturation.assumption = None\n", "")
mutant("C18-M33", "C18", "R18f", "transition matrix labels only checked for the rows (seeded C18f)", FW, "ProjectFramework._process_transitions", "for comp in set(list(df.index) + list(df.columns)):", "for comp in df.index:")
twin("C18-T7", "C18", "transition matrix labels collected with a union", FW, "ProjectFramework._process_transitions", "for comp in set(list(df.index) + list(df.columns)):", "for comp in sorted(set(df.index).union(df.columns)):")
mutant("C20-M26", "C20", "R20c", "ratio accessor writes a placeholder into its denominator's stored series (seeded C20f)", M, "Characteristic.vals", "                vals[denom > 0] /= denom[denom > 0]", "                denom[denom <= 0] = 1.0\n                vals[denom > 0] /= denom[denom > 0]")
mutant("C16-M41", "C16", "R16p", "capacity constraint row read into the coverage field", PR, "ProgramSet._read_spending", 'set_ts(prog, "capacity_constraint", tdve.ts["Capacity constraint"])', 'set_ts(prog, "coverage", tdve.ts["Capacity constraint"])')
mutant("C16-M42", "C16", "R16p", "saturation row not read back", PR, "ProgramSet._read_spending", '            set_ts(prog, "saturation", tdve.ts["Saturation"])\n', "")
mutant("C16-M43", "C16", "R16p", "set_ts only stores series that came without units", PR, "ProgramSet._read_spending", "                setattr(prog, field_name, ts)", "                    setattr(prog, field_name, ts)")
twin("C16-T10", "C16", "coverage row read before the unit cost row", PR, "ProgramSet._read_spending", '            set_ts(prog, "unit_cost", tdve.ts["Unit cost"])\n            set_ts(prog, "coverage", tdve.ts["Coverage"])\n', '            set_ts(prog, "coverage", tdve.ts["Coverage"])\n            set_ts(prog, "unit_cost", tdve.ts["Unit cost"])\n')
mutant("C16-M44", "C16", "R16q", "impact interaction column recognised under the wrong header", PR, "ProgramSet._read_effects", 'elif idx_to_header[i].lower() == "impact interaction":', 'elif idx_to_header[i].lower() != "impact interaction":')
mutant("C16-M45", "C16", "R16q", "a baseline of 0 is treated as missing", PR, "ProgramSet._read_effects", "                            if x.value is not None:  # test `is not None` because it might be entered as 0\n                                baseline = float(x.value)", "                            if x.value:\n                                baseline = float(x.value)")
mutant("C16-M46", "C16", "R16q", "uncertainty written from the baseline", PR, "ProgramSet._write_effects", "sheet.write(current_row, 4, covout.sigma,", "sheet.write(current_row, 4, covout.baseline,")
twin("C16-T11", "C16", "header lower-cased once into a local", PR, "ProgramSet._read_effects", "                    try:\n                        if idx_to_header.get(i, None) is None:", "                    try:\n                        if idx_to_header.get(i, None) is None:  # blank header")
mutant("C16-M47", "C16", "R16r", "targeted populations written as N", PR, "ProgramSet._write_targeting", "if pop in prog.target_pops:", "if pop not in prog.target_pops:")
mutant("C16-M48", "C16", "R16r", "every non-empty cell counts as a targeted compartment", PR, "ProgramSet._read_targeting", "            for i in range(comp_start_idx, len(headers)):\n                if row[i].value and sc.isstring(row[i].value) and row[i].value.lower().strip() == \"y\":", "            for i in range(comp_start_idx, len(headers)):\n                if row[i].value and sc.isstring(row[i].value):")
mutant("C16-M49", "C16", "R16r", "program built with the population list for both targets", PR, "ProgramSet._read_targeting", "target_pops=target_pops, target_comps=target_comps)", "target_pops=target_pops, target_comps=target_pops)")
# ---- round 9 and the seeded changes themselves

def _seeded():
    """Every stored seeded change is a mutant of every property that is recorded as catching it (meta.json: caught_now_by)."""
    import glob
    import json
    import os

    here = os.path.dirname(os.path.dirname(os.path.dirname(os.path.abspath(__file__))))
    for d in sorted(glob.glob(os.path.join(here, "seeded", "S*"))):
        try:
            meta = json.load(open(os.path.join(d, "meta.json")))
        except (OSError, ValueError):
            continue
        sid = os.path.basename(d).split("-")[0]
        for prop in [x.strip() for x in meta.get("caught_now_by", "").split(",") if x.strip().startswith("C")]:
            mutant("%s@%s" % (sid, prop), prop, None, "seeded change %s (breaks %s)" % (os.path.basename(d)[:60], meta.get("breaks_property")), edits=[dict(patch=os.path.join(d, "patch.diff"))])


_seeded()
EX = "atomica/excel.py"
mutant("C18-M35", "C18", "R18g", "next table placed by the number of target populations (seeded C18h)", EX, "TimeDependentConnections._write_pop_matrix", "next_row = start_row + 1 + len(self.from_pops) + 1", "next_row = start_row + 1 + len(self.to_pops) + 1")
twin("C18-T8", "C18", "next row computed in two steps", EX, "TimeDependentConnections._write_pop_matrix", "        next_row = start_row + 1 + len(self.from_pops) + 1", "        next_row = start_row + len(self.from_pops) + 2")
mutant("C16-M50", "C16", "R16s", "transitions sheet rebuilt from the Parameters sheet (seeded C16h)", FW, "ProjectFramework.to_spreadsheet", "for par, pairs in self.transitions.items():", "for par, pairs in [(p, self.transitions[p]) for p in self.pars.index if p in self.transitions]:")
mutant("C05-M40", "C05", "R05n", "upstream walk takes the target end of the in-edges", FW, "ProjectFramework._assign_junction_duration_groups", 'items = [(x[0], x[2]["par"]) for x in edges]', 'items = [(x[1], x[2]["par"]) for x in edges]')
mutant("C05-M41", "C05", "R05n", "downstream walk uses the in-edges", FW, "ProjectFramework._assign_junction_duration_groups", "edges = G.out_edges(comp_name, data=True)", "edges = G.in_edges(comp_name, data=True)")
mutant("C05-M42", "C05", "R05n", "junction neighbours treated as ordinary compartments", FW, "ProjectFramework._assign_junction_duration_groups", 'elif self.comps.at[comp, "is junction"] == "y":', 'elif self.comps.at[comp, "is junction"] != "y":')
mutant("C05-M43", "C05", "R05n", "groups recorded only when missing", FW, "ProjectFramework._assign_junction_duration_groups", "                            if group is not None:\n                                groups.add(group)", "                            if group is None:\n                                groups.add(group)")
twin("C05-T11", "C05", "direction tested with the downstream branch first", FW, "ProjectFramework._assign_junction_duration_groups", '                    if direction == "upstream":\n                        edges = G.in_edges(comp_name, data=True)\n                        items = [(x[0], x[2]["par"]) for x in edges]\n                    elif direction == "downstream":\n                        edges = G.out_edges(comp_name, data=True)\n                        items = [(x[1], x[2]["par"]) for x in edges]', '                    if direction == "upstream":\n                        edges = G.in_edges(comp_name, data=True)\n                        items = [(e[0], e[2]["par"]) for e in edges]\n                    elif direction == "downstream":\n                        edges = G.out_edges(comp_name, data=True)\n                        items = [(e[1], e[2]["par"]) for e in edges]')
mutant("C20-M27", "C20", "R20l", "nested characteristics not expanded in a cascade stage", FW, "ProjectFramework.get_charac_includes", "                expanded += self.get_charac_includes(components)", "                pass")
mutant("C20-M28", "C20", "R20l", "compartments dropped from the expansion", FW, "ProjectFramework.get_charac_includes", "                expanded.append(str(include))  # Use 'str()' to get `'sus'` in the error message instead of  `u'sus'`", "                pass")
mutant("C20-M29", "C20", "R20l", "characteristic test inverted", FW, "ProjectFramework.get_charac_includes", "if include in self.characs.index:", "if include not in self.characs.index:")
DA = "atomica/data.py"
mutant("C16-M51", "C16", "R16ab", "transfers read from the second table on", DA, "ProjectData._read_transfers", "for i in range(0, len(tables), 3):", "for i in range(1, len(tables), 3):")
mutant("C16-M52", "C16", "R16ab", "interaction built from two tables", DA, "ProjectData._read_interpops", "tables[i : i + 3]", "tables[i : i + 2]")
mutant("C16-M53", "C16", "R16ab", "transfers read as interactions", DA, "ProjectData._read_transfers", 'tables[i : i + 3], "transfer")', 'tables[i : i + 3], "interaction")')
mutant("C16-M54", "C16", "R16ab", "only the first interaction of each name is refused, the others are dropped", DA, "ProjectData._read_interpops", "            self.interpops.append(interaction)", "            if len(self.interpops) == 0:\n                self.interpops.append(interaction)")
# ---- round 10
mutant("C06-M49", "C06", "R06m", "descent into a Parameter dependency skipped when programs may overwrite it (seeded C02i)", M, "Parameter.set_dynamic", "                        dep.set_dynamic(progset=progset)  # Run", "                        if not (progset and dep.name in progset.pars):\n                            dep.set_dynamic(progset=progset)  # Run")
mutant("C06-M50", "C06", "R06o", "timed function parameters no longer flagged for evaluation (seeded C05i)", M, "Population.build", "par.links or par.derivative or framework.pars.at[par.name, \"timed\"] == \"y\" or", "par.links or par.derivative or")
mutant("C04-M40", "C04", "R04b", "initial flush skips junctions without a setup weight (seeded C04i)", M, "Model.flush_junctions", "                j.initial_flush()", "                if self.framework.comps.at[j.name, 'setup weight'] > 0:\n                    j.initial_flush()")
mutant("C07-M33", "C07", "R07j", "characteristics with a default value get weight 0 when the column is missing (seeded C07i)", FW, "ProjectFramework._sanitize_characteristics", '(~self.characs["databook page"].isna() | ~self.characs["default value"].isna()).astype(float)', '(~self.characs["databook page"].isna()).astype(float)')
twin("C07-T8", "C07", "default setup weight with the alternatives the other way round", FW, "ProjectFramework._sanitize_characteristics", '(~self.characs["databook page"].isna() | ~self.characs["default value"].isna()).astype(float)', '(~self.characs["default value"].isna() | ~self.characs["databook page"].isna()).astype(float)')
mutant("C18-M36", "C18", "R18h", "characteristic pages taken from the compartments table (seeded C18i)", FW, "ProjectFramework._validate_characteristics", 'missing_pages = sorted(set(self.characs["databook page"].dropna())', 'missing_pages = sorted(set(self.comps["databook page"].dropna())')
mutant("C20-M30", "C20", "R20m", "link lookup rebuilt from each parameter's own list (seeded C20i)", M, "Population.relink", "        self.link_lookup = {name: [link for link in self.links if link.name == name] for name in link_names}", "        self.link_lookup = dict()\n        for link in self.links:\n            self.link_lookup[link.name] = link.parameter.links if link.parameter is not None else [link]")
mutant("C14-M38", "C14", "R14m", "package rescale applied to every year of the members (seeded C14i)", OP, "SpendingPackageAdjustment.set_total_spend", "            ts.insert(t=self.t, v=ts.get(self.t) * spend_factor)", "            ts.vals = [v * spend_factor for v in ts.vals]")
mutant("C08-M29", "C08", "R08j", "characteristic storage only dropped when the model is pickled (seeded C08i)", M, "Model.process", "        for pop in self.pops:\n            for charac in pop.characs:\n                charac._vals = None\n", "")
mutant("C13-M28", "C13", "R13j", "source-popsize memo not cleared after the initial flush (defect #28 restored)", M, "Model.process", "            for pop in self.pops:\n                for par in pop.pars:\n                    par._source_popsize_cache_time = None  # The flush changed compartment sizes at this time index, so the cached source population sizes are stale\n", "")
