"""
Generic syntactic mutants (comparison / arithmetic swaps, negated conditions, deleted statements, 0 <-> 1, dropped copies,
min <-> max, continue -> pass).  Used by tools/mutation_sweep.py (blind-spot triage) and, in the thorough tier, to report
how many of a seeded random sample of generic mutants of the functions a property's rules looked at are noticed by those
rules.  The sample is evidence of what the rules constrain; it never decides the exit status (a generic mutant may be
equivalent, crash at once, or lie outside the property).
"""
import ast
import os
import random
import shutil
import tempfile

CMP = {ast.Lt: "<=", ast.LtE: "<", ast.Gt: ">=", ast.GtE: ">", ast.Eq: "!=", ast.NotEq: "==", ast.Is: "is not", ast.IsNot: "is", ast.In: "not in", ast.NotIn: "in"}
BIN = {ast.Add: "-", ast.Sub: "+", ast.Mult: "/", ast.Div: "*"}


def qualnames(tree):
    out = []

    def rec(node, prefix):
        for ch in ast.iter_child_nodes(node):
            if isinstance(ch, (ast.FunctionDef, ast.AsyncFunctionDef)):
                out.append((prefix + ch.name, ch))
                rec(ch, prefix + ch.name + ".")
            elif isinstance(ch, ast.ClassDef):
                rec(ch, prefix + ch.name + ".")
            else:
                rec(ch, prefix)

    rec(tree, "")
    return out


def seg(src_lines, node):
    return ast.get_source_segment("".join(src_lines), node)


def in_message(node, parents):
    p = parents.get(node)
    while p is not None and not isinstance(p, (ast.FunctionDef, ast.AsyncFunctionDef)):
        if isinstance(p, (ast.Raise, ast.JoinedStr)):
            return True
        if isinstance(p, ast.Assert) and node is not p.test and not any(node is x for x in ast.walk(p.test)):
            return True
        if isinstance(p, ast.Call) and ast.unparse(p.func).startswith(("logger.", "print", "warnings.")):
            return True
        if isinstance(p, ast.Assign) and any(isinstance(t, ast.Name) and t.id in ("message", "msg") for t in p.targets):
            return True
        p = parents.get(p)
    return False


def mutants_of(src, fn):
    """yield (lineno, kind, (l0, c0, l1, c1), replacement, descr)"""
    parents = {}
    for n in ast.walk(fn):
        for ch in ast.iter_child_nodes(n):
            parents[ch] = n
    full = src
    for n in ast.walk(fn):
        if n is not fn and isinstance(n, (ast.FunctionDef, ast.AsyncFunctionDef, ast.Lambda)):
            continue
        if not hasattr(n, "lineno") or not hasattr(n, "end_col_offset") or in_message(n, parents):
            continue
        pos = (n.lineno, n.col_offset, n.end_lineno, n.end_col_offset)
        text = ast.get_source_segment(full, n)
        if text is None:
            continue
        if isinstance(n, ast.Compare) and len(n.ops) == 1 and type(n.ops[0]) in CMP:
            l, r = ast.get_source_segment(full, n.left), ast.get_source_segment(full, n.comparators[0])
            yield n.lineno, "cmp", pos, "%s %s %s" % (l, CMP[type(n.ops[0])], r), "%s -> %s" % (text, CMP[type(n.ops[0])])
        elif isinstance(n, ast.BinOp) and type(n.op) in BIN:
            if any(isinstance(x, ast.Constant) and isinstance(x.value, str) for x in (n.left, n.right)):
                continue
            l, r = ast.get_source_segment(full, n.left), ast.get_source_segment(full, n.right)
            yield n.lineno, "arith", pos, "(%s %s %s)" % (l, BIN[type(n.op)], r), "%s -> %s" % (text[:60], BIN[type(n.op)])
        elif isinstance(n, (ast.If, ast.While)) or isinstance(n, ast.IfExp):
            t = n.test
            tp = (t.lineno, t.col_offset, t.end_lineno, t.end_col_offset)
            tt = ast.get_source_segment(full, t)
            yield t.lineno, "negate", tp, "(not (%s))" % tt, "if %s -> negated" % tt[:60]
        elif isinstance(n, (ast.Assign, ast.AugAssign)) or (isinstance(n, ast.Expr) and isinstance(n.value, ast.Call)):
            if isinstance(n, ast.Expr) and ast.unparse(n.value.func).startswith(("logger.", "print", "super")):
                continue
            if "\n" in text:
                continue
            yield n.lineno, "delete", pos, "pass", "delete `%s`" % text[:70]
            if isinstance(n, ast.AugAssign) and isinstance(n.op, (ast.Add, ast.Sub)):
                tg, v = ast.get_source_segment(full, n.target), ast.get_source_segment(full, n.value)
                yield n.lineno, "aug", pos, "%s %s= %s" % (tg, "-" if isinstance(n.op, ast.Add) else "+", v), "`%s` sign flipped" % text[:60]
        elif isinstance(n, ast.Constant) and type(n.value) in (int, float) and n.value in (0, 1) and not isinstance(parents.get(n), (ast.keyword,)):
            yield n.lineno, "const", pos, "1" if n.value == 0 else "0", "const %r -> %s in `%s`" % (n.value, "1" if n.value == 0 else "0", (ast.get_source_segment(full, parents.get(n)) or "")[:50])
        elif isinstance(n, ast.Call) and isinstance(n.func, ast.Attribute) and n.func.attr == "copy" and not n.args:
            yield n.lineno, "copy", pos, ast.get_source_segment(full, n.func.value), "drop .copy() in `%s`" % text[:60]
        elif isinstance(n, ast.Call) and ast.unparse(n.func) in ("sc.dcp", "copy.deepcopy", "dcp", "np.copy") and len(n.args) == 1:
            yield n.lineno, "copy", pos, ast.get_source_segment(full, n.args[0]), "drop deep copy in `%s`" % text[:60]
        elif isinstance(n, ast.Call) and isinstance(n.func, ast.Name) and n.func.id in ("min", "max"):
            yield n.lineno, "minmax", (n.func.lineno, n.func.col_offset, n.func.end_lineno, n.func.end_col_offset), "max" if n.func.id == "min" else "min", "%s -> swapped" % text[:60]
        elif isinstance(n, (ast.Continue, ast.Break)):
            yield n.lineno, "flow", pos, "pass", "`%s` -> pass" % text
        elif isinstance(n, ast.Return) and n.value is None:
            yield n.lineno, "flow", pos, "pass", "bare return -> pass"


def apply(src, pos, repl):
    lines = src.splitlines(keepends=True)
    l0, c0, l1, c1 = pos
    # col offsets are utf8 byte offsets; the sources are ASCII in the functions we touch, fall back to bytes otherwise
    first, last = lines[l0 - 1], lines[l1 - 1]
    fb, lb = first.encode(), last.encode()
    new = fb[:c0].decode() + repl + lb[c1:].decode()
    return "".join(lines[: l0 - 1]) + new + "".join(lines[l1:])




def sample_for_property(prop, sites, seed=0, n=48, jobs=16, src_root="/repo"):
    """sites: iterable of (relpath, qualname).  -> dict(n, caught, analysis_error, survived, survivors=[...])"""
    import concurrent.futures as cf

    work = []
    bysrc = {}
    for rel, qn in sorted(set(sites)):
        path = os.path.join(src_root, rel)
        if not os.path.exists(path):
            continue
        if rel not in bysrc:
            s = open(path).read()
            bysrc[rel] = (s, dict(qualnames(ast.parse(s))))
        s, qs = bysrc[rel]
        fn = qs.get(qn)
        if fn is None:
            continue
        for m in mutants_of(s, fn):
            work.append((rel, qn) + m)
    rnd = random.Random("%s-%s" % (prop, seed))
    rnd.shuffle(work)
    work = work[:n]
    out = {"n": len(work), "caught": 0, "analysis_error": 0, "survived": 0, "no_compile": 0, "survivors": [], "functions": len(set(sites))}
    if not work:
        return out
    with cf.ProcessPoolExecutor(max_workers=min(jobs, len(work))) as ex:
        for r in ex.map(_run_generic, [(prop, src_root) + w for w in work]):
            out[r[0]] += 1
            if r[0] == "survived" and len(out["survivors"]) < 60:
                out["survivors"].append(r[1])
    return out


def _run_generic(job):
    from . import runner

    prop, src_root, rel, qn, lineno, kind, pos, repl, descr = job
    d = runner.make_scratch(src_root)
    try:
        p = os.path.join(d, rel)
        new = apply(open(p).read(), pos, repl)
        try:
            ast.parse(new)
        except SyntaxError:
            return ("no_compile", "")
        open(p, "w").write(new)
        try:
            rc, findings = runner.analyse(prop, d)
        except Exception:
            return ("analysis_error", "")
        if rc == 1:
            return ("caught", "")
        if rc == 2:
            return ("analysis_error", "")
        return ("survived", "%s:%d %s [%s] %s" % (rel, lineno, qn, kind, descr))
    finally:
        shutil.rmtree(d, ignore_errors=True)


def twin_sample_for_property(prop, sites, seed=0, n=32, jobs=16, src_root="/repo"):
    """Behaviour-preserving rewrites (generic_twins.py) and single local renames of the functions the property's obligations
    mention; every one of them must leave the property's rules silent.  -> dict(n, silent, alarms=[...])"""
    import concurrent.futures as cf
    import json

    from .generic_twins import twins_of

    work = []
    bysrc = {}
    here = os.path.dirname(os.path.dirname(os.path.abspath(__file__)))
    try:
        locs = json.load(open(os.path.join(here, "rules", "tables", "locals.json")))
    except FileNotFoundError:
        locs = {}
    for rel, qn in sorted(set(sites)):
        path = os.path.join(src_root, rel)
        if not os.path.exists(path):
            continue
        if rel not in bysrc:
            s = open(path).read()
            bysrc[rel] = (s, dict(qualnames(ast.parse(s))))
        s, qs = bysrc[rel]
        fn = qs.get(qn)
        if fn is None:
            continue
        for m in twins_of(s, fn):
            if m[1] != "comment":
                work.append(("rewrite", rel, qn) + m)
        argnames = {a.arg for x in ast.walk(fn) for a in ([] if not isinstance(x, (ast.FunctionDef, ast.AsyncFunctionDef, ast.Lambda)) else x.args.args + x.args.kwonlyargs)}
        for name in sorted(locs.get(os.path.basename(rel)[:-3], {}).get(qn, {})):
            # a name that is also a parameter of the function or of a nested function is not renamed: the token-level rename would leave `name=default` in the signature
            if name != fn.name and name not in argnames:
                work.append(("rename", rel, qn, fn.lineno, "rename", None, name, "local `%s` renamed" % name))
    rnd = random.Random("twins-%s-%s" % (prop, seed))
    rnd.shuffle(work)
    work = work[:n]
    out = {"n": len(work), "silent": 0, "alarm": 0, "no_compile": 0, "alarms": []}
    if not work:
        return out
    with cf.ProcessPoolExecutor(max_workers=min(jobs, len(work))) as ex:
        for r in ex.map(_run_twin, [(prop, src_root) + w for w in work]):
            out[r[0]] += 1
            if r[0] == "alarm":
                out["alarms"].append(r[1])
    return out


def _run_twin(job):
    from . import runner

    prop, src_root, mode, rel, qn, lineno, kind, pos, repl, descr = job
    d = runner.make_scratch(src_root)
    try:
        p = os.path.join(d, rel)
        src = open(p).read()
        if mode == "rename":
            span = runner._func_span(src, qn)
            if span is None:
                return ("no_compile", "")
            lines = src.split("\n")
            seg, cnt = runner.rename_local_tokens("\n".join(lines[span[0] - 1 : span[1]]), repl, repl + "_rn")
            new = "\n".join(lines[: span[0] - 1]) + ("\n" if span[0] > 1 else "") + seg + "\n" + "\n".join(lines[span[1] :])
        else:
            new = apply(src, pos, repl)
        try:
            ast.parse(new)
        except SyntaxError:
            return ("no_compile", "")
        open(p, "w").write(new)
        try:
            rc, findings = runner.analyse(prop, d)
        except Exception as e:
            return ("alarm", "%s %s [%s] %s -> checker crashed: %r" % (rel, qn, kind, descr, e))
        if rc == 0:
            return ("silent", "")
        return ("alarm", "%s:%d %s [%s] %s -> rc=%d %s" % (rel, lineno, qn, kind, descr, rc, [(f["rule"], f["message"][:80]) for f in findings][:2]))
    finally:
        shutil.rmtree(d, ignore_errors=True)
