"""
Generic behaviour-preserving rewrites ("twins") of single statements, for tools/twin_sweep.py (false-alarm triage).

Each generator re-parses the source text of one statement, rewrites it and returns the unparsed text:

  commute     a * b            ->  b * a            (first product of the statement)
  flipcmp     a < b            ->  b > a            (first single comparison; == and != too)
  ifswap      if c: A else: B  ->  if not (c): B else: A     (no elif)
  rettmp      return E         ->  _ret_value = E; return _ret_value
  elifnest    if..elif..       ->  if..else: pass; if..       (the elif nested explicitly)
  notin       not (a in b) <-> a not in b ;  not a == b <-> a != b
  chain       a <= b <= c      ->  a <= b and b <= c          (b a plain name / attribute)
  comment     a comment line inserted in front of the statement (line shift only)
  swapadj     two adjacent, call-free assignments to plain names that do not read or write each other's names, swapped

None of them changes what the function computes (operands of the repo's arithmetic have no side effects; the
product/compare operands are numbers or arrays).
"""
import ast
import textwrap

FLIP = {ast.Lt: ast.Gt, ast.Gt: ast.Lt, ast.LtE: ast.GtE, ast.GtE: ast.LtE, ast.Eq: ast.Eq, ast.NotEq: ast.NotEq}


def _has_str(n):
    return any(isinstance(x, (ast.JoinedStr, ast.List, ast.Tuple)) or (isinstance(x, ast.Constant) and isinstance(x.value, (str, bytes))) for x in ast.walk(n))


def _first(tree, pred):
    for n in ast.walk(tree):
        if pred(n):
            return n
    return None


def t_commute(st):
    n = _first(st, lambda n: isinstance(n, ast.BinOp) and isinstance(n.op, ast.Mult) and not _has_str(n.left) and not _has_str(n.right))
    if n is None:
        return None
    n.left, n.right = n.right, n.left
    return [st]


def t_flipcmp(st):
    n = _first(st, lambda n: isinstance(n, ast.Compare) and len(n.ops) == 1 and type(n.ops[0]) in FLIP)
    if n is None:
        return None
    l, r = n.left, n.comparators[0]
    n.left, n.comparators, n.ops = r, [l], [FLIP[type(n.ops[0])]()]
    return [st]


def t_ifswap(st):
    if not isinstance(st, ast.If) or not st.orelse or (len(st.orelse) == 1 and isinstance(st.orelse[0], ast.If)):
        return None
    st.test = ast.UnaryOp(op=ast.Not(), operand=st.test)
    st.body, st.orelse = st.orelse, st.body
    return [st]


def t_rettmp(st):
    if not isinstance(st, ast.Return) or st.value is None or isinstance(st.value, (ast.Constant, ast.Name)):
        return None
    a = ast.Assign(targets=[ast.Name(id="_ret_value", ctx=ast.Store())], value=st.value, lineno=0)
    return [a, ast.Return(value=ast.Name(id="_ret_value", ctx=ast.Load()))]


def t_elifnest(st):
    if not isinstance(st, ast.If) or not (len(st.orelse) == 1 and isinstance(st.orelse[0], ast.If)):
        return None
    st.orelse = [ast.Pass(), st.orelse[0]]
    return [st]


def t_notin(st):
    def pred(n):
        return isinstance(n, ast.UnaryOp) and isinstance(n.op, ast.Not) and isinstance(n.operand, ast.Compare) and len(n.operand.ops) == 1 and isinstance(n.operand.ops[0], (ast.In, ast.Eq, ast.Is))

    n = _first(st, pred)
    if n is not None:
        c = n.operand
        new = {ast.In: ast.NotIn, ast.Eq: ast.NotEq, ast.Is: ast.IsNot}[type(c.ops[0])]()
        rep = ast.Compare(left=c.left, ops=[new], comparators=c.comparators)
        for p in ast.walk(st):
            for f, v in ast.iter_fields(p):
                if v is n:
                    setattr(p, f, rep)
                elif isinstance(v, list) and any(x is n for x in v):
                    setattr(p, f, [rep if x is n else x for x in v])
        if st is n:
            return None
        return [st]
    n = _first(st, lambda n: isinstance(n, ast.Compare) and len(n.ops) == 1 and isinstance(n.ops[0], (ast.NotIn, ast.NotEq, ast.IsNot)))
    if n is None:
        return None
    pos = {ast.NotIn: ast.In, ast.NotEq: ast.Eq, ast.IsNot: ast.Is}[type(n.ops[0])]()
    inner = ast.Compare(left=n.left, ops=[pos], comparators=n.comparators)
    rep = ast.UnaryOp(op=ast.Not(), operand=inner)
    for p in ast.walk(st):
        for f, v in ast.iter_fields(p):
            if v is n:
                setattr(p, f, rep)
                return [st]
            elif isinstance(v, list) and any(x is n for x in v):
                setattr(p, f, [rep if x is n else x for x in v])
                return [st]
    return None


def t_chain(st):
    n = _first(st, lambda n: isinstance(n, ast.Compare) and len(n.ops) == 2 and isinstance(n.comparators[0], (ast.Name, ast.Attribute)))
    if n is None:
        return None
    a = ast.Compare(left=n.left, ops=[n.ops[0]], comparators=[n.comparators[0]])
    b = ast.Compare(left=n.comparators[0], ops=[n.ops[1]], comparators=[n.comparators[1]])
    rep = ast.BoolOp(op=ast.And(), values=[a, b])
    for p in ast.walk(st):
        for f, v in ast.iter_fields(p):
            if v is n:
                setattr(p, f, rep)
                return [st]
            elif isinstance(v, list) and any(x is n for x in v):
                setattr(p, f, [rep if x is n else x for x in v])
                return [st]
    return None


TRANSFORMS = [("commute", t_commute), ("flipcmp", t_flipcmp), ("ifswap", t_ifswap), ("rettmp", t_rettmp), ("elifnest", t_elifnest), ("notin", t_notin), ("chain", t_chain)]


def statements(fn):
    """statements of fn (not of nested defs), outermost first"""
    out = []

    def rec(body):
        for s in body:
            out.append(s)
            if isinstance(s, (ast.FunctionDef, ast.AsyncFunctionDef, ast.ClassDef)):
                continue
            for f in ("body", "orelse", "finalbody"):
                rec(getattr(s, f, []) or [])
            for h in getattr(s, "handlers", []) or []:
                rec(h.body)

    rec(fn.body)
    return out


def twins_of(src, fn):
    """yield (lineno, kind, (l0, c0, l1, c1), replacement text, descr)"""
    lines = src.split("\n")
    for s in statements(fn):
        if isinstance(s, (ast.FunctionDef, ast.AsyncFunctionDef, ast.ClassDef)):
            continue
        if isinstance(s, ast.Expr) and isinstance(s.value, ast.Constant):
            continue  # docstring
        text = "\n".join(lines[s.lineno - 1 : s.end_lineno])
        first = lines[s.lineno - 1]
        if first[: s.col_offset].strip():
            continue  # statement does not start its line (a; b)
        if lines[s.end_lineno - 1][s.end_col_offset :].strip() and not lines[s.end_lineno - 1][s.end_col_offset :].strip().startswith("#"):
            continue
        indent = " " * s.col_offset
        pos = (s.lineno, 0, s.end_lineno, len(lines[s.end_lineno - 1]))
        ded = textwrap.dedent(text)
        for kind, fn_t in TRANSFORMS:
            try:
                st = ast.parse(ded).body[0]
            except SyntaxError:
                break
            # ifswap / elifnest act on the statement itself; the expression rewrites only on simple statements and headers
            if kind in ("commute", "flipcmp", "notin", "chain") and isinstance(st, (ast.For, ast.While, ast.With, ast.Try)):
                continue
            if kind in ("commute", "flipcmp", "notin", "chain") and isinstance(st, ast.If):
                # only the test
                holder = ast.Expr(value=st.test)
                r = fn_t(holder)
                if r is None:
                    continue
                st.test = holder.value
                new = [st]
            else:
                new = fn_t(st)
            if not new:
                continue
            for x in new:
                ast.fix_missing_locations(x)
            out = "\n".join(ast.unparse(x) for x in new)
            out = "\n".join(indent + l if l.strip() else l for l in out.split("\n"))
            if out.strip() == text.strip():
                continue
            yield s.lineno, kind, pos, out, "%s: %s" % (kind, first.strip()[:70])
        yield s.lineno, "comment", pos, indent + "# reviewed\n" + text, "comment before: %s" % first.strip()[:60]
    for m in swaps_of(src, fn):
        yield m


def _names(e, ctx=None):
    return {n.id for n in ast.walk(e) if isinstance(n, ast.Name) and (ctx is None or isinstance(n.ctx, ctx))}


def _simple_assign(s):
    return isinstance(s, ast.Assign) and all(isinstance(t, ast.Name) for t in s.targets) and not any(isinstance(x, (ast.Call, ast.Await, ast.Yield, ast.NamedExpr)) for x in ast.walk(s.value))


def swaps_of(src, fn):
    lines = src.split("\n")
    blocks = []
    for n in ast.walk(fn):
        if n is not fn and isinstance(n, (ast.FunctionDef, ast.AsyncFunctionDef, ast.ClassDef, ast.Lambda)):
            continue
        for f in ("body", "orelse", "finalbody"):
            b = getattr(n, f, None)
            if isinstance(b, list) and b and isinstance(b[0], ast.stmt):
                blocks.append(b)
    for b in blocks:
        for s1, s2 in zip(b, b[1:]):
            if not (_simple_assign(s1) and _simple_assign(s2)):
                continue
            w1, w2 = _names(s1, ast.Store), _names(s2, ast.Store)
            if w1 & _names(s2) or w2 & _names(s1):
                continue
            if s1.end_lineno >= s2.lineno or lines[s1.lineno - 1][: s1.col_offset].strip():
                continue
            t1 = "\n".join(lines[s1.lineno - 1 : s1.end_lineno])
            t2 = "\n".join(lines[s2.lineno - 1 : s2.end_lineno])
            between = "\n".join(lines[s1.end_lineno : s2.lineno - 1])
            pos = (s1.lineno, 0, s2.end_lineno, len(lines[s2.end_lineno - 1]))
            yield s1.lineno, "swapadj", pos, t2 + "\n" + (between + "\n" if between.strip() else "") + t1, "swapadj: %s <-> %s" % (t1.strip()[:40], t2.strip()[:40])
