"""Facts about atomica/model.py shared by several property modules (filled from the repository on every run)."""
import ast

from ..core.loader import AnalysisError, own_nodes, norm, enclosing_stmt
from ..core.cfg import CFG
from ..core.dataflow import ReachingDefs, assigned_value
from ..core.types import Types
from ..core import astq

_TYPES = {}
_CFG = {}
_RD = {}


def types(repo) -> Types:
    k = id(repo)
    if k not in _TYPES:
        _TYPES.clear()
        _TYPES[k] = Types(repo)
    return _TYPES[k]


def cfg(repo, fi, raise_model="explicit") -> CFG:
    k = (id(repo), fi.fq, raise_model)
    if k not in _CFG:
        _CFG[k] = CFG(fi.node, repo=repo, module=fi.module, raise_model=raise_model)
    return _CFG[k]


def rdefs(repo, fi) -> ReachingDefs:
    k = (id(repo), fi.fq)
    if k not in _RD:
        _RD[k] = ReachingDefs(cfg(repo, fi), params=fi.params)
    return _RD[k]


def comp_family(repo):
    """Compartment and all its subclasses."""
    return repo.subclasses(repo.cls("model", "Compartment"))


def link_family(repo):
    return repo.subclasses(repo.cls("model", "Link"))


def family_methods(repo, name, base="Compartment"):
    """(class, FuncInfo) for every class of the family that defines ``name`` itself."""
    out = []
    for ci in repo.subclasses(repo.cls("model", base)):
        if name in ci.methods:
            out.append((ci, ci.methods[name]))
    if not out:
        raise AnalysisError("no class in the %s family defines %s()" % (base, name))
    return out


def is_noop(fi):
    """Body is only a docstring / pass / bare return."""
    for s in fi.node.body:
        if isinstance(s, ast.Pass):
            continue
        if isinstance(s, ast.Expr) and isinstance(s.value, ast.Constant) and isinstance(s.value.value, str):
            continue
        if isinstance(s, ast.Return) and s.value is None:
            continue
        return False
    return True


def time_param(fi):
    """Name of the time-index parameter of a per-step method (second positional parameter)."""
    ps = fi.params
    if len(ps) < 2:
        raise AnalysisError("%s has no time-index parameter" % fi.fq)
    return ps[1]


def resolves_to_prev_index(repo, fi, expr, at_stmt, tname):
    """Is ``expr`` the previous time index: literally ``<t> - 1`` or a name whose only reaching definition is ``<t> - 1``?"""
    if _is_t_minus_1(expr, tname):
        return True
    if isinstance(expr, ast.Name):
        rd = rdefs(repo, fi)
        ds = rd.reaching_at_stmt(at_stmt, expr.id)
        if not ds or None in ds:
            return False
        for d in ds:
            st = rd.def_stmt(d)
            v = assigned_value(st, expr.id) if st is not None else None
            if v is None or not _is_t_minus_1(v, tname):
                return False
        return True
    return False


def _is_t_minus_1(e, tname):
    return isinstance(e, ast.BinOp) and isinstance(e.op, ast.Sub) and astq.is_name(e.left, tname) and astq.is_const(e.right, 1)


def time_index_of(sub):
    """For X[ti] return ti; for X[:, ti] / X[r, ti] return the last index (time is the last axis of every model array)."""
    s = sub.slice
    if isinstance(s, ast.Tuple):
        return s.elts[-1]
    return s


def row_index_of(sub):
    s = sub.slice
    if isinstance(s, ast.Tuple) and len(s.elts) == 2:
        return s.elts[0]
    return None


def iter_base(it):
    """The collection a for-loop ranges over, looking through enumerate/zip/list/reversed: returns list of candidate expressions."""
    if isinstance(it, ast.Call):
        fn = ast.unparse(it.func)
        if fn in ("enumerate", "list", "reversed", "sorted", "tuple") and it.args:
            return iter_base(it.args[0])
        if fn == "zip":
            out = []
            for a in it.args:
                out += iter_base(a)
            return out
    return [it]


def loop_var_for(loop, coll_txt):
    """Name of the loop variable bound to elements of the collection whose text is coll_txt (handles enumerate / zip)."""
    it, tgt = loop.iter, loop.target

    def rec(it, tgt):
        if isinstance(it, ast.Call):
            fn = ast.unparse(it.func)
            if fn == "enumerate" and isinstance(tgt, ast.Tuple) and len(tgt.elts) == 2:
                return rec(it.args[0], tgt.elts[1])
            if fn == "zip" and isinstance(tgt, ast.Tuple) and len(tgt.elts) == len(it.args):
                for a, t in zip(it.args, tgt.elts):
                    r = rec(a, t)
                    if r:
                        return r
                return None
            if fn in ("list", "reversed", "sorted", "tuple") and it.args:
                return rec(it.args[0], tgt)
        if ast.unparse(it) == coll_txt and isinstance(tgt, ast.Name):
            return tgt.id
        return None

    return rec(it, tgt)


def enclosing_loops(node):
    from ..core.loader import ancestors

    return [a for a in ancestors(node) if isinstance(a, (ast.For, ast.While))]


def self_name(fi):
    return fi.params[0] if fi.params else "self"


VIEW_METHODS = {"reshape", "ravel", "view", "squeeze", "transpose", "swapaxes"}
VIEW_FUNCS = {"np.asarray", "np.asanyarray", "np.transpose", "np.atleast_1d", "np.atleast_2d", "np.squeeze", "np.ravel"}


def _rooted_at(e, root):
    while isinstance(e, (ast.Attribute, ast.Subscript)):
        e = e.value
    return isinstance(e, ast.Name) and e.id == root


def is_view_of(e, root):
    """True if ``e`` denotes a numpy view (not a copy, not a scalar) of storage reachable from the name ``root``."""
    if isinstance(e, ast.Subscript) and _rooted_at(e.value, root) and isinstance(e.value, (ast.Attribute, ast.Subscript)):
        idx = e.slice.elts if isinstance(e.slice, ast.Tuple) else [e.slice]
        return any(isinstance(i, ast.Slice) for i in idx)
    if isinstance(e, ast.Attribute) and e.attr == "T":
        return is_view_of(e.value, root)
    if isinstance(e, ast.Call) and isinstance(e.func, ast.Attribute) and e.func.attr in VIEW_METHODS:
        return is_view_of(e.func.value, root)
    if isinstance(e, ast.Call) and ast.unparse(e.func) in VIEW_FUNCS and e.args:
        return is_view_of(e.args[0], root)
    return False


def _view_preserving_name(e):
    """Name n if ``e`` is n, n.T, n.reshape(..) ... (a view of whatever n is)."""
    if isinstance(e, ast.Name):
        return e.id
    if isinstance(e, ast.Attribute) and e.attr == "T":
        return _view_preserving_name(e.value)
    if isinstance(e, ast.Call) and isinstance(e.func, ast.Attribute) and e.func.attr in VIEW_METHODS:
        return _view_preserving_name(e.func.value)
    if isinstance(e, ast.Call) and ast.unparse(e.func) in VIEW_FUNCS and e.args:
        return _view_preserving_name(e.args[0])
    if isinstance(e, ast.Subscript):
        idx = e.slice.elts if isinstance(e.slice, ast.Tuple) else [e.slice]
        if any(isinstance(i, ast.Slice) for i in idx):
            return _view_preserving_name(e.value)
    return None


def self_view_inplace(repo, fi, root=None, skip_attrs=()):
    """
    (n_view_bindings, hits): locals bound (on some path) to a view of storage rooted at ``root`` (default: the
    method's self) that are then modified in place (augmented assignment, element store, out=).  Flow-sensitive:
    a hit needs a view binding among the reaching definitions of the name at the modifying statement.
    """
    root = root or (fi.params[0] if fi.params else None)
    if root is None:
        return 0, []
    binds = [s for s in own_nodes(fi.node) if isinstance(s, ast.Assign) and len(s.targets) == 1 and isinstance(s.targets[0], ast.Name)]
    direct = [s for s in binds if is_view_of(s.value, root) and not any(a in ast.unparse(s.value) for a in skip_attrs)]
    if not direct:
        return 0, []
    rd = rdefs(repo, fi)
    view_defs = {id(s): s for s in direct}
    changed = True
    while changed:
        changed = False
        for s in binds:
            if id(s) in view_defs:
                continue
            src = _view_preserving_name(s.value)
            if src is None:
                continue
            ds = rd.reaching_at_stmt(s, src)
            if any(rd.def_stmt(d) is not None and id(rd.def_stmt(d)) in view_defs for d in ds):
                view_defs[id(s)] = s
                changed = True
    hits = []
    for a in own_nodes(fi.node):
        name = None
        if isinstance(a, ast.AugAssign) and isinstance(a.target, ast.Name):
            name = a.target.id
        elif isinstance(a, (ast.Assign, ast.AugAssign)):
            for t_ in a.targets if isinstance(a, ast.Assign) else [a.target]:
                if isinstance(t_, ast.Subscript) and isinstance(astq.strip_subs(t_), ast.Name):
                    name = astq.strip_subs(t_).id
        elif isinstance(a, ast.Call):
            for k in a.keywords:
                if k.arg == "out" and isinstance(k.value, ast.Name):
                    name = k.value.id
        if name is None:
            continue
        st = a if isinstance(a, ast.stmt) else enclosing_stmt(a)
        for d in rd.reaching_at_stmt(st, name):
            ds = rd.def_stmt(d)
            if ds is not None and id(ds) in view_defs:
                hits.append((st, name, view_defs[id(ds)]))
                break
    return len(view_defs), hits
