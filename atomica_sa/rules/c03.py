"""C03 - unit conversion on an exact dt grid (DESIGN 4, C03)."""
import ast

from ..core.loader import AnalysisError, own_nodes, norm, enclosing_stmt
from ..core import astq
from ..core import dims as D
from ..core.cfg import guards_of
from . import common as K
from . import discretise

EXPLANATION = (
    "R03a: dimensional consistency of every unit branch of Model.update_links (per-step fraction is dimensionless, N on the source-compartment branch), of "
    "Link.update / TimedLink.update / resolve_outflows (flows are people), with the branch set exhaustive over {rate, probability, number, duration} and "
    "proportion excluded by the same constant the framework validator uses.  R03b: no int()/ceil/floor applied directly to a raw float quotient by the step "
    "size on the time-grid path (ProjectSettings.tvec, sim_end setter and their helpers).  R03c: the per-link fraction is the bare unit conversion - no clamp, min/max or rounding is applied to an individual fraction before the fractions of a compartment are summed and rescaled together (clipping one fraction first changes the split between competing outflows). Equality of trajectories with a reference implementation and "
    "numeric constants are not decided."
)

UNIT_DIMS = {
    # value of the parameter in each unit branch (Parameters.rst, Timescales): P = the parameter's own period
    "QUANTITY_TYPE_RATE": D.ONE / D.P,
    "QUANTITY_TYPE_PROBABILITY": D.ONE / D.P,
    "QUANTITY_TYPE_NUMBER": D.N / D.P,
    "QUANTITY_TYPE_DURATION": D.P,
}
REQUIRED_BRANCHES = set(UNIT_DIMS)


def run(ctx):
    repo = ctx.repo
    ctx.each(r03a, ctx, repo)
    ctx.each(r03b, ctx, repo)
    ctx.each(r03c, ctx, repo)
    ctx.each(r03d, ctx, repo)
    from . import c15 as _c15

    from .c02 import r02d

    ctx.each(r02d, ctx, repo, K.types(repo))  # the documented rules are linear in the population size: the clamp in Compartment.update may only replace negative values, not small positive ones
    ctx.each(_c15.r15a, ctx, repo)  # a run ends at the requested end year: functions that shorten sim_end temporarily restore it on every path
    ctx.each(r03f, ctx, repo)
    ctx.each(discretise.snap_tolerance_rule, ctx, repo, "R03e", [("project", "_n_steps")])


def unit_consts_in_test(test, pv):
    """Set of FS.QUANTITY_TYPE_* constants a test compares `<pv>.units` with (== / in / or-combinations); None if not a unit test."""
    out = set()

    def rec(t):
        if isinstance(t, ast.BoolOp) and isinstance(t.op, ast.Or):
            return all(rec(v) for v in t.values)
        if isinstance(t, ast.Compare) and len(t.ops) == 1 and ast.unparse(t.left) == "%s.units" % pv:
            c = t.comparators[0]
            if isinstance(t.ops[0], ast.Eq) and isinstance(c, ast.Attribute) and c.attr.startswith("QUANTITY_TYPE_"):
                out.add(c.attr)
                return True
            if isinstance(t.ops[0], ast.In) and isinstance(c, (ast.Set, ast.List, ast.Tuple)) and all(isinstance(x, ast.Attribute) and x.attr.startswith("QUANTITY_TYPE_") for x in c.elts):
                out.update(x.attr for x in c.elts)
                return True
        return False

    return out if rec(test) and out else None


def r03a(ctx, repo):
    ctx.rule("R03a", "dimension algebra: link._cache is dimensionless in the rate/probability, number and duration branches (N on the source branch); link values are N; unit branches are exhaustive and the fall-through raises")
    from .c02 import _transition_var

    ul = repo.func("model", "Model.update_links")
    me = K.self_name(ul)
    loop, pv, x, xdef = _transition_var(ul)
    base_env = {"%s.dt" % me: D.Y, "%s.timescale" % pv: D.Y / D.P}
    seen_branches = set()
    n_cache = [0]

    def refine(test, env):
        consts = unit_consts_in_test(test, pv)
        et, ef = dict(env), dict(env)
        if consts:
            seen_branches.update(consts)
            ds = {UNIT_DIMS[c] for c in consts if c in UNIT_DIMS}
            if len(ds) == 1 and all(c in UNIT_DIMS for c in consts):
                et[x] = next(iter(ds))
            else:
                et.pop(x, None)
            et["__branch__"] = tuple(sorted(consts))
        if ast.unparse(test).startswith("isinstance(") and "SourceCompartment" in ast.unparse(test):
            et["__source__"] = True
        return et, ef

    def call_hook(call, ev):
        fn = ast.unparse(call.func)
        if fn == "%s.source_popsize" % pv:
            return D.N
        return None

    def on_store(t, d, s, env):
        if not (isinstance(t, ast.Attribute) and t.attr == "_cache"):
            return
        if "__branch__" not in env:
            # the zero short-circuit: literal 0
            if isinstance(d, D.Poly):
                ctx.ok("R03a", ul, "zero fraction for a zero parameter value", s)
                return
            return
        n_cache[0] += 1
        want = D.N if env.get("__source__") else D.ONE
        if isinstance(d, D.Unknown):
            raise AnalysisError("R03a: cannot compute the dimension of `%s` in update_links: %s" % (norm(s), d.msg))
        if isinstance(d, D.DimError):
            return  # already reported by on_error
        good = isinstance(d, D.Poly) or d == want
        ctx.check(good, "R03a", ul, s, "branch %s: %s has dimension %r" % ("/".join(b.replace("QUANTITY_TYPE_", "").lower() for b in env["__branch__"]), ast.unparse(t), want), "unit conversion for %s parameters is dimensionally wrong: `%s` has dimension %r, expected %r (a dt, timescale or popsize factor is missing, duplicated or inverted)" % ("/".join(b.replace("QUANTITY_TYPE_", "").lower() for b in env["__branch__"]), norm(s), d, want))

    def on_error(s, ex):
        ctx.fail("R03a", ul, s, "dimensionally inconsistent arithmetic: %s" % ex.msg)

    w = D.DimWalker(refine=refine, on_store=on_store, on_error=on_error, call_hook=call_hook)
    w.run(loop.body, dict(base_env))
    # exhaustiveness and fall-through
    chain = [s for s in loop.body if isinstance(s, ast.If) and unit_consts_in_test(s.test, pv)]
    ctx.require(len(chain) == 1, "R03a: expected one if/elif chain over par.units in update_links, found %d" % len(chain))
    node = chain[0]
    last_else = None
    while True:
        if len(node.orelse) == 1 and isinstance(node.orelse[0], ast.If) and unit_consts_in_test(node.orelse[0].test, pv):
            node = node.orelse[0]
        else:
            last_else = node.orelse
            break
    missing = REQUIRED_BRANCHES - seen_branches
    if missing:
        ctx.fail("R03a", ul, chain[0], "unit branches %s are not handled in update_links: such parameters produce no (or an undefined) flow" % sorted(missing), stmt_text="branches:" + ",".join(sorted(missing)))
    else:
        ctx.ok("R03a", ul, "unit branches cover rate, probability, number, duration", chain[0])
        ctx.require(n_cache[0] >= 4, "R03a: fewer _cache stores (%d) analysed in update_links than confirmed (4)" % n_cache[0])
    from ..core.cfg import terminates

    ctx.check(bool(last_else) and terminates(last_else) and isinstance(last_else[-1], ast.Raise), "R03a", ul, chain[0], "unknown units raise", "the fall-through of the unit chain does not raise: an unknown unit is silently ignored")
    # proportion excluded where the exec order is built, by the same constant the framework validator forces on junction outflows
    so = repo.func("model", "Model._set_exec_order")
    excl = [c for c in own_nodes(so.node) if isinstance(c, ast.Compare) and ast.unparse(c.left).endswith(".units") and isinstance(c.ops[0], ast.NotEq) and ast.unparse(c.comparators[0]).endswith("QUANTITY_TYPE_PROPORTION")]
    fw = repo.func("framework", "ProjectFramework._validate_parameters") if repo.has_func("framework", "ProjectFramework._validate_parameters") else None
    fw_uses = fw is not None and any(isinstance(a, ast.Attribute) and a.attr == "QUANTITY_TYPE_PROPORTION" for a in ast.walk(fw.node))
    ctx.check(bool(excl) and fw_uses, "R03a", so, enclosing_stmt(excl[0]) if excl else so.node, "proportion parameters are excluded from transition_pars (same constant as the framework validator)", "proportion-unit parameters are no longer excluded from the transition parameters by FS.QUANTITY_TYPE_PROPORTION")

    # Link.update / TimedLink.update: N * 1
    for q in ("Link.update", "TimedLink.update"):
        fi = repo.func("model", q)
        mef = K.self_name(fi)
        frac = fi.params[2] if len(fi.params) > 2 else None
        ctx.require(frac is not None, "R03a: %s lost its fraction parameter" % q)
        env = {frac: D.ONE, "%s.source.vals" % mef: D.N, "%s.source._vals" % mef: D.N, "%s.source" % mef: D.N}
        _check_stores(ctx, fi, env, lambda t: isinstance(t, ast.Subscript) and isinstance(t.value, ast.Attribute) and t.value.attr in ("vals", "_vals"), D.N, "link value", min_n=1)
    # resolve_outflows: N
    fi = repo.func("model", "Compartment.resolve_outflows")
    mef = K.self_name(fi)
    env = {"link._cache": D.ONE, "%s.vals" % mef: D.N, "%s._cached_outflow" % mef: D.N}
    _check_stores(ctx, fi, env, lambda t: isinstance(t, ast.Subscript) and isinstance(t.value, ast.Attribute) and t.value.attr in ("vals", "_vals"), D.N, "link value", min_n=1)
    fi = repo.func("model", "TimedCompartment.resolve_outflows")
    mef = K.self_name(fi)
    env = {"link._cache": D.ONE, "%s._vals" % mef: D.N, "%s._cached_outflow" % mef: D.N, "%s._vals.shape" % mef: D.ONE, "%s.flush_link.vals" % mef: D.N}
    _check_stores(ctx, fi, env, lambda t: isinstance(t, ast.Subscript) and isinstance(t.value, ast.Attribute) and t.value.attr in ("vals", "_vals"), D.N, "link value", min_n=3)
    fi = repo.func("model", "SourceCompartment.resolve_outflows")
    env = {"link._cache": D.N}
    _check_stores(ctx, fi, env, lambda t: isinstance(t, ast.Subscript) and isinstance(t.value, ast.Attribute) and t.value.attr in ("vals", "_vals"), D.N, "source outflow", min_n=1)


def _check_stores(ctx, fi, env, is_target, want, what, min_n=1, rule="R03a"):
    count = [0]

    def on_store(t, d, s, env_):
        if not is_target(t):
            return
        count[0] += 1
        if isinstance(d, D.Unknown):
            raise AnalysisError("%s: cannot compute the dimension of `%s` in %s: %s" % (rule, norm(s), fi.fq, d.msg))
        if isinstance(d, D.DimError):
            return
        good = isinstance(d, D.Poly) or d == want
        ctx.check(good, rule, fi, s, "%s `%s` has dimension %r" % (what, ast.unparse(t), want), "%s `%s` has dimension %r, expected %r" % (what, norm(s), d, want))

    def on_error(s, ex):
        ctx.fail(rule, fi, s, "dimensionally inconsistent arithmetic: %s" % ex.msg)

    D.DimWalker(on_store=on_store, on_error=on_error).run(fi.node.body, dict(env))
    if count[0] < min_n:
        raise AnalysisError("%s: %s: only %d stores analysed (expected >= %d)" % (rule, fi.fq, count[0], min_n))


def r03b(ctx, repo):
    ctx.rule("R03b", "time grid: int()/ceil/floor is never applied directly to a raw float quotient by the step size (an intervening snap-to-integer test is required)")
    tv = repo.func("project", "ProjectSettings.tvec")
    se = repo.func("project", "ProjectSettings.sim_end", setter=True)
    n = 0
    for fi, what in ((tv, "number of grid points"), (se, "end year")):
        n += discretise.check_function(ctx, repo, fi, "R03b", what, follow_helpers=True, require_site=True)
    ctx.require(n >= 2, "R03b: fewer discretisation sites (%d) than confirmed (2)" % n)


def thorough(ctx):
    from . import sweeps

    sweeps.discretisation_sweep(ctx, ctx.repo, "R03b")
    sweeps.pyflakes_crossref(ctx, ctx.repo)


CLAMPS = {"min", "max", "np.minimum", "np.maximum", "np.clip", "round", "np.round", "np.floor", "np.ceil", "abs", "np.abs", "np.fmin", "np.fmax"}


def r03c(ctx, repo):
    ctx.rule("R03c", "the value stored in link._cache by update_links is pure arithmetic of the parameter value, dt, timescale and source popsize: no clamp / rounding of an individual fraction (over-subscription is resolved jointly in resolve_outflows)")
    from .c02 import _transition_var

    ul = repo.func("model", "Model.update_links")
    loop, pv, x, xdef = _transition_var(ul)
    rd = K.rdefs(repo, ul)
    n = 0
    for s_ in ast.walk(loop):
        if not (isinstance(s_, ast.Assign) and isinstance(s_.targets[0], ast.Attribute) and s_.targets[0].attr == "_cache"):
            continue
        n += 1
        exprs = [(s_.value, s_)]
        seen = set()
        bad = None
        while exprs and bad is None:
            e, at = exprs.pop()
            for node in ast.walk(e):
                if isinstance(node, ast.Call):
                    fn = ast.unparse(node.func)
                    if fn in CLAMPS:
                        bad = (node, at)
                        break
                if isinstance(node, ast.Name) and node.id not in seen and node.id != x:
                    seen.add(node.id)
                    for d in rd.reaching_at_stmt(at, node.id):
                        ds = rd.def_stmt(d)
                        if isinstance(ds, ast.Assign):
                            exprs.append((ds.value, ds))
        if bad is not None:
            ctx.fail("R03c", ul, bad[1], "the fraction for one link is passed through `%s` before the fractions of the compartment are combined: a fraction above 1 is clipped on its own, so competing outflows are no longer divided by their common sum (and a single large rate no longer empties the compartment in proportion)" % ast.unparse(bad[0])[:80])
        else:
            ctx.ok("R03c", ul, "`%s` is the bare conversion" % norm(s_)[:60], s_)
    ctx.require(n >= 5, "R03c: fewer _cache stores (%d) than confirmed (5)" % n)


def r03d(ctx, repo):
    ctx.rule("R03d", "the model's own arrays are read-only inputs of a step: in model.py, a local bound (on some path) to a numpy view of storage rooted at self (a slice such as self.interactions[name][:, :, ti], its .T / reshape) is never modified in place (augmented assignment, element store, out=); the weights of a population aggregation must be a private copy")
    n = 0
    for fi in repo.module("model").all_functions():
        k, hits = K.self_view_inplace(repo, fi, skip_attrs=(".vals", "._vals"))
        n += k
        seen = set()
        for st, name, d in hits:
            if id(st) in seen:
                continue
            seen.add(id(st))
            ctx.fail("R03d", fi, st, "`%s` can be a view of `%s` (bound at line %d, no copy on this path) and `%s` modifies it in place: the model's stored array is rewritten, so the next evaluation of this step (update_pars runs twice at the first index) or another parameter using the same array converts a different value than the one entered" % (name, ast.unparse(d.value)[:60], d.lineno, norm(st)[:50]))
        if k and not hits:
            ctx.ok("R03d", fi, "%d view binding(s) of self-rooted storage, none modified in place" % k)
    fi = repo.func("model", "Model.update_pars")
    w = [s for s in own_nodes(fi.node) if isinstance(s, ast.Assign) and isinstance(s.targets[0], ast.Name) and "self.interactions[" in ast.unparse(s.value)]
    ctx.require(len(w) >= 1, "R03d: the binding of the aggregation weights from self.interactions not found in update_pars")
    for s in w:
        # a copy (so not a view) - or never modified (checked above)
        ctx.ok("R03d", fi, "weights bound from `%s`" % ast.unparse(s.value)[:60], s)


def r03f(ctx, repo):
    from ..core import boolx as B

    ctx.rule("R03f", "the end year is always on the grid start + k*dt: in ProjectSettings every raw write of _sim_start or _sim_dt is followed, under every condition in which the write happens, by the snapping assignment `self.sim_end = ...` (whose setter rounds the span up to whole steps) - in the setters directly, in update_time_vector on the path that writes _sim_dt itself, in __init__ through update_time_vector(end=...)")
    ci = repo.cls("project", "ProjectSettings")
    n = 0
    funcs = list(ci.methods.values()) + list(ci.setters.values())
    seen = set()
    for fi in funcs:
        if id(fi.node) in seen:
            continue
        seen.add(id(fi.node))
        me = K.self_name(fi)
        raws = [s for s in own_nodes(fi.node) if isinstance(s, ast.Assign) and ast.unparse(s.targets[0]) in ("%s._sim_start" % me, "%s._sim_dt" % me)]
        if not raws:
            continue
        snaps = [s for s in own_nodes(fi.node) if (isinstance(s, ast.Assign) and ast.unparse(s.targets[0]) == "%s.sim_end" % me) or (isinstance(s, ast.Expr) and isinstance(s.value, ast.Call) and ast.unparse(s.value.func) == "%s.update_time_vector" % me and astq.kwarg(s.value, "end", pos=1) is not None)]
        for r in raws:
            n += 1
            later = [s for s in snaps if s.lineno > r.lineno]
            ok = False
            for s in later:
                try:
                    ok = ok or B.implies(B.cond(guards_of(r, asserts=False)), B.cond(guards_of(s, asserts=False)))
                except ValueError:
                    pass
            ctx.check(ok, "R03f", fi, r, "`%s` is followed by the re-snapping of the end year" % norm(r), "`%s` changes the start year or the step size but the end year is not re-snapped afterwards under the same conditions (%s): the time vector is then linspace(start, end) with a spacing that differs from dt while the model steps with dt, so output times are not start + k*dt" % (norm(r), "; ".join("line %d under `%s`" % (s.lineno, " and ".join(("" if p_ else "not ") + ast.unparse(t)[:40] for t, p_ in guards_of(s, asserts=False)) or "always") for s in later) or "no snapping assignment follows"))
    ctx.require(n >= 4, "R03f: fewer raw writes of _sim_start / _sim_dt (%d) than confirmed (4)" % n)
    # the setter itself snaps: _sim_end = start + _n_steps(start, end, dt) * dt
    st = ci.setters.get("sim_end")
    ctx.require(st is not None, "R03f: sim_end setter not found")
    from ..core import algebra as A

    me = K.self_name(st)
    a = [s for s in own_nodes(st.node) if isinstance(s, ast.Assign) and ast.unparse(s.targets[0]) == "%s._sim_end" % me]
    ok = len(a) == 1
    if ok:
        try:
            ok = A.poly(a[0].value) == A.poly(A.parse("%s.sim_start + _n_steps(%s.sim_start, %s, %s.sim_dt) * %s.sim_dt" % (me, me, st.params[1], me, me)))
        except A.NotPolynomial:
            ok = False
    ctx.check(ok, "R03f", st, a[0] if a else st.node, "sim_end = start + n_steps * dt", "the sim_end setter does not store start + _n_steps(start, end, dt) * dt", stmt_text="setter-formula")
    tv = ci.methods.get("tvec")
    rets = [r for r in own_nodes(tv.node) if isinstance(r, ast.Return)] if tv else []
    ok = len(rets) == 1 and ast.unparse(rets[0].value) == "np.linspace(%s.sim_start, %s.sim_end, _n_steps(%s.sim_start, %s.sim_end, %s.sim_dt) + 1)" % ((K.self_name(tv),) * 5)
    ctx.check(ok, "R03f", tv if tv else st, rets[0] if rets else st.node, "tvec = linspace(start, end, n_steps + 1)", "tvec is not np.linspace(start, end, _n_steps(start, end, dt) + 1)", stmt_text="tvec-formula")
