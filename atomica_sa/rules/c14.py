"""C14 - constrained allocations meet the total and every bound, or are rejected (DESIGN 4, C14)."""
import ast

from ..core.loader import AnalysisError, own_nodes, norm, enclosing_stmt
from ..core import astq
from ..core.cfg import guards_of, ENTRY, EXIT
from ..core.dataflow import assigned_value
from . import common as K
from . import optalg

EXPLANATION = (
    "R14a: every return of constrain_sum_bounded is bounded (guarded by >= lower & <= upper comparisons, or clipped by the bounds) and its sum is checked against the "
    "target (guarding np.isclose, or a dominating assert / if-raise). R14b: every use of the solver's solution is dominated by a test of its success flag whose failing "
    "branch raises FailedConstraint, and the objective wrapper maps FailedConstraint to +inf. R14c: TotalSpendConstraint.get_hard_constraint compares the summed lower and "
    "upper bounds with the total and raises UnresolvableConstraint; in optimize() the hard constraints and the finite-initial-objective check dominate every optimiser call. "
    "R14d: package proportions go through constrain_sum_bounded(., 1, min_props, max_props) before any allocation is written. R14e: constrain_instructions builds the "
    "proposal and both bound vectors in one loop (one ordering) and writes back every constrained value. SLSQP's numerical behaviour and 1e-6 closeness are not decided."
)


def run(ctx):
    repo = ctx.repo
    ctx.each(r14a, ctx, repo)
    ctx.each(r14b, ctx, repo)
    ctx.each(r14c, ctx, repo)
    ctx.each(r14d, ctx, repo)
    ctx.each(r14e, ctx, repo)
    ctx.each(r14f, ctx, repo)
    ctx.each(optalg.rescale_algebra, ctx, repo, "R14g")
    ctx.each(optalg.required_total, ctx, repo, "R14h")
    ctx.each(optalg.evaluation_pipeline, ctx, repo, "R14i")
    ctx.each(r14j, ctx, repo)
    ctx.each(r14k, ctx, repo)
    ctx.each(r14m, ctx, repo)
    ctx.each(optalg.proposal_application, ctx, repo, "R14l")  # the bounds every feasibility test and projection uses are the adjustable's own lower / upper bound (0 is a bound, not 'no bound')
    from . import c15
    from .c08 import engines as _eng

    ctx.each(c15.r15f, ctx, repo, _eng(repo)[2])  # totals and bounds are derived from the instructions given to this call, not from values remembered on the problem object


def _derives_from(fi, name, param, depth=0):
    """Does local `name` derive (through simple assignments) from parameter `param`?"""
    if name == param:
        return True
    if depth > 3:
        return False
    for s in own_nodes(fi.node):
        if isinstance(s, ast.Assign):
            v = assigned_value(s, name)
            if v is not None:
                for n in ast.walk(v):
                    if isinstance(n, ast.Name) and n.id != name and _derives_from(fi, n.id, param, depth + 1):
                        return True
    return False


def _names(e):
    return {n.id for n in ast.walk(e) if isinstance(n, ast.Name)}


def _bound_compares(fi, test, var_names, lbp, ubp):
    """(has lower-bound comparison, has upper-bound comparison) on one of var_names inside test."""
    lo = hi = False
    for c in ast.walk(test):
        if isinstance(c, ast.Compare) and len(c.ops) == 1:
            l, r = c.left, c.comparators[0]
            op = type(c.ops[0])
            for a, b, o in ((l, r, op), (r, l, {ast.GtE: ast.LtE, ast.LtE: ast.GtE, ast.Gt: ast.Lt, ast.Lt: ast.Gt}.get(op))):
                if isinstance(a, ast.Name) and a.id in var_names and isinstance(b, ast.Name):
                    if o in (ast.GtE, ast.Gt) and _derives_from(fi, b.id, lbp):
                        lo = True
                    if o in (ast.LtE, ast.Lt) and _derives_from(fi, b.id, ubp):
                        hi = True
    return lo, hi


def _clip_idiom(fi, e, lbp, ubp):
    """np.minimum(np.maximum(., L), U) / np.clip(., L, U), possibly scaled by a factor."""
    for c in ast.walk(e):
        if isinstance(c, ast.Call):
            fn = ast.unparse(c.func)
            if fn == "np.clip" and len(c.args) == 3:
                L, U = c.args[1], c.args[2]
                if isinstance(L, ast.Name) and isinstance(U, ast.Name) and _derives_from(fi, L.id, lbp) and _derives_from(fi, U.id, ubp):
                    return True
            if fn == "np.minimum" and len(c.args) == 2:
                for inner, U in ((c.args[0], c.args[1]), (c.args[1], c.args[0])):
                    if isinstance(inner, ast.Call) and ast.unparse(inner.func) == "np.maximum" and len(inner.args) == 2 and isinstance(U, ast.Name) and _derives_from(fi, U.id, ubp):
                        if any(isinstance(a, ast.Name) and _derives_from(fi, a.id, lbp) for a in inner.args):
                            return True
            if fn == "np.maximum" and len(c.args) == 2:
                for inner, L in ((c.args[0], c.args[1]), (c.args[1], c.args[0])):
                    if isinstance(inner, ast.Call) and ast.unparse(inner.func) == "np.minimum" and len(inner.args) == 2 and isinstance(L, ast.Name) and _derives_from(fi, L.id, lbp):
                        if any(isinstance(a, ast.Name) and _derives_from(fi, a.id, ubp) for a in inner.args):
                            return True
    return False


def _sum_check(test, var_names):
    """test contains np.isclose(<var>.sum(), target) / np.isclose(np.sum(var), target) / abs(var.sum() - target) < tol"""
    for c in ast.walk(test):
        if isinstance(c, ast.Call) and ast.unparse(c.func) in ("np.isclose", "math.isclose", "np.allclose") and c.args:
            a = c.args[0]
            if any(isinstance(n, ast.Name) and n.id in var_names for n in ast.walk(a)) and ("sum" in ast.unparse(a)):
                return True
        if isinstance(c, ast.Compare) and "abs(" in ast.unparse(c.left) and ".sum()" in ast.unparse(c.left) and any(isinstance(n, ast.Name) and n.id in var_names for n in ast.walk(c.left)):
            return True
    return False


def r14a(ctx, repo):
    ctx.rule("R14a", "every return of constrain_sum_bounded is within bounds (guarded or clipped) and its sum is checked against the target (guard, assert or if-raise)")
    fi = repo.func("optimization", "constrain_sum_bounded")
    ps = fi.params
    ctx.require(len(ps) >= 4, "R14a: constrain_sum_bounded lost its (x, s, lb, ub) parameters")
    xp, sp, lbp, ubp = ps[:4]
    cfg = K.cfg(repo, fi)
    rd = K.rdefs(repo, fi)
    rets = [r for r in own_nodes(fi.node) if isinstance(r, ast.Return) and r.value is not None]
    ctx.require(len(rets) >= 2, "R14a: fewer returns (%d) in constrain_sum_bounded than confirmed (2)" % len(rets))
    for r in rets:
        exprs = [r.value]
        vnames = set(_names(r.value)) - {sp}
        if isinstance(r.value, ast.Name):
            for d in rd.reaching_at_stmt(r, r.value.id):
                ds = rd.def_stmt(d)
                v = assigned_value(ds, r.value.id) if ds is not None else None
                if v is not None:
                    exprs.append(v)
        guard_tests = [t for t, pol in guards_of(r) if pol]
        lo = hi = False
        for t in guard_tests:
            a, b = _bound_compares(fi, t, vnames, lbp, ubp)
            lo, hi = lo or a, hi or b
        clipped = any(_clip_idiom(fi, e, lbp, ubp) for e in exprs)
        ctx.check((lo and hi) or clipped, "R14a", fi, r, "returned allocation is %s" % ("clipped to the bounds" if clipped else "guarded by lower and upper bound comparisons"), "`%s` can return an allocation outside a program's bounds: it is neither guarded by >= lower & <= upper comparisons nor clipped by them" % norm(r))
        summed = any(_sum_check(t, vnames) for t in guard_tests)
        if not summed:
            for a in own_nodes(fi.node):
                if isinstance(a, ast.Assert) and _sum_check(a.test, vnames) and cfg.dominates(a, r):
                    summed = True
                if isinstance(a, ast.If) and a.body and isinstance(a.body[-1], ast.Raise) and isinstance(a.test, ast.UnaryOp) and isinstance(a.test.op, ast.Not) and _sum_check(a.test.operand, vnames) and cfg.dominates(a, r):
                    summed = True
        ctx.check(summed, "R14a", fi, r, "sum of the returned allocation is checked against the target", "`%s` can return an allocation whose total was never compared with the required total: a constraint violation is returned silently" % norm(r))


def r14b(ctx, repo):
    ctx.rule("R14b", "solver status: every use of res['x'] is dominated by `if not res['success']: raise FailedConstraint`; _objective_fcn maps FailedConstraint to +inf")
    fi = repo.func("optimization", "constrain_sum_bounded")
    cfg = K.cfg(repo, fi)
    res = [s for s in own_nodes(fi.node) if isinstance(s, ast.Assign) and "minimize(" in ast.unparse(s.value) and isinstance(s.targets[0], ast.Name)]
    ctx.require(len(res) == 1, "R14b: call of scipy.optimize.minimize not found")
    rn = res[0].targets[0].id
    uses = [enclosing_stmt(n) for n in own_nodes(fi.node) if isinstance(n, ast.Subscript) and astq.is_name(n.value, rn) and isinstance(n.slice, ast.Constant) and n.slice.value == "x"]
    ctx.require(uses, "R14b: the solver's solution res['x'] is never used")
    tests = [s for s in own_nodes(fi.node) if isinstance(s, ast.If) and ("%s['success']" % rn) in ast.unparse(s.test)]
    good_tests = []
    for t in tests:
        neg = isinstance(t.test, ast.UnaryOp) and isinstance(t.test.op, ast.Not)
        failing = t.body if neg else t.orelse
        raises = [x for x in failing if isinstance(x, ast.Raise)]
        if raises and "FailedConstraint" in ast.unparse(raises[-1].exc or ast.Constant(value="")):
            good_tests.append(t)
    for u in uses:
        ctx.check(any(cfg.dominates(t, u) for t in good_tests), "R14b", fi, u, "solution used only after the success flag was checked", "`%s` uses the solver's output without a dominating check of res['success'] that raises FailedConstraint: a failed solve is returned as if it satisfied the constraints" % norm(u)[:80])
    of = repo.func("optimization", "_objective_fcn")
    hs = [h for h in own_nodes(of.node) if isinstance(h, ast.ExceptHandler) and h.type is not None and "FailedConstraint" in ast.unparse(h.type)]
    ok = bool(hs) and any(isinstance(s, ast.Return) and ast.unparse(s.value) in ("np.inf", "float('inf')", "math.inf") for s in hs[0].body)
    ctx.check(ok, "R14b", of, hs[0] if hs else of.node, "a proposal that cannot be constrained scores +inf", "_objective_fcn does not map FailedConstraint to an infinite objective: an unconstrainable proposal is evaluated (or crashes the optimisation)")
    # the constrain step is inside the try
    tries = [t for t in own_nodes(of.node) if isinstance(t, ast.Try)]
    inside = any("constrain_instructions" in ast.unparse(s) for t in tries for s in t.body)
    ctx.check(inside, "R14b", of, tries[0] if tries else of.node, "constrain_instructions runs under the FailedConstraint handler", "constrain_instructions is called outside the try that handles FailedConstraint")


def r14c(ctx, repo):
    ctx.rule("R14c", "up-front infeasibility: summed lower / upper bounds are compared with the total and raise UnresolvableConstraint; optimize() computes hard constraints and checks the initial objective before any optimiser call")
    fi = repo.func("optimization", "TotalSpendConstraint.get_hard_constraint")
    raises = [r for r in own_nodes(fi.node) if isinstance(r, ast.Raise) and r.exc is not None and "UnresolvableConstraint" in ast.unparse(r.exc)]
    kinds = {"min": None, "max": None}
    for r in raises:
        for t, pol in guards_of(r):
            if not pol or not isinstance(t, ast.Compare) or len(t.ops) != 1:
                continue
            l, r_ = t.left, t.comparators[0]
            for a, b, op in ((l, r_, type(t.ops[0])), (r_, l, {ast.Gt: ast.Lt, ast.Lt: ast.Gt, ast.GtE: ast.LtE, ast.LtE: ast.GtE}.get(type(t.ops[0])))):
                if isinstance(a, ast.Name) and "initial_total_spend" in ast.unparse(b):
                    accs = [s for s in own_nodes(fi.node) if isinstance(s, ast.AugAssign) and astq.is_name(s.target, a.id) and isinstance(s.op, ast.Add)]
                    lows = any(ast.unparse(s.value).endswith("[0]") or ast.unparse(s.value).endswith(".lower_bound") for s in accs)
                    highs = any(ast.unparse(s.value).endswith("[1]") or ast.unparse(s.value).endswith(".upper_bound") for s in accs)
                    if op in (ast.Gt, ast.GtE) and lows and not highs:
                        kinds["min"] = r
                    if op in (ast.Lt, ast.LtE) and highs and not lows:
                        kinds["max"] = r
    ctx.check(kinds["min"] is not None, "R14c", fi, kinds["min"] or fi.node, "sum of lower bounds above the total is refused", "get_hard_constraint no longer raises UnresolvableConstraint when the programs' minimum spends exceed the constrained total: the impossibility only shows up as failed proposals during optimisation", )
    ctx.check(kinds["max"] is not None, "R14c", fi, kinds["max"] or fi.node, "sum of upper bounds below the total is refused", "get_hard_constraint no longer raises UnresolvableConstraint when the programs' maximum spends are below the constrained total")
    op = repo.func("optimization", "optimize")
    cfg = K.cfg(repo, op)
    hc = [s for s in own_nodes(op.node) if isinstance(s, ast.Assign) and "get_hard_constraints(" in ast.unparse(s.value)]
    fin = [s for s in own_nodes(op.node) if isinstance(s, ast.If) and "np.isfinite" in ast.unparse(s.test) and "initial_objective" in ast.unparse(s.test) and s.body and isinstance(s.body[-1], ast.Raise)]
    OPTIMISERS = ("sc.asd", "pyswarm.pso", "hyperopt.fmin", "optimization.method")
    calls = [enclosing_stmt(c) for c in own_nodes(op.node) if isinstance(c, ast.Call) and ast.unparse(c.func) in OPTIMISERS]
    ctx.require(len(calls) >= 3, "R14c: fewer optimiser calls (%d) in optimize() than confirmed (4)" % len(calls))
    ids = lambda ss: [i for s in ss for i in cfg.ids(s)]
    # hard constraints may be supplied by the caller: the assignment is under `if not hard_constraints`; what must hold is that no
    # optimiser call is reachable from the entry without passing the `if not hard_constraints` test
    hct = [s for s in own_nodes(op.node) if isinstance(s, ast.If) and ast.unparse(s.test) in ("not hard_constraints", "hard_constraints is None") and any(h in s.body for h in hc)]
    for c in calls:
        ctx.check(bool(hct) and not cfg.path_exists([ENTRY], cfg.ids(c), avoid_ids=ids(hct)), "R14c", op, c, "hard constraints available before `%s`" % norm(c)[:40], "the optimiser call `%s` is reachable without the hard constraints having been computed: impossible constraints are not reported before optimisation starts" % norm(c)[:60])
        ctx.check(bool(fin) and not cfg.path_exists([ENTRY], cfg.ids(c), avoid_ids=ids(fin)), "R14c", op, c, "finite initial objective checked before `%s`" % norm(c)[:40], "the optimiser call `%s` is reachable without the check that the initial objective is finite" % norm(c)[:60])
    # and the final instructions are constrained again with the same hard constraints
    tail = [s for s in op.node.body if isinstance(s, ast.Expr) and "constrain_instructions" in ast.unparse(s)]
    ctx.check(bool(tail) and "hard_constraints" in ast.unparse(tail[-1]), "R14c", op, tail[-1] if tail else op.node, "returned instructions are constrained with the same hard constraints", "optimize() returns instructions that were not passed through constrain_instructions")


def r14d(ctx, repo):
    ctx.rule("R14d", "SpendingPackageAdjustment.update_instructions: proportions pass through constrain_sum_bounded(., 1, min_props, max_props) before any store to instructions.alloc")
    fi = repo.func("optimization", "SpendingPackageAdjustment.update_instructions")
    me = K.self_name(fi)
    cfg = K.cfg(repo, fi)
    cs = [s for s in own_nodes(fi.node) if isinstance(s, ast.Assign) and isinstance(s.value, ast.Call) and ast.unparse(s.value.func) == "constrain_sum_bounded"]
    if not cs:
        ctx.fail("R14d", fi, fi.node, "package proportions are written to the allocation without passing constrain_sum_bounded: a member's share can leave its minimum/maximum proportion", stmt_text="package-constrain-missing")
        return
    c = cs[0]
    args = [ast.unparse(a) for a in c.value.args]
    ctx.check(len(args) == 4 and args[1] in ("1", "1.0") and args[2] == "%s.min_props" % me and args[3] == "%s.max_props" % me, "R14d", fi, c, "proportions constrained to sum 1 within [min_props, max_props]", "proportions are constrained with %s instead of (fracs, 1, self.min_props, self.max_props)" % args[1:])
    fr = c.targets[0].id if isinstance(c.targets[0], ast.Name) else None
    wr = [s for s, t, k, v in astq.stores(fi.node) if "instructions.alloc" in ast.unparse(t) or (k.startswith("mut:") and "instructions.alloc" in ast.unparse(t))]
    ins = [enclosing_stmt(x) for x in own_nodes(fi.node) if isinstance(x, ast.Call) and isinstance(x.func, ast.Attribute) and x.func.attr == "insert" and "instructions.alloc" in ast.unparse(x.func.value)]
    writes = {id(s): s for s in wr + ins}.values()
    ctx.require(writes, "R14d: no allocation writes found in SpendingPackageAdjustment.update_instructions")
    for s in writes:
        ctx.check(cfg.dominates(c, s), "R14d", fi, s, "allocation written after the proportions were constrained", "`%s` can execute before the proportions are constrained" % norm(s)[:70])
    spends = [s for s in own_nodes(fi.node) if isinstance(s, ast.Assign) and isinstance(s.value, ast.BinOp) and isinstance(s.value.op, ast.Mult) and fr and fr in _names(s.value)]
    ctx.check(bool(spends), "R14d", fi, spends[0] if spends else c, "each program's spend = constrained share x package total", "the spend written for each program is not the constrained share times the package total")


def r14e(ctx, repo):
    ctx.rule("R14e", "constrain_instructions: proposal and both bound vectors are built in one loop over the constrained programs, the constrained values are written back for every one of them")
    fi = repo.func("optimization", "TotalSpendConstraint.constrain_instructions")
    cs = [s for s in own_nodes(fi.node) if isinstance(s, ast.Assign) and isinstance(s.value, ast.Call) and ast.unparse(s.value.func) == "constrain_sum_bounded"]
    ctx.require(len(cs) == 1, "R14e: call of constrain_sum_bounded not found in constrain_instructions")
    c = cs[0]
    x1 = c.targets[0].id
    a = c.value.args
    ctx.require(len(a) == 4, "R14e: constrain_sum_bounded is not called with four arguments")
    # lb / ub appended and x0 filled in the same loop
    lbn, ubn = ast.unparse(a[2]), ast.unparse(a[3])
    loops = [l for l in own_nodes(fi.node) if isinstance(l, ast.For) and any(isinstance(x, ast.Call) and isinstance(x.func, ast.Attribute) and x.func.attr == "append" and ast.unparse(x.func.value) == lbn for x in ast.walk(l))]
    inner = [l for l in loops if not any(isinstance(x, ast.For) and x is not l and x in loops for x in ast.walk(l))]
    ctx.require(inner, "R14e: loop filling the lower-bound vector not found")
    l = inner[0]
    has_ub = any(isinstance(x, ast.Call) and isinstance(x.func, ast.Attribute) and x.func.attr == "append" and ast.unparse(x.func.value) == ubn for x in ast.walk(l))
    x0_store = [s for s in ast.walk(l) if isinstance(s, ast.Assign) and isinstance(s.targets[0], ast.Subscript) and isinstance(s.targets[0].value, ast.Name)]
    ctx.check(has_ub and bool(x0_store), "R14e", fi, l, "proposal, lower and upper bounds filled in one loop (one ordering)", "the proposal and its bound vectors are not filled in the same loop: bounds can be applied to the wrong program")
    # total passed is the hard-constraint total for this year
    ctx.check("total_spend" in ast.unparse(a[1]), "R14e", fi, c, "target is the year's constrained total", "constrain_sum_bounded is called with target `%s`" % ast.unparse(a[1]))
    wb = [l2 for l2 in own_nodes(fi.node) if isinstance(l2, ast.For) and x1 in _names(l2.iter) and l2.lineno > c.lineno]
    ctx.require(wb, "R14e: write-back loop over the constrained values not found")
    w = wb[0]
    vals = [t.id for t in ast.walk(w.target) if isinstance(t, ast.Name)]
    writes = [x for x in ast.walk(w) if isinstance(x, ast.Call) and isinstance(x.func, ast.Attribute) and x.func.attr in ("insert", "set_total_spend")]
    branches_ok = len(writes) >= 2 and all(any(v in _names(x) for v in vals) for x in writes)
    ctx.check(branches_ok, "R14e", fi, w, "every constrained value is written back (allocation entry or package total)", "the constrained values are not all written back into the instructions")
    # the failure signal is not swallowed here
    ctx.check(not any(isinstance(h, ast.ExceptHandler) for h in own_nodes(fi.node)), "R14e", fi, fi.node, "FailedConstraint propagates to the objective wrapper", "constrain_instructions swallows exceptions: a failed constraint would leave the proposal unconstrained")


def thorough(ctx):
    from . import sweeps

    sweeps.pyflakes_crossref(ctx, ctx.repo)
    ctx.note("R14a", "cross-reference: pyflakes reports `tolerance` in constrain_sum_bounded as assigned but never used; the acceptance test actually applied is np.isclose (rtol 1e-5), looser than the stated 1e-6. Not armed: no returned allocation off by more than 1e-6 relative has been exhibited")


MUTABLE_CTORS = {"dict", "list", "set", "sc.odict", "sc.objdict", "defaultdict", "OrderedDict", "np.zeros", "np.ones", "np.empty", "np.array", "np.full"}


def _is_mutable_value(e):
    if isinstance(e, (ast.Dict, ast.List, ast.Set, ast.ListComp, ast.DictComp, ast.SetComp)):
        return True
    return isinstance(e, ast.Call) and ast.unparse(e.func) in MUTABLE_CTORS


def shared_mutable_sites(fi):
    """dict.fromkeys(keys, <mutable>)  and  [<mutable>] * n : one object shared by every key / position"""
    out = []
    for c in own_nodes(fi.node):
        if isinstance(c, ast.Call) and isinstance(c.func, ast.Attribute) and c.func.attr == "fromkeys" and len(c.args) == 2 and _is_mutable_value(c.args[1]):
            out.append((c, "every key of `%s` shares the one `%s` object" % (ast.unparse(c)[:60], ast.unparse(c.args[1]))))
        if isinstance(c, ast.BinOp) and isinstance(c.op, ast.Mult):
            for a in (c.left, c.right):
                if isinstance(a, ast.List) and len(a.elts) == 1 and _is_mutable_value(a.elts[0]):
                    out.append((c, "every position of `%s` shares the one `%s` object" % (ast.unparse(c)[:60], ast.unparse(a.elts[0]))))
    return out


def r14f(ctx, repo):
    ctx.rule("R14f", "per-year tables of the total-spend constraint are per year: in get_hard_constraint each table indexed by year gets a fresh container for every year inside the loop over years (no dict.fromkeys(years, <mutable>) / [<mutable>] * n sharing one object), so the bounds checked for year t are the bounds of year t")
    fi = repo.func("optimization", "TotalSpendConstraint.get_hard_constraint")
    n = 0
    for f in repo.module("optimization").all_functions():
        for c, why in shared_mutable_sites(f):
            n += 1
            ctx.fail("R14f", f, enclosing_stmt(c), "%s: what is stored for one year (or program) is stored for all of them - the rescaling then checks an allocation against another year's bounds and can return one that violates its own" % why)
    # per-year containers: X[t] = <fresh>  precedes  X[t][k] = ...  inside the loop over t
    loops = [l for l in own_nodes(fi.node) if isinstance(l, ast.For) and isinstance(l.target, (ast.Name, ast.Tuple))]
    nested = {}
    for s in own_nodes(fi.node):
        if isinstance(s, ast.Assign) and isinstance(s.targets[0], ast.Subscript) and isinstance(s.targets[0].value, ast.Subscript):
            inner = s.targets[0].value  # X[t]
            if isinstance(inner.slice, ast.Name):
                nested.setdefault((ast.unparse(inner.value), inner.slice.id), []).append(s)
    for (tab, t), stores in sorted(nested.items()):
        lp = [l for l in K.enclosing_loops(stores[0]) if t in {x.id for x in ast.walk(l.target) if isinstance(x, ast.Name)}]
        if not lp:
            continue
        n += 1
        fresh = [s for s in ast.walk(lp[0]) if isinstance(s, ast.Assign) and ast.unparse(s.targets[0]) == "%s[%s]" % (tab, t) and _is_mutable_value(s.value) and not any(isinstance(x, ast.Name) for x in ast.walk(s.value) if isinstance(x, ast.Name) and x.id not in ("dict", "list", "set", "sc", "np", "defaultdict"))]
        cfg = K.cfg(repo, fi)
        ok = bool(fresh) and all(fs.lineno < st.lineno for fs in fresh[:1] for st in stores)
        if ok:
            head = cfg.ids(lp[0])
            ok = not any(cfg.path_exists(head, cfg.ids(st), avoid_ids=[i for fs in fresh for i in cfg.ids(fs)]) for st in stores)
        ctx.check(ok, "R14f", fi, stores[0], "`%s[%s]` is a fresh container created in the loop over `%s` before it is filled" % (tab, t, t), "`%s` fills `%s[%s]` but no fresh container is assigned to `%s[%s]` earlier in the same iteration over `%s`: the entries of different years end up in one shared object (or the previous year's), so a year is checked against bounds that are not its own" % (norm(stores[0])[:60], tab, t, tab, t, t), stmt_text="per-year-container:%s" % tab)
    ctx.require(n >= 1, "R14f: no per-year table found in get_hard_constraint")


ORDER_PRESERVING = {"sc.promotetoarray", "np.array", "np.asarray", "list", "tuple", "sc.promotetolist", "np.atleast_1d", "sc.dcp"}


def r14j(ctx, repo):
    ctx.rule("R14j", "bounds stay with their year: SpendingAdjustment.__init__ keeps the years in the order given (an order-preserving conversion of the argument, no sort / unique / reverse), because lower, upper and initial are matched to the years by position, and builds one Adjustable per zip(lower, upper, initial) entry")
    fi = repo.func("optimization", "SpendingAdjustment.__init__")
    me = K.self_name(fi)
    st = [s for s in own_nodes(fi.node) if isinstance(s, ast.Assign) and ast.unparse(s.targets[0]) == "%s.t" % me]
    ctx.require(len(st) >= 1, "R14j: assignment of self.t not found in SpendingAdjustment.__init__")
    for s in st:
        v = s.value
        ok = True
        while isinstance(v, ast.Call):
            if ast.unparse(v.func) not in ORDER_PRESERVING or not v.args:
                ok = False
                break
            v = v.args[0]
        ok = ok and isinstance(v, ast.Name) and v.id == "t"
        ctx.check(ok, "R14j", fi, s, "years kept in the caller's order", "`%s` is not an order-preserving conversion of the `t` argument: the per-year lower / upper / initial values are matched to the years by position, so after reordering each year is optimised within another year's bounds (the total is still met, nothing is raised)" % norm(s)[:90])
    adj = [s for s in own_nodes(fi.node) if isinstance(s, ast.Assign) and ast.unparse(s.targets[0]) == "%s.adjustables" % me]
    ok = len(adj) == 1 and isinstance(adj[0].value, ast.ListComp) and ast.unparse(adj[0].value.generators[0].iter) == "zip(lower, upper, initial)"
    if ok:
        names = [ast.unparse(e) for e in adj[0].value.generators[0].target.elts]
        c = adj[0].value.elt
        ok = isinstance(c, ast.Call) and ast.unparse(c.func) == "Adjustable" and ast.unparse(astq.kwarg(c, "lower_bound")) == names[0] and ast.unparse(astq.kwarg(c, "upper_bound")) == names[1] and ast.unparse(astq.kwarg(c, "initial_value")) == names[2]
    ctx.check(ok, "R14j", fi, adj[0] if adj else fi.node, "one Adjustable per (lower, upper, initial) triple, in order", "the adjustables are not built from zip(lower, upper, initial) with each value in its own role", stmt_text="adjustables")
    # every expansion of a scalar keeps the count of years
    for nm in ("lower", "upper", "initial"):
        ex = [s for s in own_nodes(fi.node) if isinstance(s, ast.Assign) and astq.is_name(s.targets[0], nm) and isinstance(s.value, ast.BinOp) and isinstance(s.value.op, ast.Mult)]
        for s in ex:
            ctx.check(ast.unparse(s.value) in ("%s * len(%s.t)" % (nm, me), "len(%s.t) * %s" % (me, nm)), "R14j", fi, s, "a single %s bound is repeated once per year" % nm, "`%s` does not repeat the single value once per year" % norm(s))


def r14k(ctx, repo):
    ctx.rule("R14k", "every constrained year goes through the bounded projection: in TotalSpendConstraint.constrain_instructions the call of constrain_sum_bounded, and the loop that writes the constrained values back, are executed on every iteration of the loop over the constrained years - no `continue`, early exit or guard in front of them (a proposal whose total already looks right may still break a bound, and 'looks right' to isclose's default tolerance is not the 1e-6 the total has to be met to)")
    fi = repo.func("optimization", "TotalSpendConstraint.constrain_instructions")
    loops = [l for l in fi.node.body if isinstance(l, ast.For) and "initial_total_spend" in ast.unparse(l.iter)]
    ctx.require(len(loops) == 1, "R14k: the loop over the constrained years was not found in TotalSpendConstraint.constrain_instructions")
    lp = loops[0]
    calls = [c for c in ast.walk(lp) if isinstance(c, ast.Call) and ast.unparse(c.func) == "constrain_sum_bounded"]
    ctx.require(len(calls) == 1, "R14k: expected one call of constrain_sum_bounded in the loop over years, found %d" % len(calls))
    st = enclosing_stmt(calls[0])
    g = guards_of(st, stop=lp)
    ctx.check(not g and any(st is s_ for s_ in lp.body), "R14k", fi, st, "the projection runs for every constrained year", "`%s` is only reached when %s: for the other years the proposal is written back without being projected into the bounds and onto the total" % (norm(st)[:70], " and ".join(("" if p else "not ") + "`%s`" % ast.unparse(t)[:60] for t, p in g) or "a nested condition holds"), stmt_text="projection-unconditional")
    wb = [l for l in lp.body if isinstance(l, ast.For) and isinstance(st, ast.Assign) and any(isinstance(x, ast.Name) and x.id == st.targets[0].id for x in ast.walk(l.iter))]
    ctx.check(len(wb) == 1 and not guards_of(wb[0], stop=lp) and wb[0].lineno > st.lineno, "R14k", fi, wb[0] if wb else lp, "the projected values are written back for every constrained year", "the loop that writes the projected values back into the instructions is missing, conditional, or runs before the projection", stmt_text="writeback-unconditional")


def r14m(ctx, repo):
    ctx.rule("R14m", "writing a package's constrained total back touches the package's own year only: SpendingPackageAdjustment.set_total_spend rescales each member program with `ts.insert(t=self.t, v=ts.get(self.t) * spend_factor)` - no assignment to the whole value list; a rescale of every year re-multiplies the years that TotalSpendConstraint has already constrained, so their totals and bounds are silently missed")
    fi = repo.func("optimization", "SpendingPackageAdjustment.set_total_spend")
    me = fi.params[0]
    whole = [s_ for s_ in own_nodes(fi.node) if isinstance(s_, (ast.Assign, ast.AugAssign)) and any(isinstance(t, ast.Attribute) and t.attr in ("vals", "t") for t in (s_.targets if isinstance(s_, ast.Assign) else [s_.target]))]
    for s_ in whole:
        ctx.fail("R14m", fi, s_, "`%s` rewrites a member program's whole spending series: years other than the package's own (`%s.t`), which may already have been constrained, are rescaled too" % (norm(s_)[:80], me), stmt_text="whole-series")
    ins = [c for c in ast.walk(fi.node) if isinstance(c, ast.Call) and isinstance(c.func, ast.Attribute) and c.func.attr == "insert"]
    ok = len(ins) == 1
    if ok:
        kw = {k.arg: ast.unparse(k.value) for k in ins[0].keywords}
        pos = [ast.unparse(a) for a in ins[0].args]
        t = kw.get("t", pos[0] if pos else None)
        v = kw.get("v", pos[1] if len(pos) > 1 else None)
        recv = ast.unparse(ins[0].func.value)
        ok = t == "%s.t" % me and v is not None and _same(ast.parse(v, mode="eval").body, "%s.get(%s.t) * spend_factor" % (recv, me))
    ctx.check(ok and not whole, "R14m", fi, enclosing_stmt(ins[0]) if ins else fi.node, "members rescaled at the package's own year only", "set_total_spend does not rescale each member with `ts.insert(t=%s.t, v=ts.get(%s.t) * spend_factor)`" % (me, me), stmt_text="rescale-own-year")


def _same(node, text):
    from ..core import algebra as A

    try:
        return A.poly(node) == A.poly(A.parse(text))
    except A.NotPolynomial:
        return False
