"""C15 - optimisation and calibration never leak side effects (DESIGN 4, C15)."""
import ast

from ..core.loader import AnalysisError, own_nodes, norm, enclosing_stmt, attr_chain
from ..core import astq
from ..core.cfg import CFG, guards_of, ENTRY, EXIT, EXC
from ..core.types import is_inst
from . import common as K
from . import optalg
from . import discretise
from .c08 import engines, COPY_CALLS

EXPLANATION = (
    "R15a (CFG with exception edges, every call may raise): wherever a caller-owned setting is saved, overwritten and restored, the restoring assignment is reached on "
    "every exit of the function, normal or exceptional. R15b: the setter used for the restore is idempotent on its own output (no ceil on a raw quotient; shared with C03). "
    "R15c (effect summaries): calibrate, optimize, reconcile and their Project wrappers do not definitely mutate the caller's parset / progset / instructions; the objects "
    "handed to the mutating helpers are rooted at copies. R15d: the objective filters populations by *name* - no membership or equality test compares an instance of a repo "
    "class without __eq__ against a collection of names. R15e: the hard bounds handed to the total-spend rescaling are those of the same year and program: every position lookup `np.where(<years> OP t)[0][0]` in get_hard_constraint is an equality match and the adjustable whose bounds are used is the one at that position. 'No worse than the start' and bound satisfaction of returned values belong to the external optimiser and are not decided."
)


def run(ctx):
    repo = ctx.repo
    T, cg, E = engines(repo)
    ctx.each(r15a, ctx, repo)
    ctx.each(r15b, ctx, repo)
    ctx.each(r15c, ctx, repo, T, cg, E)
    ctx.each(r15d, ctx, repo, T)
    ctx.each(r15e, ctx, repo)
    ctx.each(r15f, ctx, repo, E)
    ctx.each(optalg.objective_definition, ctx, repo, "R15g")
    ctx.each(optalg.evaluation_pipeline, ctx, repo, "R15h")
    ctx.each(optalg.proposal_application, ctx, repo, "R15i")
    ctx.each(optalg.calibration_objective, ctx, repo, "R15j")
    # "adjusted values all lie within the bounds given": what constrain_sum_bounded returns is compared with / clipped to the bounds
    from .c14 import r14a

    ctx.each(r14a, ctx, repo)


def _chain_txt(e):
    ch = attr_chain(e)
    return ".".join(ch) if ch and len(ch) >= 3 else None


def find_save_restore(fi):
    """
    Instances of  orig = <a.b.c> ... <a.b.c> = <other> ... <a.b.c> = orig  in one function.
    Returns list of (chain text, save stmt, [modify stmts], [restore stmts]).
    """
    saves = {}
    for s in own_nodes(fi.node):
        if isinstance(s, ast.Assign) and len(s.targets) == 1 and isinstance(s.targets[0], ast.Name):
            c = _chain_txt(s.value) if isinstance(s.value, ast.Attribute) else None
            if c:
                saves.setdefault(c, []).append((s.targets[0].id, s))
    out = []
    for chain, lst in saves.items():
        for name, save in lst:
            stores_ = [s for s in own_nodes(fi.node) if isinstance(s, ast.Assign) and any(isinstance(t, ast.Attribute) and _chain_txt(t) == chain for t in s.targets)]
            restores = [s for s in stores_ if astq.is_name(s.value, name)]
            modifies = [s for s in stores_ if s not in restores and s.lineno > save.lineno]
            if modifies:
                out.append((chain, name, save, modifies, restores))
    return out


def r15a(ctx, repo):
    ctx.rule("R15a", "save / overwrite / restore of a caller-owned attribute: after the overwrite, every path to a normal or exceptional exit passes the restoring assignment")
    n = 0
    for fi in repo.all_functions():
        if fi.module.name in ("migration",):
            continue
        for chain, name, save, modifies, restores in find_save_restore(fi):
            n += 1
            ctx.examine()
            if not restores:
                ctx.fail("R15a", fi, modifies[0], "`%s` is saved in `%s` and overwritten but never assigned back from it: the caller's setting is permanently changed" % (chain, name))
                continue
            cfg = CFG(fi.node, repo=repo, module=fi.module, raise_model="calls")
            rids = [i for r in restores for i in cfg.ids(r)]
            for m in modifies:
                starts = []
                for i in cfg.ids(m):
                    for j in cfg.g.successors(i):
                        if cfg.g[i][j]["labels"] != {"exc"}:
                            starts.append(j)
                leak = None
                for st in starts:
                    if st in rids:
                        continue
                    p = cfg.find_path([st], [EXIT, EXC], avoid_ids=rids) if st not in (EXIT, EXC) else [st]
                    if p:
                        leak = [st] + p if p[0] != st else p
                        break
                if leak:
                    how = "an exception" if leak[-1] == EXC else "a return"
                    ctx.fail("R15a", fi, restores[0], "`%s` is overwritten at line %d and restored at line %d, but %s on the path %s leaves %s without the restore: the caller's project keeps the temporary value" % (chain, m.lineno, restores[0].lineno, how, cfg.describe_path(leak), fi.qualname), extra={"path": cfg.describe_path(leak)})
                else:
                    ctx.ok("R15a", fi, "`%s` restored on every exit after the overwrite at line %d" % (chain, m.lineno), restores[0])
    ctx.require(n >= 2, "R15a: fewer save/overwrite/restore instances (%d) than confirmed (2: calibration.calibrate, Project.run_optimization)" % n)


def r15b(ctx, repo):
    ctx.rule("R15b", "the restore really restores: the sim_end setter is idempotent on values it produced (no ceil directly on the raw quotient by the step)")
    se = repo.func("project", "ProjectSettings.sim_end", setter=True)
    n = discretise.check_function(ctx, repo, se, "R15b", "restored end year", follow_helpers=True, require_site=True)
    ctx.require(n >= 1, "R15b: no discretisation site found in the sim_end setter")


MUTATING_HELPERS = [("calibration", "_update_parset", "parset"), ("reconciliation", "_update_progset", "progset")]
ENTRY_POINTS = [
    ("calibration", "calibrate", ["parset"]),
    ("calibration", "_calculate_objective", []),
    ("optimization", "optimize", ["parset", "progset", "instructions"]),
    ("reconciliation", "reconcile", ["parset", "progset"]),
    ("reconciliation", "_convert_to_single_year", ["progset"]),
    ("project", "Project.calibrate", ["parset"]),
    ("optimization", "Optimization.get_hard_constraints", ["instructions"]),
    ("optimization", "Optimization.get_baselines", []),
    ("optimization", "Optimization.get_initialization", ["progset", "instructions"]),
]


def r15c(ctx, repo, T, cg, E):
    ctx.rule("R15c", "work on copies: the entry points do not definitely mutate the caller's parset/progset/instructions; objects handed to the mutating helpers are copies")
    for m, q, who in MUTATING_HELPERS:
        fi = repo.func(m, q)
        ctx.require(E.mutates(fi, who), "R15c: positive control failed: %s.%s is known to mutate `%s`" % (m, q, who))
    n = 0
    for m, q, params in ENTRY_POINTS:
        if not repo.has_func(m, q):
            raise AnalysisError("R15c: entry point %s:%s vanished" % (m, q))
        fi = repo.func(m, q)
        for p in params:
            ctx.require(p in fi.params, "R15c: %s lost its `%s` parameter" % (q, p))
            n += 1
            muts = E.mutates(fi, p)
            if muts:
                chain = E.explain(fi, p)
                ctx.fail("R15c", fi, fi.node, "`%s` mutates the caller's `%s`: %s" % (q, p, "  ->  ".join(chain)), stmt_text="mutates:%s:%s" % (p, chain[-1].split(" ", 1)[-1] if chain else ""), extra={"path": chain})
            else:
                ctx.ok("R15c", fi, "`%s` is not mutated along any resolved call path" % p)
    ctx.require(n >= 9, "R15c: fewer (entry point, input) pairs (%d) than confirmed (9)" % n)
    # calibrate hands a copy to the optimiser
    cal = repo.func("calibration", "calibrate")
    dl = E._dict_literals(cal, "args")
    ctx.require(dl is not None, "R15c: `args` dict literal not found in calibrate (unrecognised shape)")
    vals = [v for k, v in dl if isinstance(k, ast.Constant) and k.value == "parset"]
    ctx.require(len(vals) == 1, "R15c: args['parset'] not found in calibrate")
    v = vals[0]

    def copy_of_parset(e, depth=0):
        if isinstance(e, ast.Call):
            return (isinstance(e.func, ast.Attribute) and e.func.attr in ("copy", "__deepcopy__") and astq.is_name(e.func.value, "parset")) or (ast.unparse(e.func) in COPY_CALLS and bool(e.args) and astq.is_name(e.args[0], "parset"))
        if isinstance(e, ast.Name) and e.id != "parset" and depth < 2:
            binds = [s.value for s in own_nodes(cal.node) if isinstance(s, ast.Assign) and any(astq.is_name(t, e.id) for t in s.targets)]
            return bool(binds) and all(copy_of_parset(b, depth + 1) for b in binds)
        return False

    is_copy = copy_of_parset(v)
    ctx.check(is_copy, "R15c", cal, enclosing_stmt(v), "the optimiser works on parset.copy()", "calibrate hands `%s` to the objective function, which writes y-factors into it at every evaluation: the caller's parameter set is modified" % ast.unparse(v))
    # ParameterSet.copy is a deep copy
    pc = repo.find_method(repo.cls("parameters", "ParameterSet"), "copy")
    ctx.require(pc is not None, "R15c: ParameterSet has no copy() in its class hierarchy")
    ctx.check(any(isinstance(c, ast.Call) and ast.unparse(c.func) in COPY_CALLS for c in own_nodes(pc.node)), "R15c", pc, pc.node, "ParameterSet.copy is a deep copy", "ParameterSet.copy no longer deep-copies")
    # reconcile: the progset handed to the optimiser and to _update_progset is the converted copy
    rec = repo.func("reconciliation", "reconcile")
    conv = repo.func("reconciliation", "_convert_to_single_year")
    cp = [s for s in own_nodes(conv.node) if isinstance(s, ast.Assign) and isinstance(s.value, ast.Call) and ast.unparse(s.value.func) in COPY_CALLS and s.value.args and astq.is_name(s.value.args[0], "progset")]
    rets = [r for r in own_nodes(conv.node) if isinstance(r, ast.Return)]
    ctx.check(bool(cp) and all(isinstance(r.value, ast.Name) and r.value.id == cp[0].targets[0].id for r in rets), "R15c", conv, cp[0] if cp else conv.node, "_convert_to_single_year returns a deep copy", "_convert_to_single_year does not return a deep copy of the program set: reconciliation edits the caller's program book")
    newp = [s for s in own_nodes(rec.node) if isinstance(s, ast.Assign) and "_convert_to_single_year(" in ast.unparse(s.value) and isinstance(s.targets[0], ast.Name)]
    ctx.require(len(newp) == 1, "R15c: reconcile does not call _convert_to_single_year exactly once")
    np_name = newp[0].targets[0].id
    dl = E._dict_literals(rec, "args")
    pv = [v for k, v in (dl or []) if isinstance(k, ast.Constant) and k.value == "progset"]
    ctx.check(len(pv) == 1 and astq.is_name(pv[0], np_name), "R15c", rec, enclosing_stmt(pv[0]) if pv else rec.node, "the optimiser works on the converted copy", "reconcile hands `%s` to the objective, which edits unit costs and outcomes in it" % (ast.unparse(pv[0]) if pv else "?"))
    ups = [c for c in own_nodes(rec.node) if isinstance(c, ast.Call) and astq.is_name(c.func, "_update_progset")]
    for c in ups:
        ctx.check(len(c.args) >= 3 and astq.is_name(c.args[2], np_name), "R15c", rec, enclosing_stmt(c), "the final update is applied to the copy", "reconcile applies the optimised values to `%s`" % (ast.unparse(c.args[2]) if len(c.args) >= 3 else "?"))
    # optimize: everything that is updated/constrained is rooted at the freshly built model
    op = repo.func("optimization", "optimize")
    for c in own_nodes(op.node):
        if isinstance(c, ast.Call) and isinstance(c.func, ast.Attribute) and c.func.attr in ("update_instructions", "constrain_instructions"):
            arg = c.args[1] if c.func.attr == "update_instructions" and len(c.args) > 1 else (c.args[0] if c.args else None)
            ctx.check(arg is not None and ast.unparse(arg) == "model.program_instructions", "R15c", op, enclosing_stmt(c), "%s applied to the model's own copy of the instructions" % c.func.attr, "optimize() applies %s to `%s`, not to the model's private copy of the instructions" % (c.func.attr, ast.unparse(arg) if arg is not None else "?"))
    of = repo.func("optimization", "_objective_fcn")
    loads = [s for s in own_nodes(of.node) if isinstance(s, ast.Assign) and "pickle.loads(" in ast.unparse(s.value)]
    ctx.check(bool(loads), "R15c", of, loads[0] if loads else of.node, "every evaluation starts from a fresh unpickled model", "_objective_fcn no longer unpickles a fresh model per evaluation: state leaks from one evaluation to the next")


NAME_SUFFIXES = ("_name", "_names", "_label", "_labels")


def _is_name_bearing(e):
    """Collections/values that hold strings by this repo's naming convention."""
    last = None
    if isinstance(e, ast.Attribute):
        last = e.attr
    elif isinstance(e, ast.Name):
        last = e.id
    return last is not None and last.endswith(NAME_SUFFIXES)


def r15d(ctx, repo, T):
    ctx.rule("R15d", "name-vs-object: no `in` / `not in` / `==` / `!=` between an instance of a repo class that defines no __eq__ and a name-bearing collection (identifiers ending in _name(s)/_label(s))")
    n_cmp = 0
    for fi in repo.all_functions():
        for c in own_nodes(fi.node):
            if not (isinstance(c, ast.Compare) and len(c.ops) == 1 and isinstance(c.ops[0], (ast.In, ast.NotIn, ast.Eq, ast.NotEq))):
                continue
            l, r = c.left, c.comparators[0]
            pairs = [(l, r)] if isinstance(c.ops[0], (ast.In, ast.NotIn)) else [(l, r), (r, l)]
            for obj, names in pairs:
                if not _is_name_bearing(names):
                    continue
                n_cmp += 1
                t = T.type_at(obj, fi, c)
                if not is_inst(t):
                    continue
                classes = T.classes_of(t)
                no_eq = classes and all(repo.find_method(ci, "__eq__") is None and not ci.external_bases for ci in classes)
                if no_eq:
                    ctx.fail("R15d", fi, enclosing_stmt(c), "`%s` compares a %s object with `%s`, which holds names: objects of that class compare by identity, so `in` is always False and `not in` always True - the selection it implements is silently empty (or rejects everything)" % (ast.unparse(c), "/".join(ci.name for ci in classes), ast.unparse(names)))
    ctx.require(n_cmp >= 10, "R15d: fewer comparisons against name-bearing collections (%d) than confirmed (>= 10)" % n_cmp)
    ctx.ok("R15d", "atomica/*", "%d comparisons against name-bearing collections examined" % n_cmp)
    # the objective iterates the model's populations and filters by the requested names
    fi = repo.func("optimization", "Measurable.get_objective_val")
    tests = [c for c in own_nodes(fi.node) if isinstance(c, ast.Compare) and isinstance(c.ops[0], (ast.In, ast.NotIn)) and ast.unparse(c.comparators[0]).endswith(".pop_names")]
    ctx.require(tests, "R15d: population filter not found in Measurable.get_objective_val")
    for c in tests:
        t = T.type_at(c.left, fi, c)
        ctx.check(t is not None and t == ("B", "str") or (isinstance(c.left, ast.Attribute) and c.left.attr == "name"), "R15d", fi, enclosing_stmt(c), "population filter compares names", "the population filter `%s` does not compare a population *name* with the requested names" % ast.unparse(c))


def thorough(ctx):
    from . import sweeps

    T, cg, E = engines(ctx.repo)
    sweeps.effect_overview(ctx, ctx.repo, E)
    sweeps.discretisation_sweep(ctx, ctx.repo, "R15b")


def index_lookups(fi):
    """(stmt, compare node) for  np.where(<cmp>)[0][0]  and friends"""
    out = []
    for n in own_nodes(fi.node):
        if isinstance(n, ast.Subscript) and isinstance(n.value, ast.Subscript) and isinstance(n.value.value, ast.Call) and ast.unparse(n.value.value.func) in ("np.where", "np.nonzero", "np.flatnonzero", "np.argwhere") and n.value.value.args and isinstance(n.value.value.args[0], ast.Compare):
            if astq.is_const(n.slice, 0) and astq.is_const(n.value.slice, 0):
                out.append((enclosing_stmt(n), n.value.value.args[0]))
    return out


def r15e(ctx, repo):
    ctx.rule("R15e", "per-year bounds: position lookups in TotalSpendConstraint.get_hard_constraint are equality matches on the year, and the hard bounds of a program in year t come from the adjustable at that position")
    fi = repo.func("optimization", "TotalSpendConstraint.get_hard_constraint")
    looks = index_lookups(fi)
    ctx.require(len(looks) >= 2, "R15e: fewer year-position lookups (%d) in get_hard_constraint than confirmed (2)" % len(looks))
    for st, cmp_ in looks:
        ok = len(cmp_.ops) == 1 and isinstance(cmp_.ops[0], ast.Eq)
        ctx.check(ok, "R15e", fi, st, "`%s` is an exact match" % ast.unparse(cmp_), "`%s` takes the first position where `%s` holds, which need not be the position of year t: the bounds (or total) of another year are applied, so an optimised allocation can leave the bounds the caller gave for that year" % (norm(st)[:60], ast.unparse(cmp_)))
    adj = [s_ for s_ in own_nodes(fi.node) if isinstance(s_, ast.Assign) and isinstance(s_.targets[0], ast.Name) and isinstance(s_.value, ast.Subscript) and ast.unparse(s_.value.value).endswith(".adjustables")]
    ctx.require(bool(adj), "R15e: selection of the adjustable by position not found in get_hard_constraint")
    for s_ in adj:
        ctx.check(isinstance(s_.value.slice, ast.Name) and s_.value.slice.id == "idx", "R15e", fi, s_, "adjustable selected by the year's position", "`%s`: the adjustable whose bounds are used is not selected by the position of year t" % norm(s_)[:60])
    same = [cmp_ for st, cmp_ in looks if ast.unparse(cmp_.left).endswith("adjustment.t") or ast.unparse(cmp_.comparators[0]).endswith("adjustment.t")]
    ctx.check(bool(same), "R15e", fi, fi.node, "the position is looked up in the adjustment's own year list", "the year position is not looked up in the adjustment's own list of years", stmt_text="lookup-in-adjustment.t")
    others = 0
    for f in repo.all_functions():
        if f.fq == fi.fq:
            continue
        for st, cmp_ in index_lookups(f):
            others += 1
            if not (len(cmp_.ops) == 1 and isinstance(cmp_.ops[0], ast.Eq)):
                ctx.note("R15e", "%s:%d %s looks a position up with `%s`" % (f.module.relpath, st.lineno, f.qualname, ast.unparse(cmp_)))
    ctx.extra["exact_position_lookups_elsewhere"] = others


OPT_FAMILIES = ["Adjustable", "Adjustment", "Measurable", "Constraint", "Optimization"]


def _idempotent_default(s_, me):
    """self.X = self.X if self.X is not None else <constant>   (None -> default; depends on nothing but the attribute itself)"""
    if not (isinstance(s_, ast.Assign) and len(s_.targets) == 1 and isinstance(s_.targets[0], ast.Attribute) and astq.is_name(s_.targets[0].value, me)):
        return False
    a = ast.unparse(s_.targets[0])
    v = s_.value
    if isinstance(v, ast.IfExp) and ast.unparse(v.body) == a and ast.unparse(v.test) == "%s is not None" % a:
        return not any(isinstance(x, ast.Name) and x.id not in ("np", "numpy", "inf", "math") for x in ast.walk(v.orelse))
    return False


def r15f(ctx, repo, E):
    ctx.rule("R15f", "the optimisation problem object is not a scratch pad: no method of the Adjustable / Adjustment / Measurable / Constraint / Optimization families other than __init__ definitely mutates self (or the adjustables it owns), so a second optimize() with the same object starts from the instructions it is given, not from values remembered from the first; the only exception is the idempotent None -> default normalisation of an attribute")
    fams = []
    for name in OPT_FAMILIES:
        ci = repo.cls("optimization", name)
        fams += repo.subclasses(ci)
    seen = set()
    n = 0
    for ci in fams:
        for mname, fi in ci.methods.items():
            if fi.fq in seen or mname in ("__init__", "__setstate__") or not fi.params:
                continue
            seen.add(fi.fq)
            n += 1
            me = fi.params[0]
            muts = E.mutates(fi, me)
            if not muts:
                ctx.ok("R15f", fi, "%s does not mutate self" % fi.qualname)
                continue
            own = [s_ for s_ in own_nodes(fi.node) if isinstance(s_, (ast.Assign, ast.AugAssign))]
            lines = {m[0] for m in muts}
            offending = [s_ for s_ in own if s_.lineno in lines and not _idempotent_default(s_, me)]
            via_call = [m for m in muts if not any(s_.lineno == m[0] for s_ in own)]
            if not offending and not via_call:
                ctx.ok("R15f", fi, "%s only normalises None to a default (idempotent)" % fi.qualname)
                continue
            site = offending[0] if offending else fi.node
            why = " <- ".join(E.explain(fi, me)[:3])
            ctx.fail("R15f", fi, site, "%s writes to the optimisation problem object (%s): the value is remembered across optimize() calls, so a later call with other instructions starts from, bounds itself around and constrains its total to the earlier call's allocation - it can end worse than the starting point it was given" % (fi.qualname, why[:200]))
    ctx.require(n >= 30, "R15f: fewer methods of the optimisation families examined (%d) than confirmed (30)" % n)
