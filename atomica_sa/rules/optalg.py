"""
Rules for the optimisation arithmetic (added after the mutation sweep over optimization.py, where 230 of 252 generic
mutants survived): scaling algebra of the constrained rescaling, the definition of the objective, the evaluation
pipeline, how proposed values reach the instructions.  Shared by C14 and C15.
"""
import ast

from ..core.loader import AnalysisError, own_nodes, norm, enclosing_stmt
from ..core import astq
from ..core import algebra as A
from ..core import boolx as B
from ..core.cfg import guards_of, ENTRY, EXIT
from . import common as K
from . import flowalg


def own_guard(st):
    """[(test, polarity)] of the if statement directly enclosing ``st`` (no outer conditions, no earlier early exits)."""
    p = getattr(st, "_parent", None)
    if isinstance(p, ast.If):
        if any(st is x for x in p.body):
            return [(p.test, True)]
        if any(st is x for x in p.orelse):
            return [(p.test, False)]
    return []


def _assigned_once(fi, name):
    a = [s for s in own_nodes(fi.node) if isinstance(s, ast.Assign) and len(s.targets) == 1 and ast.unparse(s.targets[0]) == name]
    return a[0] if len(a) == 1 else None


def _same(e, text, env=None):
    try:
        return A.poly(e, env) == A.poly(A.parse(text), env)
    except A.NotPolynomial:
        return False


def rescale_algebra(ctx, repo, rule):
    ctx.rule(rule, "scaling algebra of constrain_sum_bounded(x, s, lb, ub): the proposal is normalised by its own sum, both bounds are divided by the target s, the solver works on the unit simplex (sum(x) - 1 = 0 within [lb/s, ub/s], (lower, upper) order) and every returned vector is multiplied back by s; the solver's failure test is `not res['success']`")
    fi = repo.func("optimization", "constrain_sum_bounded")
    x, s, lb, ub = fi.params[:4]
    want = {"x0_scaled": "%s / (%s.sum() or 1)" % (x, x), "lb_scaled": "%s / %s" % (lb, s), "ub_scaled": "%s / %s" % (ub, s)}
    for name, formula in want.items():
        a = _assigned_once(fi, name)
        ok = a is not None and (_same(a.value, formula) or (name == "x0_scaled" and ast.unparse(a.value) in ("%s / (%s.sum() or 1)" % (x, x), "%s / (np.sum(%s) or 1)" % (x, x))))
        ctx.check(ok, rule, fi, a if a is not None else fi.node, "%s = %s" % (name, formula), "`%s` is not %s = %s: the comparison with the bounds and the solver then work on quantities in different units, so the returned allocation can violate a bound or the total while every check inside the function passes" % (norm(a)[:70] if a is not None else name, name, formula), stmt_text="scale:%s" % name)
    rets = [r for r in own_nodes(fi.node) if isinstance(r, ast.Return) and r.value is not None and not any(isinstance(p, (ast.FunctionDef, ast.Lambda)) and p is not fi.node for p in _parents(r, fi.node))]
    for r in rets:
        v = r.value
        if isinstance(v, ast.Name):
            a = _assigned_once(fi, v.id)
            v = a.value if a is not None else v
        ok = _same(v, "x0_scaled * %s" % s) or _same(v, "np.minimum(np.maximum(res['x'], lb_scaled), ub_scaled) * %s" % s) or _same(v, "np.clip(res['x'], lb_scaled, ub_scaled) * %s" % s)
        ctx.check(ok, rule, fi, r, "returned vector is a unit-simplex vector times s", "`%s` (value `%s`) is not a normalised vector multiplied back by the target total: the returned amounts do not sum to the required total" % (norm(r)[:50], ast.unparse(v)[:80]))
    b = _assigned_once(fi, "bounds")
    ok = b is not None and isinstance(b.value, ast.ListComp) and ast.unparse(b.value.generators[0].iter) == "zip(lb_scaled, ub_scaled)" and isinstance(b.value.elt, ast.Tuple) and [ast.unparse(e) for e in b.value.elt.elts] == [ast.unparse(t) for t in b.value.generators[0].target.elts]
    ctx.check(ok, rule, fi, b if b is not None else fi.node, "solver bounds = (lower, upper) pairs of the scaled bounds", "the bounds handed to the solver are not the (lower, upper) pairs of lb_scaled / ub_scaled", stmt_text="solver-bounds")
    lc = _assigned_once(fi, "LinearConstraint")
    ok = False
    if lc is not None:
        for d in ast.walk(lc.value):
            if isinstance(d, ast.Dict):
                kv = {k.value: v for k, v in zip(d.keys, d.values) if isinstance(k, ast.Constant)}
                if isinstance(kv.get("type"), ast.Constant) and kv["type"].value == "eq" and isinstance(kv.get("fun"), ast.Lambda):
                    arg = kv["fun"].args.args[0].arg
                    ok = _same(kv["fun"].body, "np.sum(%s) - 1" % arg)
    ctx.check(ok, rule, fi, lc if lc is not None else fi.node, "equality constraint sum(x) - 1 = 0", "the solver's equality constraint is not sum(x) - 1 = 0 on the normalised vector", stmt_text="solver-eq")
    mz = [c for c in own_nodes(fi.node) if isinstance(c, ast.Call) and ast.unparse(c.func).endswith("minimize")]
    ok = len(mz) == 1 and astq.kwarg(mz[0], "bounds") is not None and ast.unparse(astq.kwarg(mz[0], "bounds")) == "bounds" and astq.kwarg(mz[0], "constraints") is not None and ast.unparse(astq.kwarg(mz[0], "constraints")) == "LinearConstraint" and len(mz[0].args) >= 2 and ast.unparse(mz[0].args[1]) == "x0_scaled"
    ctx.check(ok, rule, fi, enclosing_stmt(mz[0]) if mz else fi.node, "solver receives the bounds, the equality constraint and the normalised start", "scipy.optimize.minimize is not called with bounds=bounds, constraints=LinearConstraint and the normalised proposal as start", stmt_text="solver-call")
    # failure test polarity
    rn = None
    for s_ in own_nodes(fi.node):
        if isinstance(s_, ast.Assign) and mz and s_.value is mz[0] and isinstance(s_.targets[0], ast.Name):
            rn = s_.targets[0].id
    raises = [r for r in own_nodes(fi.node) if isinstance(r, ast.Raise) and r.exc is not None and "FailedConstraint" in ast.unparse(r.exc)]
    raises = [r for r in raises if any("%s['success']" % rn in ast.unparse(t) for t, pol in own_guard(r))] if rn else []
    ok = bool(rn) and len(raises) == 1 and B.equivalent(B.cond(own_guard(raises[0])), B.parse_cond("not %s['success']" % rn))
    ctx.check(ok, rule, fi, raises[0] if raises else fi.node, "FailedConstraint raised exactly when the solver did not succeed", "FailedConstraint is not raised exactly when `not %s['success']`: a failed solve is returned as an allocation, or every successful one is rejected" % (rn or "res"), stmt_text="solver-failure-test")


def _parents(n, stop):
    out = []
    p = getattr(n, "_parent", None)
    while p is not None and p is not stop:
        out.append(p)
        p = getattr(p, "_parent", None)
    return out


def required_total(ctx, repo, rule):
    ctx.rule(rule, "the required total of a constrained year is the sum of what the constrained programs spend in that year (instructions, package totals) times the budget factor, or the total given by the caller; the feasibility sums of lower / upper bounds start at zero and add")
    fi = repo.func("optimization", "TotalSpendConstraint.get_hard_constraint")
    flowalg.accumulator_rule(ctx, repo, rule, [("optimization", "TotalSpendConstraint.get_hard_constraint")], 6, "the spending totals of the total-spend constraint")
    st = [s for s in own_nodes(fi.node) if isinstance(s, ast.Assign) and isinstance(s.targets[0], ast.Subscript) and "['initial_total_spend']" in ast.unparse(s.targets[0]) and isinstance(s.targets[0].value, ast.Subscript)]
    ctx.require(len(st) >= 2, "%s: stores of the required total per year not found" % rule)
    me = K.self_name(fi)
    for s in st:
        ok = _same(s.value, "total_spend * %s.budget_factor[idx]" % me) or _same(s.value, "total_spend * %s.budget_factor" % me)
        ctx.check(ok, rule, fi, s, "required total = total spend x budget factor", "`%s` is not total_spend * self.budget_factor[...]: the total that the rescaled allocation must meet is not the documented one" % norm(s)[:90])
    ts = [s for s in own_nodes(fi.node) if isinstance(s, ast.Assign) and astq.is_name(s.targets[0], "total_spend")]
    forms = set()
    for s in ts:
        t = ast.unparse(s.value)
        forms.add("zero" if t in ("0", "0.0") else ("given" if t == "%s.total_spend[idx]" % me else t))
    ctx.check(forms == {"zero", "given"}, rule, fi, ts[0] if ts else fi.node, "total spend = the caller's total for that year, or the sum of the constrained programs' spending", "total_spend is bound to %s, expected the caller's total (self.total_spend[idx]) or a sum starting at 0" % sorted(forms), stmt_text="required-total-forms")


def objective_definition(ctx, repo, rule):
    ctx.rule(rule, "the objective is the documented sum: Optimization.compute_objective adds measurable.eval(model, baseline) for every (measurable, baseline) pair starting from zero; Measurable.eval = weight * get_objective_val; get_objective_val sums the output over the requested populations (all, or those named) and over the requested time (one year: model.t == t, range: t0 <= model.t < t1), links annualised by their dt")
    co = repo.func("optimization", "Optimization.compute_objective")
    flowalg.accumulator_rule(ctx, repo, rule, [("optimization", "Optimization.compute_objective"), ("optimization", "Measurable.get_objective_val")], 5, "the optimisation objective")
    me = K.self_name(co)
    lp = [l for l in own_nodes(co.node) if isinstance(l, ast.For)]
    ok = len(lp) == 1 and ast.unparse(lp[0].iter) == "zip(%s.measurables, %s)" % (me, co.params[2]) and len(lp[0].body) == 1 and isinstance(lp[0].body[0], ast.AugAssign) and isinstance(lp[0].target, ast.Tuple) and ast.unparse(lp[0].body[0].value) == "%s.eval(%s, %s)" % (ast.unparse(lp[0].target.elts[0]), co.params[1], ast.unparse(lp[0].target.elts[1]))
    rets = [r for r in own_nodes(co.node) if isinstance(r, ast.Return)]
    ok = ok and len(rets) == 1 and ast.unparse(rets[0].value) == ast.unparse(lp[0].body[0].target)
    ctx.check(ok, rule, co, lp[0] if lp else co.node, "objective = sum over measurables of eval(model, baseline)", "Optimization.compute_objective is not `objective += measurable.eval(model, baseline)` over zip(self.measurables, baselines), returned as it is", stmt_text="objective-sum")
    ev = repo.func("optimization", "Measurable.eval")
    mev = K.self_name(ev)
    rets = [r for r in own_nodes(ev.node) if isinstance(r, ast.Return)]
    ok = len(rets) == 1 and _same(rets[0].value, "%s.weight * %s.get_objective_val(%s, %s)" % (mev, mev, ev.params[1], ev.params[2]))
    ctx.check(ok, rule, ev, rets[0] if rets else ev.node, "eval = weight * objective value", "Measurable.eval does not return self.weight * self.get_objective_val(model, baseline)")
    gv = repo.func("optimization", "Measurable.get_objective_val")
    mg = K.self_name(gv)
    model = gv.params[1]
    tf = [s for s in own_nodes(gv.node) if isinstance(s, ast.Assign) and astq.is_name(s.targets[0], "t_filter")]
    forms = {}
    for s in tf:
        g = B.cond(guards_of(s))
        if B.equivalent(g, B.parse_cond("len(%s.t) == 1" % mg)):
            forms["single"] = s
        elif B.equivalent(g, B.parse_cond("not (len(%s.t) == 1)" % mg)):
            forms["range"] = s
    ok1 = "single" in forms and ast.unparse(forms["single"].value) in ("%s.t == %s.t" % (model, mg), "%s.t == %s.t" % (mg, model))
    ctx.check(ok1, rule, gv, forms.get("single", gv.node), "single year: model.t == t", "for a single requested year the time filter is not `model.t == self.t`", stmt_text="tfilter-single")
    ok2 = False
    if "range" in forms and isinstance(forms["range"].value, ast.BinOp) and isinstance(forms["range"].value.op, ast.BitAnd):
        parts = sorted(ast.unparse(x) for x in (forms["range"].value.left, forms["range"].value.right))
        ok2 = parts == sorted(["%s.t >= %s.t[0]" % (model, mg), "%s.t < %s.t[1]" % (model, mg)])
    ctx.check(ok2, rule, gv, forms.get("range", gv.node), "range: t0 <= model.t < t1", "for a range of years the time filter is not `(model.t >= self.t[0]) & (model.t < self.t[1])`: the objective sums other years than those requested", stmt_text="tfilter-range")
    # every accumulation uses the time filter; links are annualised
    adds = [s for s in own_nodes(gv.node) if isinstance(s, ast.AugAssign) and astq.is_name(s.target, "val")]
    for s in adds:
        link = any(pol and "isinstance(var, Link)" in ast.unparse(t) for t, pol in guards_of(s))
        want = "np.sum(var.vals[t_filter] / var.dt)" if link else "np.sum(var.vals[t_filter])"
        ctx.check(ast.unparse(s.value) == want, rule, gv, s, "adds %s" % want, "`%s` does not add %s" % (norm(s), want))
    # population selection
    skips = [c for c in own_nodes(gv.node) if isinstance(c, ast.Continue)]
    named = [c for c in skips if any("pop_names" in ast.unparse(t) for t, pol in guards_of(c)) and not any(isinstance(p_, ast.ExceptHandler) for p_ in _parents(c, gv.node))]
    lp = [l for l in own_nodes(gv.node) if isinstance(l, ast.For) and ast.unparse(l.iter) == "%s.pops" % model]
    ok = len(lp) == 1 and len(named) == 1 and B.equivalent(B.cond(guards_of(named[0], stop=lp[0])), B.parse_cond("%s.pop_names and not (pop.name in %s.pop_names)" % (mg, mg)))
    ctx.check(ok, rule, gv, named[0] if named else gv.node, "a population is left out exactly when populations were named and it is not among them", "the population filter of the objective does not skip exactly the populations that were not requested", stmt_text="pop-filter")


def evaluation_pipeline(ctx, repo, rule):
    ctx.rule(rule, "every evaluation and the returned result go through the same pipeline: in _objective_fcn the proposal is written into the private model's instructions, then constrained, then the model is run, then the objective computed from that model; in optimize() the optimal vector is written into the instructions and constrained before the instructions are returned")
    of = repo.func("optimization", "_objective_fcn")
    cfg = K.cfg(repo, of, raise_model="calls")

    def stmt_of(pred):
        return [s for s in own_nodes(of.node) if isinstance(s, (ast.Expr, ast.Assign, ast.Return)) and s.value is not None and pred(ast.unparse(s.value))]

    chain = [
        ("unpickle the private model", lambda t: t.startswith("pickle.loads(")),
        ("write the proposal into the model's instructions", lambda t: t == "%s.update_instructions(%s, model.program_instructions)" % (of.params[2], of.params[0])),
        ("constrain the instructions", lambda t: t == "%s.constrain_instructions(model.program_instructions, %s)" % (of.params[2], of.params[3])),
        ("run the model", lambda t: t == "model.process()"),
        ("compute the objective from that model", lambda t: t == "%s.compute_objective(model, %s)" % (of.params[2], of.params[4])),
    ]
    prev = None
    for what, pred in chain:
        st = stmt_of(pred)
        if len(st) != 1:
            ctx.fail(rule, of, of.node, "_objective_fcn: step '%s' not found (or duplicated): the value the optimiser sees is not the objective of the proposed, constrained allocation" % what, stmt_text="pipeline:%s" % what)
            prev = None
            continue
        if prev is not None:
            ctx.check(cfg.dominates(prev, st[0]), rule, of, st[0], "'%s' comes after the previous step on every path" % what, "_objective_fcn: '%s' is not preceded on every path by the previous step of the pipeline" % what, stmt_text="pipeline-order:%s" % what)
        prev = st[0]
    rets = [r for r in own_nodes(of.node) if isinstance(r, ast.Return) and r.value is not None and ast.unparse(r.value) not in ("np.inf",)]
    ok = len(rets) == 1 and prev is not None and ((isinstance(prev, ast.Assign) and ast.unparse(rets[0].value) == ast.unparse(prev.targets[0])) or prev is rets[0])
    ctx.check(ok, rule, of, rets[0] if rets else of.node, "the computed objective is returned", "_objective_fcn does not return the objective it computed", stmt_text="pipeline-return")
    op = repo.func("optimization", "optimize")
    cfg = K.cfg(repo, op)
    upd = [s for s in own_nodes(op.node) if isinstance(s, ast.Expr) and ast.unparse(s.value) == "%s.update_instructions(x_opt, model.program_instructions)" % op.params[1]]
    con = [s for s in own_nodes(op.node) if isinstance(s, ast.Expr) and ast.unparse(s.value).startswith("%s.constrain_instructions(model.program_instructions, " % op.params[1])]
    rets = [r for r in own_nodes(op.node) if isinstance(r, ast.Return) and r.value is not None]
    ok = len(upd) == 1 and len(con) == 1 and len(rets) == 1 and ast.unparse(rets[0].value) == "model.program_instructions" and cfg.dominates(upd[0], con[0]) and cfg.dominates(con[0], rets[0])
    ctx.check(ok, rule, op, rets[0] if rets else op.node, "optimal vector applied, then constrained, then returned", "optimize() does not write the optimal vector into the instructions and constrain them before returning them: the caller gets an allocation that was never checked against the total or the bounds (or the starting allocation)", stmt_text="optimize-final")
    init = [s for s in own_nodes(op.node) if isinstance(s, ast.Assign) and astq.is_name(s.targets[0], "initial_objective")]
    chk = [r for r in own_nodes(op.node) if isinstance(r, ast.Raise) and r.exc is not None and "InvalidInitialConditions" in ast.unparse(r.exc)]
    ok = len(init) == 1 and len(chk) == 1 and B.equivalent(B.cond(own_guard(chk[0])), B.parse_cond("not np.isfinite(initial_objective)"))
    ctx.check(ok, rule, op, chk[0] if chk else op.node, "a non-finite initial objective refuses to start", "optimize() does not raise InvalidInitialConditions exactly when the initial objective is not finite", stmt_text="initial-finite")


def proposal_application(ctx, repo, rule):
    ctx.rule(rule, "each proposed value reaches its own adjustable: Optimization.update_instructions hands consecutive, non-overlapping blocks asd_values[idx : idx + n] to the adjustments (idx starts at 0 and advances by n); SpendingAdjustment.update_instructions writes value i at year t_i of its own program; Adjustable.get_hard_bounds returns the bound itself for absolute limits and x0 * bound for relative ones")
    fi = repo.func("optimization", "Optimization.update_instructions")
    me = K.self_name(fi)
    vals, ins = fi.params[1], fi.params[2]
    lp = [l for l in own_nodes(fi.node) if isinstance(l, ast.For) and ast.unparse(l.iter) == "%s.adjustments" % me]
    ok = len(lp) == 1 and isinstance(lp[0].target, ast.Name)
    if ok:
        a = lp[0].target.id
        n = "len(%s.adjustables)" % a
        init = [s for s in own_nodes(fi.node) if isinstance(s, ast.Assign) and astq.is_name(s.targets[0], "idx")]
        call = [s for s in lp[0].body if isinstance(s, ast.Expr) and isinstance(s.value, ast.Call) and ast.unparse(s.value.func) == "%s.update_instructions" % a]
        adv = [s for s in lp[0].body if isinstance(s, ast.AugAssign) and astq.is_name(s.target, "idx")]
        ok = len(init) == 1 and ast.unparse(init[0].value) == "0" and len(call) == 1 and len(adv) == 1 and isinstance(adv[0].op, ast.Add) and ast.unparse(adv[0].value) == n and adv[0].lineno > call[0].lineno
        if ok:
            arg = call[0].value.args[0]
            ok = isinstance(arg, ast.Subscript) and ast.unparse(arg.value) == vals and isinstance(arg.slice, ast.Slice) and ast.unparse(arg.slice.lower) == "idx" and _same(arg.slice.upper, "idx + %s" % n) and ast.unparse(call[0].value.args[1]) == ins
    ctx.check(ok, rule, fi, lp[0] if lp else fi.node, "consecutive blocks of the proposal vector", "Optimization.update_instructions does not hand asd_values[idx : idx + len(adjustables)] to each adjustment with idx starting at 0 and advancing by that length: adjustments receive values meant for others", stmt_text="blocks")
    fi = repo.func("optimization", "SpendingAdjustment.update_instructions")
    me = K.self_name(fi)
    vals, ins = fi.params[1], fi.params[2]
    lp = [l for l in own_nodes(fi.node) if isinstance(l, ast.For) and ast.unparse(l.iter) == "enumerate(%s.t)" % me and isinstance(l.target, ast.Tuple)]
    ok = len(lp) == 1
    if ok:
        i, t = (ast.unparse(x) for x in lp[0].target.elts)
        new = [s for s in ast.walk(lp[0]) if isinstance(s, ast.Assign) and ast.unparse(s.targets[0]) == "%s.alloc[%s.prog_name]" % (ins, me)]
        upd = [c for c in ast.walk(lp[0]) if isinstance(c, ast.Call) and ast.unparse(c.func) == "%s.alloc[%s.prog_name].insert" % (ins, me)]
        ok = len(new) == 1 and len(upd) == 1
        if ok:
            ok = isinstance(new[0].value, ast.Call) and ast.unparse(new[0].value.func) == "TimeSeries" and ast.unparse(astq.kwarg(new[0].value, "t", pos=0)) == t and ast.unparse(astq.kwarg(new[0].value, "vals", pos=1)) == "%s[%s]" % (vals, i)
            ok = ok and [ast.unparse(a) for a in upd[0].args] == [t, "%s[%s]" % (vals, i)] and not upd[0].keywords
            ok = ok and B.equivalent(B.cond(guards_of(new[0], stop=lp[0])), B.parse_cond("not (%s.prog_name in %s.alloc)" % (me, ins))) and B.equivalent(B.cond(guards_of(enclosing_stmt(upd[0]), stop=lp[0])), B.parse_cond("%s.prog_name in %s.alloc" % (me, ins)))
    ctx.check(ok, rule, fi, lp[0] if lp else fi.node, "value i is written at year t_i of the adjustment's program", "SpendingAdjustment.update_instructions does not write adjustable_values[i] at year t_i into instructions.alloc[self.prog_name] (creating the series when the program has none)", stmt_text="spending-write")
    fi = repo.func("optimization", "Adjustable.get_hard_bounds")
    me = K.self_name(fi)
    x0 = fi.params[1]
    for nm, attr in (("xmin", "lower_bound"), ("xmax", "upper_bound")):
        a = _assigned_once(fi, nm)
        ok = a is not None and isinstance(a.value, ast.IfExp) and B.equivalent(B.of(a.value.test), B.parse_cond("%s.limit_type == 'abs'" % me)) and ast.unparse(a.value.body) == "%s.%s" % (me, attr) and _same(a.value.orelse, "%s * %s.%s" % (x0, me, attr))
        ctx.check(ok, rule, fi, a if a is not None else fi.node, "%s = bound (absolute) or x0 * bound (relative)" % nm, "`%s` is not `self.%s if self.limit_type == 'abs' else x0 * self.%s`: the bounds the result must respect are not the ones the caller gave" % (norm(a)[:80] if a is not None else nm, attr, attr), stmt_text="hard-bounds:%s" % nm)
    rets = [r for r in own_nodes(fi.node) if isinstance(r, ast.Return)]
    ctx.check(len(rets) == 1 and ast.unparse(rets[0].value) == "(xmin, xmax)", rule, fi, rets[0] if rets else fi.node, "returns (xmin, xmax)", "Adjustable.get_hard_bounds does not return (xmin, xmax)")


def calibration_objective(ctx, repo, rule):
    ctx.rule(rule, "calibration evaluates what it proposes: _calculate_objective first writes the proposed y-factors into the (private) parameter set, runs it, maps a BadInitialization to +inf, and returns the sum (from zero, added) over the requested outputs of weight * sum(fit score of data vs model at the data years); _update_parset writes factor i to the meta factor for population 'all', to the population's factor otherwise, and to the transfer's factor for '<transfer>_from_<pop>' names")
    fi = repo.func("calibration", "_calculate_objective")
    flowalg.accumulator_rule(ctx, repo, rule, [("calibration", "_calculate_objective")], 2, "the calibration objective")
    cfg = K.cfg(repo, fi)
    upd = [s for s in own_nodes(fi.node) if isinstance(s, ast.Expr) and ast.unparse(s.value) == "_update_parset(%s, %s, %s)" % (fi.params[3], fi.params[0], fi.params[1])]
    run = [s for s in own_nodes(fi.node) if isinstance(s, ast.Assign) and isinstance(s.value, ast.Call) and ast.unparse(s.value.func).endswith(".run_sim") and astq.kwarg(s.value, "parset") is not None and ast.unparse(astq.kwarg(s.value, "parset")) == fi.params[3]]
    ok = len(upd) == 1 and len(run) == 1 and cfg.dominates(upd[0], run[0]) and not guards_of(upd[0])
    ctx.check(ok, rule, fi, run[0] if run else fi.node, "proposal written into the parameter set before the run", "_calculate_objective does not apply the proposed y-factors to the parameter set it then simulates: the optimiser is told the objective of other parameters than those it proposed", stmt_text="calib-apply-then-run")
    hs = [h for h in own_nodes(fi.node) if isinstance(h, ast.ExceptHandler) and h.type is not None and "BadInitialization" in ast.unparse(h.type)]
    ok = len(hs) == 1 and any(isinstance(s, ast.Return) and ast.unparse(s.value) == "np.inf" for s in hs[0].body)
    ctx.check(ok, rule, fi, hs[0] if hs else fi.node, "an impossible initialisation scores +inf", "_calculate_objective does not map BadInitialization to an infinite objective", stmt_text="calib-badinit")
    add = [s for s in own_nodes(fi.node) if isinstance(s, ast.AugAssign) and astq.is_name(s.target, "objective")]
    ok = len(add) == 1 and _same(add[0].value, "weight * sum(_calculate_fitscore(y[idx], y2[idx], metric))")
    ctx.check(ok, rule, fi, add[0] if add else fi.node, "objective += weight * sum(fit score)", "the calibration objective does not add weight * sum(_calculate_fitscore(data, model, metric)) per requested output", stmt_text="calib-term")
    rets = [r for r in own_nodes(fi.node) if isinstance(r, ast.Return) and not any(isinstance(p_, ast.ExceptHandler) for p_ in _parents(r, fi.node))]
    ctx.check(len(rets) == 1 and ast.unparse(rets[0].value) == "objective", rule, fi, rets[0] if rets else fi.node, "the accumulated objective is returned", "_calculate_objective does not return the accumulated objective", stmt_text="calib-return")
    up = repo.func("calibration", "_update_parset")
    ps, yf, adj = up.params[:3]
    lp = [l for l in own_nodes(up.node) if isinstance(l, ast.For) and ast.unparse(l.iter) == "enumerate(%s)" % adj and isinstance(l.target, ast.Tuple)]
    ctx.require(len(lp) == 1, "%s: loop over enumerate(pars_to_adjust) not found in _update_parset" % rule)
    i = ast.unparse(lp[0].target.elts[0])
    stores = [s for s in ast.walk(lp[0]) if isinstance(s, ast.Assign) and ast.unparse(s.value) == "%s[%s]" % (yf, i)]
    kinds = {}
    for s in stores:
        t = ast.unparse(s.targets[0])
        g = B.cond(guards_of(s, stop=lp[0]))
        if t.endswith(".meta_y_factor"):
            kinds["meta"] = B.equivalent(g, B.parse_cond("par_name in %s.pars and pop_name.lower() == 'all'" % ps))
        elif t == "%s.pars[par_name].y_factor[pop_name]" % ps:
            kinds["pop"] = B.equivalent(g, B.parse_cond("par_name in %s.pars and not (pop_name.lower() == 'all')" % ps))
        elif t.endswith(".y_factor[pop_name]"):
            kinds["transfer"] = B.equivalent(g, B.parse_cond("not (par_name in %s.pars)" % ps))
    ok = kinds == {"meta": True, "pop": True, "transfer": True} and len(stores) == 3
    ctx.check(ok, rule, up, lp[0], "factor i goes to the meta / population / transfer factor under the right test", "_update_parset does not write y_factors[i] to exactly one of {meta factor when pop is 'all', the population's factor, the transfer's factor} under the corresponding test (%s): a calibrated value is applied to the wrong quantity or not at all" % kinds, stmt_text="calib-update")
