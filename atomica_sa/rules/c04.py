"""C04 - junctions are always empty and split their inflow by the stated proportions (DESIGN 4, C04)."""
import ast

from ..core.loader import AnalysisError, own_nodes, norm, enclosing_stmt
from ..core import astq, regions as R
from ..core.cfg import guards_of, ENTRY, EXIT
from . import common as K
from . import flowalg
from . import c01

EXPLANATION = (
    "R04a: a junction's stock is written only by fill(0.0) at preallocation or at index 0, update() stores nothing, and initial_flush zeroes the junction on "
    "every path that moved people out of it; R04b: junctions are balanced every step in flow order (shared with C01); R04c: the residual junction's balance() and "
    "initial_flush() agree, region by region of the summed proportions (<1, =1, >1), on when they normalise and when the residual outflow receives the remainder, and "
    "the plain junction divides by the sum of the proportions in both; R04d: the framework validator, the execution-order filter and balance() agree on the "
    "'proportion' unit constant and balance() reads the proportion without conversion; R04e: start-up sequence update_pars -> flush_junctions -> update_pars -> update_links "
    "before the first step.  The split arithmetic and totals through chains are runtime quantities and are not decided."
)


def _shared(ctx, repo):
    from . import c06 as _c06

    ctx.each(_c06.r06m, ctx, repo)  # junction proportions that are functions are flagged for evaluation before they are read


def run(ctx):
    repo = ctx.repo
    T = K.types(repo)
    _shared(ctx, repo)
    ctx.each(r04a, ctx, repo)
    ctx.each(r04b, ctx, repo)
    ctx.each(r04c, ctx, repo)
    ctx.each(r04d, ctx, repo)
    ctx.each(r04e, ctx, repo)
    ctx.each(flowalg.share_rule, ctx, repo, "R04f")
    ctx.each(flowalg.kind_dispatch_rule, ctx, repo, "R04g")
    ctx.rule("R01e", "junction balance passes on all inflow; residual = inflow - sum(other outflows) per row (shared with C01)")
    ctx.each(c01.r01e, ctx, repo, K.types(repo))


def _junction_classes(repo):
    return repo.subclasses(repo.cls("model", "JunctionCompartment"))


def _is_zero(e):
    return isinstance(e, ast.Constant) and e.value in (0, 0.0) and not isinstance(e.value, bool)


def r04a(ctx, repo):
    ctx.rule("R04a", "junction stock: only fill(0.0) in preallocate or a store at constant index 0; update() stores nothing; initial_flush zeroes vals[0] on every path through its body")
    n = 0
    for ci in _junction_classes(repo):
        for name, fi in ci.methods.items():
            me = K.self_name(fi)
            for stmt, tgt, kind, value in astq.stores(fi.node):
                if kind in ("for", "with"):
                    continue
                base = astq.strip_subs(tgt)
                if not (isinstance(base, ast.Attribute) and base.attr in ("vals", "_vals") and astq.is_name(base.value, me)):
                    continue
                n += 1
                ctx.examine()
                if kind == "mut:fill":
                    good = name == "preallocate" and value.args and _is_zero(value.args[0])
                    ctx.check(good, "R04a", fi, stmt, "junction pre-filled with zeros", "junction storage filled with `%s` in %s (must be zeros at preallocation only)" % (ast.unparse(value), fi.qualname))
                elif isinstance(tgt, ast.Subscript) and isinstance(tgt.slice, ast.Constant) and tgt.slice.value == 0 and not isinstance(tgt.slice.value, bool):
                    ctx.ok("R04a", fi, "store at the initial index only", stmt)
                else:
                    ctx.fail("R04a", fi, stmt, "junction stock written at `%s`: after start-up a junction must hold nobody (only index 0 may be set, before the initial flush)" % ast.unparse(tgt))
        if "update" in ci.methods:
            fi = ci.methods["update"]
            ctx.check(K.is_noop(fi) or not any(True for s in astq.stores(fi.node) if s[2] not in ("for", "with")), "R04a", fi, fi.node, "junction update() stores nothing", "JunctionCompartment.update performs stores: a junction's stock must never be stepped forward")
        if "initial_flush" in ci.methods:
            fi = ci.methods["initial_flush"]
            me = K.self_name(fi)
            cfg = K.cfg(repo, fi)
            guards = [s for s in own_nodes(fi.node) if isinstance(s, ast.If) and ("%s.vals[0]" % me) in ast.unparse(s.test) and any("dest[0]" in ast.unparse(x) for x in ast.walk(s))]
            ctx.require(len(guards) == 1, "R04a: %s: guard on self.vals[0] around the flush not found (unrecognised shape)" % fi.fq)
            g = guards[0]
            flush_guard_region(ctx, fi, g, me, "R04a")
            zero = [s for s, t, k, v in astq.stores(fi.node) if k == "assign" and ast.unparse(t) == "%s.vals[0]" % me and _is_zero(v)]
            if not zero:
                ctx.fail("R04a", fi, g, "initial_flush pushes the junction's people downstream but never zeroes the junction: they are duplicated", stmt_text="zero-after-flush")
            else:
                starts = cfg.ids(g.body[0])
                leak = g.body[0] not in zero and cfg.path_exists(starts, [EXIT], avoid_ids=[i for z in zero for i in cfg.ids(z)])
                ctx.check(not leak, "R04a", fi, zero[0], "junction zeroed on every path through the flush", "a path through the flush body reaches the end without zeroing the junction")
    # the zero fill exists: the preallocate() that runs for every junction class zero-fills the stock after the base class allocated it (NaN)
    for ci in _junction_classes(repo):
        pre = repo.find_method(ci, "preallocate")
        if pre is None:
            continue
        me = K.self_name(pre)
        fills = [c for c in own_nodes(pre.node) if isinstance(c, ast.Call) and isinstance(c.func, ast.Attribute) and c.func.attr == "fill" and ast.unparse(c.func.value) == "%s.vals" % me and c.args and _is_zero(c.args[0])]
        sup = [c for c in own_nodes(pre.node) if isinstance(c, ast.Call) and isinstance(c.func, ast.Attribute) and c.func.attr == "preallocate" and c is not None and ("super()" in ast.unparse(c.func.value) or ast.unparse(c.func.value) in ("Compartment", "Variable"))]
        ok = bool(fills) and (not sup or all(f.lineno > sup[0].lineno for f in fills)) and not guards_of(fills[0]) if fills else False
        ctx.check(ok, "R04a", pre, enclosing_stmt(fills[0]) if fills else pre.node, "%s: stock zero-filled at preallocation" % ci.name, "%s.preallocate does not (unconditionally, after the base allocation) fill the junction's stock with zeros: the base class allocates NaN, so every junction 'holds' NaN instead of nobody" % ci.name, stmt_text="junction-zero-fill:%s" % ci.name)
    ctx.require(len(_junction_classes(repo)) >= 2 and n >= 1, "R04a: junction family shrank (classes %d, stock stores %d)" % (len(_junction_classes(repo)), n))


def r04b(ctx, repo):
    ctx.rule("R04b", "every junction is balanced every step, in flow (topological) order; flush_junctions uses the same order")
    ul = repo.func("model", "Model.update_links")
    ok = False
    for l in own_nodes(ul.node):
        if isinstance(l, ast.For) and "_exec_order['junctions']" in ast.unparse(l.iter) and not isinstance(l.iter, ast.Call):
            lv = l.target.id if isinstance(l.target, ast.Name) else None
            ok = any(isinstance(c, ast.Call) and isinstance(c.func, ast.Attribute) and c.func.attr == "balance" and astq.is_name(c.func.value, lv) for c in ast.walk(l))
            ctx.check(ok, "R04b", ul, l, "balance() called on every junction of the execution order", "update_links does not balance every junction of _exec_order['junctions']")
    ctx.require(ok or ctx.findings, "R04b: loop over _exec_order['junctions'] not found in update_links")
    # the balance loop comes after all resolve_outflows (junction inputs are the finalised outflows of ordinary compartments)
    cfg = K.cfg(repo, ul)
    ro = [enclosing_stmt(c) for c in own_nodes(ul.node) if isinstance(c, ast.Call) and isinstance(c.func, ast.Attribute) and c.func.attr == "resolve_outflows"]
    bl = [enclosing_stmt(c) for c in own_nodes(ul.node) if isinstance(c, ast.Call) and isinstance(c.func, ast.Attribute) and c.func.attr == "balance"]
    ctx.require(ro and bl, "R04b: resolve_outflows / balance calls not found in update_links")
    later = not cfg.path_exists([i for b in bl for i in cfg.ids(b)], [i for r in ro for i in cfg.ids(r)])
    ctx.check(later, "R04b", ul, bl[0], "junctions are balanced after all ordinary outflows are resolved", "a junction can be balanced before the outflows of ordinary compartments (its inflow) are resolved")
    c01._junction_order(ctx, repo, "R04b")
    fj = repo.func("model", "Model.flush_junctions")
    good = False
    for l in own_nodes(fj.node):
        if isinstance(l, ast.For) and "_exec_order['junctions']" in ast.unparse(l.iter) and not isinstance(l.iter, ast.Call):
            lv = l.target.id if isinstance(l.target, ast.Name) else None
            fl = [c for c in ast.walk(l) if isinstance(c, ast.Call) and isinstance(c.func, ast.Attribute) and c.func.attr == "initial_flush" and astq.is_name(c.func.value, lv)]
            # ... and every junction of the list is flushed: a junction filled by the flush of the one before it has no people *before* the loop and need not be a databook quantity
            good = len(fl) == 1 and not guards_of(enclosing_stmt(fl[0]), stop=l)
    ctx.check(good, "R04b", fj, fj.node, "initial flush runs over the same flow-ordered list", "flush_junctions does not flush every junction of _exec_order['junctions'] in order: people in chained junctions are left behind")


# ---------------------------------------------------------------------------------------------- R04c
def _threshold_var(fi):
    """Name compared against a numeric constant in the function (the summed proportions)."""
    names = {}
    for c in own_nodes(fi.node):
        if isinstance(c, ast.Compare) and len(c.ops) == 1:
            l, r = c.left, c.comparators[0]
            for a, b in ((l, r), (r, l)):
                if isinstance(a, ast.Name) and isinstance(b, ast.Constant) and isinstance(b.value, (int, float)) and not isinstance(b.value, bool) and b.value != 0:
                    names.setdefault(a.id, []).append((c, b.value))
    return names


def _flag_resolver(fi, var, const):
    def resolve(name):
        regs = None
        for s in own_nodes(fi.node):
            if isinstance(s, ast.Assign) and len(s.targets) == 1 and astq.is_name(s.targets[0], name) and isinstance(s.value, ast.Constant) and isinstance(s.value.value, bool):
                r, _sel = R.guard_regions(guards_of(s), var, const)
                if s.value.value:
                    regs = r if regs is None else (regs | r)
                elif regs is None:
                    regs = frozenset()
        return regs

    return resolve


def _residual_table(ctx, fi):
    """(normalise regions, residual regions) for a residual-junction method, over total ∈ {<1, =1, >1}."""
    cands = _threshold_var(fi)
    ctx.require(len(cands) == 1, "R04c: %s: cannot identify the summed-proportion variable (candidates %s)" % (fi.fq, sorted(cands)))
    var = next(iter(cands))
    for cmp_node, value in cands[var]:
        if value != 1:
            ctx.fail("R04c", fi, enclosing_stmt(cmp_node), "the summed proportions are compared with %r instead of 1: below 1 the remainder goes to the residual outflow, above 1 the proportions are scaled to 1" % value)
            return None
    resolver = _flag_resolver(fi, var, 1)
    norm_regs = frozenset()
    n_norm = 0
    for s in own_nodes(fi.node):
        is_norm = (isinstance(s, ast.AugAssign) and isinstance(s.op, ast.Div) and astq.is_name(s.value, var)) or (isinstance(s, ast.Assign) and isinstance(s.value, ast.BinOp) and isinstance(s.value.op, ast.Div) and astq.is_name(s.value.right, var))
        if is_norm:
            n_norm += 1
            r, _ = R.guard_regions(guards_of(s), var, 1, resolver)
            norm_regs = norm_regs | r
    ctx.require(n_norm >= 1, "R04c: %s: normalisation by the summed proportions not found" % fi.fq)
    res_regs = frozenset()
    n_res = 0
    for s in own_nodes(fi.node):
        if not isinstance(s, (ast.Assign, ast.AugAssign)):
            continue
        gs = guards_of(s)
        sel_pos = any(pol and any(ast.unparse(c) == "link.parameter is None" for c in R.split_conjuncts(t)) for t, pol in gs) or any((not pol) and ast.unparse(t) == "link.parameter is not None" for t, pol in gs)
        if not sel_pos:
            continue
        # statement that gives the residual link its remainder (contains a subtraction)
        if not any(isinstance(x, ast.BinOp) and isinstance(x.op, ast.Sub) for x in ast.walk(s.value)):
            continue
        n_res += 1
        r, _ = R.guard_regions(gs, var, 1, resolver)
        res_regs = res_regs | r
    ctx.require(n_res >= 1, "R04c: %s: residual assignment (under `link.parameter is None`) not found" % fi.fq)
    return norm_regs, res_regs


def r04c(ctx, repo):
    ctx.rule("R04c", "residual junction: balance() and initial_flush() have the same region table over the summed proportions (normalise iff >1, residual gets the remainder iff <1; =1 is a no-op either way); plain junction divides by the sum in both")
    bal = repo.func("model", "ResidualJunctionCompartment.balance")
    flu = repo.func("model", "ResidualJunctionCompartment.initial_flush")
    try:
        tb = _residual_table(ctx, bal)
        tf = _residual_table(ctx, flu)
    except R.Unrecognised as e:
        raise AnalysisError("R04c: unrecognised threshold test `%s`" % e)
    except R.OtherThreshold as e:
        ctx.fail("R04c", bal if e.node in list(ast.walk(bal.node)) else flu, enclosing_stmt(e.node), "the summed proportions are compared with %r instead of 1" % e.value)
        tb = tf = None
    if tb and tf:
        for fi, (nr, rr) in ((bal, tb), (flu, tf)):
            ctx.check(nr - {"eq"} == {"gt"}, "R04c", fi, fi.node, "normalises exactly where the proportions exceed 1", "%s normalises the proportions in regions %s of the summed proportions (expected: only above 1; at exactly 1 it is a no-op)" % (fi.qualname, sorted(nr)))
            ctx.check(rr - {"eq"} == {"lt"}, "R04c", fi, fi.node, "residual outflow gets the remainder exactly where the proportions sum below 1", "%s gives the residual outflow the remainder in regions %s of the summed proportions (expected: only below 1)" % (fi.qualname, sorted(rr)))
        ctx.check((tb[0] - {"eq"}, tb[1] - {"eq"}) == (tf[0] - {"eq"}, tf[1] - {"eq"}), "R04c", flu, flu.node, "balance() and initial_flush() agree region by region", "ResidualJunctionCompartment.balance and .initial_flush disagree on the threshold behaviour: balance %s, flush %s" % ([sorted(x) for x in tb], [sorted(x) for x in tf]))
    # plain junction: both divide by the sum of the outflow proportions
    for q in ("JunctionCompartment.balance", "JunctionCompartment.initial_flush"):
        fi = repo.func("model", q)
        sums = {}
        for s in own_nodes(fi.node):
            if isinstance(s, ast.Assign) and len(s.targets) == 1 and isinstance(s.targets[0], ast.Name) and isinstance(s.value, ast.Call) and ast.unparse(s.value.func) in ("sum", "np.sum") and s.value.args and isinstance(s.value.args[0], ast.Name):
                sums[s.targets[0].id] = s.value.args[0].id
        good = False
        for d in own_nodes(fi.node):
            if isinstance(d, ast.BinOp) and isinstance(d.op, ast.Div) and isinstance(d.right, ast.Name) and d.right.id in sums:
                good = True
            if isinstance(d, ast.AugAssign) and isinstance(d.op, ast.Div):
                v = d.value
                if isinstance(v, ast.Name) and v.id in sums and sums[v.id] == ast.unparse(d.target):
                    good = True
                if isinstance(v, ast.Call) and ast.unparse(v.func) in ("sum", "np.sum") and v.args and ast.unparse(v.args[0]) == ast.unparse(d.target):
                    good = True
        ctx.check(good, "R04c", fi, fi.node, "proportions are normalised by their sum", "%s does not divide the outflow proportions by their sum: the junction does not pass on exactly what it receives" % q)


# ---------------------------------------------------------------------------------------------- R04d
def r04d(ctx, repo):
    ctx.rule("R04d", "framework validation forces 'proportion' on junction outflows and forbids it elsewhere; update_links excludes it by the same constant; balance() reads link.parameter.vals[ti] unconverted")
    fw = repo.func("framework", "ProjectFramework._validate_parameters")
    want = {"junction_needs_proportion": False, "proportion_needs_junction": False}
    for r in own_nodes(fw.node):
        if not isinstance(r, ast.Raise):
            continue
        gs = guards_of(r)
        texts = []
        for t, pol in gs:
            for c in (R.split_conjuncts(t) if pol else [t]):
                texts.append((ast.unparse(c).replace('"', "'").replace("(", "").replace(")", ""), pol))
        is_j = any(("'is junction'] == 'y'" in t and pol) for t, pol in texts)
        not_j = any(("'is junction'] != 'y'" in t and pol) or ("'is junction'] == 'y'" in t and not pol) for t, pol in texts)
        ne_prop = any((t.endswith("!= FS.QUANTITY_TYPE_PROPORTION") and "format" in t and pol) for t, pol in texts)
        eq_prop = any((t.endswith("== FS.QUANTITY_TYPE_PROPORTION") and "format" in t and pol) for t, pol in texts)
        if is_j and ne_prop:
            want["junction_needs_proportion"] = r
        if eq_prop and not_j and not is_j:
            want["proportion_needs_junction"] = r
    ctx.check(bool(want["junction_needs_proportion"]), "R04d", fw, want["junction_needs_proportion"] or fw.node, "junction outflows must be in proportion units", "framework validation no longer rejects a junction outflow whose format is not FS.QUANTITY_TYPE_PROPORTION: balance() would use a rate/number as a proportion")
    ctx.check(bool(want["proportion_needs_junction"]), "R04d", fw, want["proportion_needs_junction"] or fw.node, "proportion units only on junction outflows", "framework validation no longer rejects a proportion parameter leaving a non-junction compartment: update_links skips such parameters, so the flow silently vanishes")
    so = repo.func("model", "Model._set_exec_order")
    excl = [c for c in own_nodes(so.node) if isinstance(c, ast.Compare) and ast.unparse(c.left).endswith(".units") and isinstance(c.ops[0], ast.NotEq) and ast.unparse(c.comparators[0]).endswith("QUANTITY_TYPE_PROPORTION")]
    ctx.check(bool(excl), "R04d", so, enclosing_stmt(excl[0]) if excl else so.node, "proportion parameters excluded from unit conversion", "proportion-unit parameters are no longer excluded from transition_pars: a junction proportion would be converted like a rate")
    for q in ("JunctionCompartment.balance", "ResidualJunctionCompartment.balance"):
        fi = repo.func("model", q)
        tname = K.time_param(fi)
        reads = [x for x in own_nodes(fi.node) if isinstance(x, ast.Subscript) and ast.unparse(x.value).endswith(".parameter.vals")]
        ctx.require(reads, "R04d: %s does not read link.parameter.vals" % q)
        for x in reads:
            par = getattr(x, "_parent", None)
            direct = not isinstance(par, ast.BinOp)
            ctx.check(direct and astq.is_name(x.slice, tname), "R04d", fi, enclosing_stmt(x), "proportion read at step %s without conversion" % tname, "junction proportion `%s` is converted or read at another step" % ast.unparse(par if isinstance(par, ast.BinOp) else x))


# ---------------------------------------------------------------------------------------------- R04e
def r04e(ctx, repo):
    ctx.rule("R04e", "start-up: parameters are evaluated before the initial flush, re-evaluated after it, and links are resolved before the first step")
    fi = repo.func("model", "Model.process")
    me = K.self_name(fi)
    cfg = K.cfg(repo, fi)
    whiles = [w for w in own_nodes(fi.node) if isinstance(w, ast.While)]
    ctx.require(len(whiles) == 1, "R04e: expected one while loop in Model.process")
    w = whiles[0]
    in_loop = {id(s) for s in ast.walk(w)}

    def calls(name):
        return [s for s in own_nodes(fi.node) if isinstance(s, ast.Expr) and isinstance(s.value, ast.Call) and ast.unparse(s.value.func) == "%s.%s" % (me, name) and id(s) not in in_loop and s.lineno < w.lineno]

    P, F, L = calls("update_pars"), calls("flush_junctions"), calls("update_links")
    if len(F) != 1:
        ctx.fail("R04e", fi, fi.node, "flush_junctions() is called %d times before the integration loop (expected once)" % len(F), stmt_text="flush-count")
        return
    ids = lambda ss: [i for s in ss for i in cfg.ids(s)]
    head = cfg.ids(w)
    ctx.check(bool(P) and not cfg.path_exists([ENTRY], ids(F), avoid_ids=ids(P)), "R04e", fi, F[0], "update_pars precedes the initial flush", "the initial junction flush can run before parameters are evaluated: junction proportions that are functions are still NaN")
    ctx.check(bool(L) and not cfg.path_exists(ids(F), ids(L) + head, avoid_ids=ids(P)), "R04e", fi, F[0], "update_pars runs again between the flush and update_links", "after the initial flush moved people, parameters are not re-evaluated before links are resolved")
    ctx.check(bool(L) and not cfg.path_exists(ids(F), head, avoid_ids=ids(L)), "R04e", fi, L[0] if L else F[0], "update_links runs before the first step", "the integration loop can start without the links of the initial step being resolved")


def flush_guard_region(ctx, fi, g, me, rule):
    """The initial flush must act only when the junction holds people: the guard is true exactly for vals[0] > 0 (truthiness accepted)."""
    var = "%s.vals[0]" % me
    t = g.test
    if ast.unparse(t) == var:
        regs = frozenset({"lt", "gt"})
    else:
        try:
            regs = R.truth(t, var, 0)
        except (R.Unrecognised, R.OtherThreshold) as e:
            raise AnalysisError("%s: unrecognised flush guard `%s`" % (rule, ast.unparse(t)))
    ctx.check("eq" not in regs and "gt" in regs, rule, fi, g, "flush only when the junction holds people", "the initial flush also runs for an *empty* junction (`%s`): `dest[0] += 0` is not a no-op for a timed destination - assigning its total re-spreads it uniformly over the elapsed-time bins, so a state restored from a saved run (or any non-uniform initial occupancy) is flattened before the first step" % ast.unparse(t))
