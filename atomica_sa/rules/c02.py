"""C02 - stocks and flows stay non-negative, finite, never over-drawn (DESIGN 4, C02)."""
import ast

from ..core.loader import AnalysisError, own_nodes, norm, enclosing_stmt
from ..core import astq
from ..core.cfg import guards_of, EXIT
from . import common as K
from . import flowalg

EXPLANATION = (
    "Static necessary conditions in atomica/model.py: R02a the outflow of a compartment is rescaled by a factor that is 1/T exactly where the summed "
    "fractions T exceed 1 and 1 elsewhere, the same factor for all competing links; R02b a negative transition value is clamped to 0 before any "
    "arithmetic use and a zero value short-circuits to a zero fraction; R02c every division in update_links has a denominator that is trusted-positive "
    "or guarded non-zero; R02d the final clips (stock > 0 test, masked clip of timed rows, max(0,.) on the flush link) are in place. "
    "Absence of NaN/inf for all finite inputs and numeric over-draw bounds need value ranges and are not decided."
)


def run(ctx):
    repo = ctx.repo
    T = K.types(repo)
    ctx.each(r02a, ctx, repo, T)
    ctx.each(r02b, ctx, repo, T)
    ctx.each(r02c, ctx, repo, T)
    ctx.each(r02d, ctx, repo, T)
    ctx.each(flowalg.accumulator_rule, ctx, repo, "R02e")
    ctx.each(flowalg.must_store_rule, ctx, repo, "R02f")
    ctx.each(r02g, ctx, repo)
    # a junction read before the junction upstream of it has been balanced passes on NaN: the ordering graph has an edge for every junction-to-junction link
    from .c01 import r01e

    from . import c04

    ctx.each(r01e, ctx, repo, T)
    from . import c19 as _c19

    ctx.each(_c19.r19c, ctx, repo)  # 0/0 in a parameter function is 0, never NaN: NaN passes every clip and rescale test and empties the compartment
    ctx.each(_c19.r19g, ctx, repo)
    from . import c06 as _c06

    ctx.each(_c06.r06m, ctx, repo)  # a transition parameter that depends on a parameter left NaN during the run is NaN itself: NaN passes every clamp
    ctx.each(_c06.r06o, ctx, repo)
    ctx.each(c04.r04b, ctx, repo)

    ctx.each(c04.r04c, ctx, repo)  # the residual outflow gets the remainder only while the explicit proportions sum below 1: otherwise it would be a negative (reverse) flow


def _is_one(e):
    return isinstance(e, ast.Constant) and e.value in (1, 1.0) and not isinstance(e.value, bool)


def _is_zero(e):
    return isinstance(e, ast.Constant) and e.value in (0, 0.0) and not isinstance(e.value, bool)


def _is_recip(e, tname):
    """1/T, 1.0/T, np.divide(1, T), np.reciprocal(T), T**-1"""
    if isinstance(e, ast.BinOp) and isinstance(e.op, ast.Div) and _is_one(e.left) and astq.is_name(e.right, tname):
        return True
    if isinstance(e, ast.Call) and ast.unparse(e.func) == "np.divide" and len(e.args) == 2 and not e.keywords and _is_one(e.args[0]) and astq.is_name(e.args[1], tname):
        return True
    return False


def _cmp_gt_one(test, tname):
    """
    Classify a comparison of T against the constant 1.
    Returns 'gt' if the test is true exactly for T > 1 (or T >= 1: 1/1 == 1 so both select the same factor),
    'le' if it is true exactly for T <= 1 (or T < 1), ('thr', c) if it compares with another constant, None if not recognised.
    """
    if not isinstance(test, ast.Compare) or len(test.ops) != 1:
        return None
    l, op, r = test.left, test.ops[0], test.comparators[0]
    if astq.is_name(l, tname) and isinstance(r, ast.Constant):
        c = r.value
        o = type(op)
    elif astq.is_name(r, tname) and isinstance(l, ast.Constant):
        c = l.value
        o = {ast.Gt: ast.Lt, ast.GtE: ast.LtE, ast.Lt: ast.Gt, ast.LtE: ast.GtE}.get(type(op))
    else:
        return None
    if c not in (1, 1.0):
        return ("thr", c)
    if o in (ast.Gt, ast.GtE):
        return "gt"
    if o in (ast.Lt, ast.LtE):
        return "le"
    return None


def _accumulator(fi, me):
    """Name that accumulates link._cache over self.outlinks (scalar `x += link._cache`, or `x[...] += link._cache`)."""
    names = set()
    sites = []
    for l in own_nodes(fi.node):
        if isinstance(l, ast.For) and ("%s.outlinks" % me) in [ast.unparse(b) for b in K.iter_base(l.iter)]:
            lv = K.loop_var_for(l, "%s.outlinks" % me)
            for s in ast.walk(l):
                if isinstance(s, ast.AugAssign) and isinstance(s.op, ast.Add) and ast.unparse(s.value) == "%s._cache" % lv:
                    base = astq.strip_subs(s.target)
                    if isinstance(base, ast.Name):
                        names.add(base.id)
                        sites.append((l, s))
    return names, sites


def r02a(ctx, repo, T):
    ctx.rule("R02a", "resolve_outflows: factor = 1/T where T>1 else 1 (T = sum of all link._cache of self.outlinks), n = factor * stock, every link value is a multiple of n, factor and n are invariant in the link loop")
    for clsname in ("Compartment", "TimedCompartment"):
        fi = repo.func("model", "%s.resolve_outflows" % clsname)
        me = K.self_name(fi)
        names, sites = _accumulator(fi, me)
        ctx.require(len(names) == 1, "R02a: %s: cannot identify the accumulator of outgoing fractions (found %s)" % (fi.fq, sorted(names)))
        Tn = next(iter(names))
        # every outlink contributes: each branch of a class split inside the accumulation loop has an accumulation
        for l, s in sites:
            par = getattr(s, "_parent", None)
            if isinstance(par, ast.If) and par.orelse:
                other = par.orelse if any(s is x for x in par.body) else par.body
                good = any(isinstance(x, ast.AugAssign) and astq.strip_subs(x.target) is not None and ast.unparse(astq.strip_subs(x.target)) == Tn for x in other)
                ctx.check(good, "R02a", fi, par, "both link kinds contribute to the total", "only one branch of `%s` contributes to the summed outflow fraction" % norm(par))
            elif isinstance(par, ast.If):
                ctx.fail("R02a", fi, par, "some outgoing links are excluded from the summed outflow fraction by `%s`" % norm(par))
        # factor definition
        factor = None
        fstmt = None
        for s in astq.stmts_in_order(fi.node):
            # idiom 1: if T > 1: R = 1/T else: R = 1
            if isinstance(s, ast.If) and _cmp_gt_one(s.test, Tn) is not None and s.orelse:
                kind = _cmp_gt_one(s.test, Tn)
                if isinstance(kind, tuple):
                    ctx.fail("R02a", fi, s, "rescale threshold is %r, not 1: outflows up to %r times the compartment are let through (or smaller ones are scaled)" % (kind[1], kind[1]))
                    factor = "?"
                    fstmt = s
                    continue
                hi, lo = (s.body, s.orelse) if kind == "gt" else (s.orelse, s.body)
                if len(hi) == 1 and len(lo) == 1 and isinstance(hi[0], ast.Assign) and isinstance(lo[0], ast.Assign) and isinstance(hi[0].targets[0], ast.Name) and ast.unparse(hi[0].targets[0]) == ast.unparse(lo[0].targets[0]):
                    factor = hi[0].targets[0].id
                    fstmt = s
                    ctx.check(_is_recip(hi[0].value, Tn), "R02a", fi, hi[0], "factor is 1/T where T > 1", "where the summed fraction exceeds 1 the factor is `%s`, not 1/%s: more people leave than are present" % (ast.unparse(hi[0].value), Tn))
                    ctx.check(_is_one(lo[0].value), "R02a", fi, lo[0], "factor is 1 where T <= 1", "where the summed fraction is at most 1 the factor is `%s`, not 1" % ast.unparse(lo[0].value))
            elif isinstance(s, ast.Assign) and len(s.targets) == 1 and isinstance(s.targets[0], ast.Name):
                v = s.value
                # idiom 2: R = 1/T if T > 1 else 1
                if isinstance(v, ast.IfExp) and _cmp_gt_one(v.test, Tn) is not None:
                    kind = _cmp_gt_one(v.test, Tn)
                    factor, fstmt = s.targets[0].id, s
                    if isinstance(kind, tuple):
                        ctx.fail("R02a", fi, s, "rescale threshold is %r, not 1" % (kind[1],))
                        continue
                    hi, lo = (v.body, v.orelse) if kind == "gt" else (v.orelse, v.body)
                    ctx.check(_is_recip(hi, Tn) and _is_one(lo), "R02a", fi, s, "factor is 1/T where T > 1 else 1", "rescale factor `%s` is not (1/%s where %s > 1, else 1)" % (ast.unparse(v), Tn, Tn))
                # idiom 3: np.divide(1, T, out=np.ones_like(T), where=T > 1)
                elif isinstance(v, ast.Call) and ast.unparse(v.func) == "np.divide" and astq.kwarg(v, "where") is not None:
                    factor, fstmt = s.targets[0].id, s
                    where, out = astq.kwarg(v, "where"), astq.kwarg(v, "out")
                    kind = _cmp_gt_one(where, Tn)
                    ones = isinstance(out, ast.Call) and ast.unparse(out.func) in ("np.ones_like", "np.ones")
                    good = kind == "gt" and ones and len(v.args) == 2 and _is_one(v.args[0]) and astq.is_name(v.args[1], Tn)
                    if isinstance(kind, tuple):
                        ctx.fail("R02a", fi, s, "rescale threshold is %r, not 1" % (kind[1],))
                    else:
                        ctx.check(good, "R02a", fi, s, "per-row factor is 1/T where T > 1 else 1", "per-row rescale factor `%s` is not (1/%s where %s > 1, else 1)" % (ast.unparse(v), Tn, Tn))
                # idiom 4: np.where(T > 1, 1/T, 1)
                elif isinstance(v, ast.Call) and ast.unparse(v.func) == "np.where" and len(v.args) == 3 and _cmp_gt_one(v.args[0], Tn) is not None:
                    factor, fstmt = s.targets[0].id, s
                    kind = _cmp_gt_one(v.args[0], Tn)
                    if isinstance(kind, tuple):
                        ctx.fail("R02a", fi, s, "rescale threshold is %r, not 1" % (kind[1],))
                    else:
                        hi, lo = (v.args[1], v.args[2]) if kind == "gt" else (v.args[2], v.args[1])
                        ctx.check(_is_recip(hi, Tn) and _is_one(lo), "R02a", fi, s, "per-row factor is 1/T where T > 1 else 1", "rescale factor `%s` is not (1/%s where %s > 1, else 1)" % (ast.unparse(v), Tn, Tn))
        if factor is None:
            # a decision taken for the whole array from one element / an aggregate of the totals is a violation in its own right
            for s_ in astq.stmts_in_order(fi.node):
                tests = []
                if isinstance(s_, ast.If):
                    tests.append(s_.test)
                for x in ast.walk(s_) if isinstance(s_, ast.Assign) else []:
                    if isinstance(x, ast.IfExp):
                        tests.append(x.test)
                for t_ in tests:
                    mentions = any(isinstance(x, ast.Name) and x.id == Tn for x in ast.walk(t_))
                    plain = _cmp_gt_one(t_, Tn) is not None
                    assigns_factor = isinstance(s_, ast.If) and any(isinstance(b, ast.Assign) and (_is_recip(b.value, Tn) or (isinstance(b.value, ast.BinOp) and isinstance(b.value.op, ast.Div) and Tn in ast.unparse(b.value.right))) for b in ast.walk(s_))
                    if mentions and not plain and (assigns_factor or isinstance(s_, ast.Assign)):
                        ctx.fail("R02a", fi, s_, "the rescale decision for all sub-compartments is taken from `%s` instead of element by element: a row whose own summed outflow fraction exceeds 1 is not scaled down (or rows that need no scaling are scaled), so more people can leave a row than are in it" % ast.unparse(t_))
                        factor = "?"
        if factor is None:
            raise AnalysisError("R02a: %s: no rescale factor in a recognised idiom (if/else, conditional expression, np.divide(where=), np.where)" % fi.fq)
        if factor == "?":
            continue
        # n = factor * stock ; link values multiples of n
        mult = None
        for s in astq.stmts_in_order(fi.node):
            if isinstance(s, ast.Assign) and len(s.targets) == 1 and isinstance(s.targets[0], ast.Name) and isinstance(s.value, ast.BinOp) and isinstance(s.value.op, ast.Mult) and factor in {x.id for x in ast.walk(s.value) if isinstance(x, ast.Name)} and s.lineno > fstmt.lineno:
                mult = s
        ctx.require(mult is not None, "R02a: %s: no `n = factor * stock` statement after the factor definition" % fi.fq)
        n = mult.targets[0].id
        stock_ok = any(isinstance(x, ast.Subscript) and isinstance(x.value, ast.Attribute) and x.value.attr in ("vals", "_vals") and astq.is_name(x.value.value, me) for x in ast.walk(mult.value))
        ctx.check(stock_ok, "R02a", fi, mult, "%s = factor x current stock" % n, "`%s` is not the rescale factor times the compartment's current stock" % norm(mult))
        link_loop_stores = []
        for stmt, tgt, kind, value in astq.stores(fi.node):
            if kind != "assign" or not (isinstance(tgt, ast.Subscript) and isinstance(tgt.value, ast.Attribute) and tgt.value.attr in ("vals", "_vals")):
                continue
            obj = tgt.value.value
            loops = K.enclosing_loops(stmt)
            if not loops or not isinstance(obj, ast.Name) or K.loop_var_for(loops[0], "%s.outlinks" % me) != obj.id:
                continue
            if _is_zero(value):
                continue  # zeroing a row (no flow out of the final sub-compartment)
            link_loop_stores.append((stmt, loops[0]))
            uses_n = n in {x.id for x in ast.walk(value) if isinstance(x, ast.Name)}
            ctx.check(uses_n, "R02a", fi, stmt, "link value is a multiple of %s" % n, "link value `%s` does not use the rescaled stock `%s`: the over-draw protection is bypassed" % (ast.unparse(value), n))
            cachemul = ("%s._cache" % obj.id) in ast.unparse(value)
            ctx.check(cachemul, "R02a", fi, stmt, "link value is its own fraction times %s" % n, "link value `%s` does not use the link's own requested fraction" % ast.unparse(value))
        ctx.require(link_loop_stores, "R02a: %s: no link value stores found in the loop over outlinks" % fi.fq)
        for stmt, loop in link_loop_stores:
            bad = [s for s in ast.walk(loop) if isinstance(s, (ast.Assign, ast.AugAssign)) and any(isinstance(t, ast.Name) and t.id in (n, factor, Tn) for t in (s.targets if isinstance(s, ast.Assign) else [s.target]))]
            ctx.check(not bad, "R02a", fi, bad[0] if bad else stmt, "factor and %s are invariant in the link loop" % n, "`%s` is reassigned inside the loop over outgoing links: competing outflows are scaled by different factors" % (norm(bad[0]) if bad else ""))
            break


# ---------------------------------------------------------------------------------------------- R02b
def _transition_var(ul):
    """The per-parameter value read in update_links: `X = par.vals[ti]` inside the loop over transition_pars."""
    for l in own_nodes(ul.node):
        if isinstance(l, ast.For) and "transition_pars" in ast.unparse(l.iter) and isinstance(l.target, ast.Name):
            pv = l.target.id
            for s in l.body:
                if isinstance(s, ast.Assign) and len(s.targets) == 1 and isinstance(s.targets[0], ast.Name) and ast.unparse(s.value).startswith("%s.vals[" % pv) or (isinstance(s, ast.Assign) and ast.unparse(s.value).startswith("%s[" % pv)):
                    return l, pv, s.targets[0].id, s
    raise AnalysisError("update_links: loop over _exec_order['transition_pars'] with `x = par.vals[ti]` not found")


def r02b(ctx, repo, T):
    ctx.rule("R02b", "update_links: `if x < 0: x = 0` (or x = max(x, 0)) dominates every arithmetic use of the parameter value; a zero value short-circuits to link._cache = 0 for all links of the parameter")
    ul = repo.func("model", "Model.update_links")
    loop, pv, x, xdef = _transition_var(ul)
    cfg = K.cfg(repo, ul)
    clamp = None
    for s in loop.body:
        if isinstance(s, ast.If) and isinstance(s.test, ast.Compare) and astq.is_name(s.test.left, x) and isinstance(s.test.ops[0], (ast.Lt, ast.LtE)) and _is_zero(s.test.comparators[0]):
            if any(isinstance(b, ast.Assign) and astq.is_name(b.targets[0], x) and _is_zero(b.value) for b in s.body):
                clamp = s
        elif isinstance(s, ast.Assign) and astq.is_name(s.targets[0], x) and isinstance(s.value, ast.Call) and ast.unparse(s.value.func) in ("max", "np.maximum") and len(s.value.args) == 2 and any(_is_zero(a) for a in s.value.args) and any(astq.is_name(a, x) for a in s.value.args):
            clamp = s
    if clamp is None:
        ctx.fail("R02b", ul, xdef, "the transition value `%s` is not clamped at 0 before use: a negative parameter produces a reverse flow" % x, stmt_text="clamp:" + x)
    else:
        uses = [n for n in ast.walk(loop) if isinstance(n, ast.BinOp) and x in {m.id for m in ast.walk(n) if isinstance(m, ast.Name)}]
        ustmts = {id(enclosing_stmt(u)): enclosing_stmt(u) for u in uses}
        ok = all(cfg.dominates(clamp, st) for st in ustmts.values())
        ctx.check(ok and bool(ustmts), "R02b", ul, clamp, "clamp dominates %d arithmetic uses of %s" % (len(ustmts), x), "an arithmetic use of `%s` is reachable without passing the negative clamp" % x)
    # zero short-circuit
    sc = None
    for s in loop.body:
        if isinstance(s, ast.If) and (ast.unparse(s.test) in ("not %s" % x, "%s == 0" % x, "%s == 0.0" % x, "%s <= 0" % x)):
            sc = s
    if sc is None:
        ctx.fail("R02b", ul, xdef, "no zero short-circuit for `%s`: a zero duration or empty parameter reaches the unit conversion" % x, stmt_text="zero:" + x)
    else:
        inner = [l for l in sc.body if isinstance(l, ast.For) and ast.unparse(l.iter) == "%s.links" % pv]
        sets = inner and any(isinstance(b, ast.Assign) and ast.unparse(b.targets[0]).endswith("._cache") and _is_zero(b.value) for b in inner[0].body)
        cont = isinstance(sc.body[-1], ast.Continue)
        ctx.check(bool(sets) and cont, "R02b", ul, sc, "zero value -> zero fraction on all links of the parameter, conversion skipped", "the zero short-circuit does not set link._cache = 0 on every link of the parameter and skip the conversion")


# ---------------------------------------------------------------------------------------------- R02c
TRUSTED_POSITIVE = {
    "par.timescale": "framework validation rejects timescale <= 0; default 1.0",
    "self.dt": "ProjectSettings asserts sim_dt > 0",
}


def _factors(e):
    if isinstance(e, ast.BinOp) and isinstance(e.op, ast.Mult):
        return _factors(e.left) + _factors(e.right)
    return [e]


def _nonzero_guarded(name, node):
    for test, pol in guards_of(node):
        t = ast.unparse(test)
        if pol and t in (name, "%s != 0" % name, "%s > 0" % name, "%s != 0.0" % name, "%s > 0.0" % name):
            return True
        if not pol and t in ("not %s" % name, "%s == 0" % name, "%s == 0.0" % name, "%s <= 0" % name):
            return True
    return False


def r02c(ctx, repo, T):
    ctx.rule("R02c", "every `/` in update_links has a denominator whose factors are trusted-positive (par.timescale, self.dt) or names guarded non-zero on the path")
    ul = repo.func("model", "Model.update_links")
    loop, pv, x, xdef = _transition_var(ul)
    me = K.self_name(ul)
    trusted = {k.replace("par.", pv + ".").replace("self.", me + "."): v for k, v in TRUSTED_POSITIVE.items()}
    n = 0
    for node in own_nodes(ul.node):
        if isinstance(node, ast.BinOp) and isinstance(node.op, ast.Div):
            n += 1
            stmt = enclosing_stmt(node)
            bad = []
            for f in _factors(node.right):
                t = ast.unparse(f)
                if t in trusted:
                    continue
                if isinstance(f, ast.Name) and _nonzero_guarded(f.id, node):
                    continue
                if isinstance(f, ast.Constant) and f.value not in (0, 0.0):
                    continue
                bad.append(t)
            ctx.check(not bad, "R02c", ul, stmt, "denominator `%s` is positive or guarded" % ast.unparse(node.right), "division by `%s` is not guarded against zero (an empty source compartment or zero value yields NaN/inf flows)" % ", ".join(bad))
    ctx.require(n >= 4, "R02c: fewer divisions (%d) in update_links than confirmed (4)" % n)


# ---------------------------------------------------------------------------------------------- R02d
def r02d(ctx, repo, T):
    ctx.rule("R02d", "final clips: Compartment.update stores 0.0 or a value under a `> 0` test; TimedCompartment.update ends with a masked clip of the step's rows; the flush link is max(0, .)")
    fi = repo.func("model", "Compartment.update")
    me = K.self_name(fi)
    tname = K.time_param(fi)
    st = [(s, t, v) for s, t, k, v in astq.stores(fi.node) if k == "assign" and isinstance(t, ast.Subscript) and ast.unparse(t.value) == "%s.vals" % me]
    ctx.require(st, "R02d: Compartment.update has no store to self.vals")
    for s, t, v in st:
        good = _is_zero(v)
        if isinstance(v, ast.Name):
            for test, pol in guards_of(s):
                tt = ast.unparse(test)
                if pol and tt in ("%s > 0" % v.id, "%s >= 0" % v.id, "%s > 0.0" % v.id, "%s >= 0.0" % v.id, "0 < %s" % v.id, "0 <= %s" % v.id):
                    good = True
                if not pol and tt in ("%s < 0" % v.id, "%s <= 0" % v.id, "%s < 0.0" % v.id, "%s <= 0.0" % v.id):
                    good = True
        if isinstance(v, ast.Call) and ast.unparse(v.func) in ("max", "np.maximum") and any(_is_zero(a) for a in v.args):
            good = True
        ctx.check(good, "R02d", fi, s, "stored stock is 0.0 or positive", "Compartment.update stores `%s` without the non-negativity guard: numerical artefacts yield negative stocks" % ast.unparse(v))
    # timed
    fi = repo.func("model", "TimedCompartment.update")
    me = K.self_name(fi)
    tname = K.time_param(fi)
    cfg = K.cfg(repo, fi)
    clip = None
    others = []
    for s, t, k, v in astq.stores(fi.node):
        if not (isinstance(t, ast.Subscript) and ast.unparse(t.value) == "%s._vals" % me):
            continue
        row = K.row_index_of(t)
        is_clip = False
        if k == "assign" and row is not None and isinstance(row, ast.Compare) and isinstance(row.ops[0], (ast.Lt, ast.LtE)) and _is_zero(row.comparators[0]) and _is_zero(v) and ("%s._vals[:, %s]" % (me, tname)) == ast.unparse(row.left):
            is_clip = True
        if k == "assign" and isinstance(v, ast.Call) and ast.unparse(v.func) in ("np.maximum", "np.clip") and any(_is_zero(a) for a in v.args) and ast.unparse(t) in [ast.unparse(a) for a in v.args]:
            is_clip = True
        if is_clip:
            clip = s
        else:
            others.append(s)
    if clip is None:
        ctx.fail("R02d", fi, fi.node, "TimedCompartment.update has no final clip of negative rows at the step being written", stmt_text="clip")
    else:
        ok = all(cfg.must_pass(o, clip, exits=(EXIT,)) for o in others)
        ctx.check(ok and bool(others), "R02d", fi, clip, "masked clip post-dominates the %d other writes of the step" % len(others), "a write to the step's rows can reach the end of update() without passing the negative clip")
    fi = repo.func("model", "TimedCompartment.resolve_outflows")
    me = K.self_name(fi)
    fl = [(s, v) for s, t, k, v in astq.stores(fi.node) if k == "assign" and ast.unparse(t).startswith("%s.flush_link.vals[" % me)]
    ctx.require(fl, "R02d: store to self.flush_link.vals[ti] not found")
    for s, v in fl:
        good = isinstance(v, ast.Call) and ast.unparse(v.func) in ("max", "np.maximum") and any(_is_zero(a) for a in v.args)
        ctx.check(good, "R02d", fi, s, "flush flow is max(0, .)", "the flush link value `%s` is not bounded below by 0: a negative flush flow is a reverse flow" % ast.unparse(v))


def r02g(ctx, repo):
    ctx.rule("R02g", "the down-scaling factor belongs to the step: in every resolve_outflows the factor applied to the stock (and the total it derives from) is computed in this call from this step's link._cache values - no definition that reaches its use reads an attribute of self - and the method stores nothing on self except the per-step outflow cache that update() consumes")
    n = 0
    for ci, fi in K.family_methods(repo, "resolve_outflows"):
        if K.is_noop(fi) or ci.name.startswith(("Junction", "ResidualJunction", "Source")):
            continue
        me = K.self_name(fi)
        rd = K.rdefs(repo, fi)
        # the statement that applies the factor: n = <factor> * self.vals[ti] / self._vals[:, ti]
        uses = [s for s in own_nodes(fi.node) if isinstance(s, ast.Assign) and isinstance(s.targets[0], ast.Name) and isinstance(s.value, ast.BinOp) and isinstance(s.value.op, ast.Mult) and any(ast.unparse(x).startswith(("%s.vals[" % me, "%s._vals[" % me)) for x in (s.value.left, s.value.right))]
        if len(uses) != 1:
            ctx.fail("R02g", fi, fi.node, "%s.resolve_outflows: the statement applying the rescale factor to the stock was not found" % ci.name, stmt_text="rescale-use:%s" % ci.name)
            continue
        n += 1
        fac = [x for x in (uses[0].value.left, uses[0].value.right) if not ast.unparse(x).startswith(("%s.vals[" % me, "%s._vals[" % me))][0]
        seen, bad = set(), []
        work = [(uses[0], nm.id) for nm in ast.walk(fac) if isinstance(nm, ast.Name)]
        while work:
            st, name = work.pop()
            for d in rd.reaching_at_stmt(st, name):
                ds = rd.def_stmt(d)
                if ds is None or id(ds) in seen:
                    continue
                seen.add(id(ds))
                v = ds.value if isinstance(ds, (ast.Assign, ast.AugAssign)) else None
                if v is None:
                    continue
                for a in ast.walk(v):
                    if isinstance(a, ast.Attribute) and astq.is_name(a.value, me) and a.attr not in ("vals", "_vals", "outlinks"):
                        bad.append((ds, a))
                    if isinstance(a, ast.Name) and a.id != name and a.id not in ("np", me):
                        work.append((ds, a.id))
                if isinstance(ds, ast.AugAssign) or any(isinstance(a, ast.Name) and a.id == name for a in ast.walk(v)):
                    work.append((ds, name))
        ctx.check(not bad, "R02g", fi, bad[0][0] if bad else uses[0], "the factor applied to the stock is computed from this step's requests", "`%s` feeds the rescale factor from `%s`, a value kept on the object between steps: when the requested outflows change (time-varying data, number transitions, programs) the old factor is applied and more people can leave than are present" % (norm(bad[0][0])[:60] if bad else "", ast.unparse(bad[0][1]) if bad else ""))
        stores = [s for s, t, k, v in astq.stores(fi.node) if k in ("assign", "aug") and isinstance(astq.strip_subs(t), ast.Attribute) and astq.is_name(astq.strip_subs(t).value, me) and astq.strip_subs(t).attr not in ("_cached_outflow",)]
        ctx.check(not stores, "R02g", fi, stores[0] if stores else fi.node, "nothing but the per-step outflow cache is stored on self", "`%s` keeps state on the compartment across steps: resolve_outflows must be a function of the current step only" % (norm(stores[0])[:70] if stores else ""), stmt_text="resolve-stores:%s" % ci.name)
    ctx.require(n >= 2, "R02g: fewer resolve_outflows implementations (%d) than confirmed (2)" % n)
