"""C05 - timed compartments release every cohort exactly when its duration expires (DESIGN 4, C05)."""
import ast

from ..core.loader import AnalysisError, own_nodes, norm, enclosing_stmt
from ..core import astq
from ..core.cfg import guards_of, branch_guards
from ..core.dataflow import assigned_value
from . import common as K
from . import flowalg
from . import discretise

EXPLANATION = (
    "R05a: the number of keyring rows is not obtained by ceil/int directly on the raw float quotient duration/dt (5/12 over 1/12 would give 6 rows); "
    "R05b: the two keyring-size computations (TimedCompartment.preallocate, junction-sourced TimedLink.preallocate) apply the same function incl. the floor of one row; "
    "R05c: a TimedLink is created exactly when the destination is in the source's duration group, a plain Link otherwise, and the flush link is never a TimedLink; "
    "R05d: timed links are excluded from row 0 consistently (rescale accumulator and link write); "
    "R05e: keyring direction: arrivals enter the last row, each step shifts rows towards row 0, row 0 is what the flush link empties, the vacated last row is zeroed. "
    "R05f: every call of resolve_outflows recomputes the cached outflow before it returns (an early return would leave the previous step's outflow to be subtracted from the next arrivals). Occupancy bounds and uniform initial spread as numbers are not decided."
)


def run(ctx):
    repo = ctx.repo
    ctx.each(r05a, ctx, repo)
    ctx.each(r05b, ctx, repo)
    ctx.each(r05c, ctx, repo)
    ctx.each(r05d, ctx, repo)
    ctx.each(r05e, ctx, repo)
    ctx.each(r05f, ctx, repo)
    ctx.each(r05g, ctx, repo)
    ctx.each(flowalg.duration_rule, ctx, repo, "R05h")
    ctx.each(flowalg.flush_formula_rule, ctx, repo, "R05i")
    ctx.each(r05k, ctx, repo)
    ctx.each(r05n, ctx, repo)
    from . import c06 as _c06

    ctx.each(_c06.r06o, ctx, repo)  # a timed duration given by a function is evaluated before the keyring is sized
    ctx.each(flowalg.share_rule, ctx, repo, "R05m")  # a junction inside a duration group passes every keyring row on in full: the share algebra per row
    ctx.each(flowalg.kind_dispatch_rule, ctx, repo, "R05l")
    ctx.each(discretise.snap_tolerance_rule, ctx, repo, "R05j", [("model", _row_count_helper(repo))])


SITES = (("model", "TimedCompartment.preallocate"), ("model", "TimedLink.preallocate"))


def r05a(ctx, repo):
    ctx.rule("R05a", "keyring size: no ceil/int/floor directly on the raw quotient duration/dt")
    n = 0
    for m, q in SITES:
        fi = repo.func(m, q)
        n += discretise.check_function(ctx, repo, fi, "R05a", "number of keyring rows", follow_helpers=True, require_site=True)
    ctx.require(n >= 2, "R05a: fewer keyring discretisation sites (%d) than confirmed (2)" % n)


def _rows_expr(repo, fi):
    """Row-count expressions: first element of the shape tuple handed to np.empty/np.zeros/np.full when it is not copied from another array's .shape."""
    out = []
    for c in own_nodes(fi.node):
        if isinstance(c, ast.Call) and ast.unparse(c.func) in ("np.empty", "np.zeros", "np.full", "np.ones") and c.args and isinstance(c.args[0], ast.Tuple) and len(c.args[0].elts) == 2:
            out.append((c.args[0].elts[0], enclosing_stmt(c)))
    return out


def _features(repo, fi, expr, stmt, depth=0):
    """Names of the functions applied on the way from (duration, dt) to the row count."""
    feats = set()
    for n in ast.walk(expr):
        if isinstance(n, ast.Call):
            feats.add(ast.unparse(n.func))
        elif isinstance(n, ast.Name) and depth < 3:
            rd = K.rdefs(repo, fi)
            for d in rd.reaching_at_stmt(stmt, n.id):
                ds = rd.def_stmt(d)
                v = assigned_value(ds, n.id) if ds is not None else None
                if v is not None and any(isinstance(x, (ast.Call)) for x in ast.walk(v)) and any(isinstance(x, ast.BinOp) and isinstance(x.op, ast.Div) for x in ast.walk(v)):
                    feats |= _features(repo, fi, v, ds, depth + 1)
    return feats


def r05b(ctx, repo):
    ctx.rule("R05b", "sibling agreement: both keyring-size computations apply the same functions (same helper, or the same ceil + max(1,.) floor)")
    feats = {}
    for m, q in SITES:
        fi = repo.func(m, q)
        rows = _rows_expr(repo, fi)
        ctx.require(rows, "R05b: %s: keyring allocation np.empty((rows, tvec.size)) not found" % q)
        f = set()
        for e, st in rows:
            f |= _features(repo, fi, e, st)
        feats[q] = (f, rows[0][1], fi)
    (qa, (fa, sa, fia)), (qb, (fb, sb, fib)) = list(feats.items())
    ctx.check(fa == fb, "R05b", fib, sb, "row count computed by the same functions in both siblings: %s" % sorted(fa), "keyring size is computed differently in %s (%s) and %s (%s): a duration shorter than one step gives a junction-sourced timed link zero rows, and the two can disagree on the number of rows" % (qa, sorted(fa), qb, sorted(fb)))
    # informational
    for m, q in SITES:
        fi = repo.func(m, q)
        has_const_assert = any(isinstance(s, ast.Assert) and "vals[0]" in ast.unparse(s.test) and "np.all" in ast.unparse(s.test) for s in own_nodes(fi.node))
        ctx.note("R05b", "%s %s the duration parameter is constant before reading index 0" % (q, "asserts" if has_const_assert else "does NOT assert"))


def _create_calls(fi):
    out = []
    for c in own_nodes(fi.node):
        if isinstance(c, ast.Call) and isinstance(c.func, ast.Attribute) and c.func.attr == "create" and isinstance(c.func.value, ast.Name) and c.func.value.id in ("TimedLink", "Link"):
            out.append((c.func.value.id, c))
    return out


def _unnot(gs):
    out = []
    for t, pol in gs:
        while isinstance(t, ast.UnaryOp) and isinstance(t.op, ast.Not):
            t, pol = t.operand, not pol
        out.append((t, pol))
    return out


def r05c(ctx, repo):
    ctx.rule("R05c", "link kind follows the duration group: TimedLink.create only under a test that the destination belongs to the source's duration group, Link.create otherwise; flush link asserted not to be a TimedLink")
    # TimedCompartment.connect
    fi = repo.func("model", "TimedCompartment.connect")
    me = K.self_name(fi)
    dest = fi.params[1]
    calls = _create_calls(fi)
    timed = [c for k, c in calls if k == "TimedLink"]
    plain = [c for k, c in calls if k == "Link"]
    ctx.require(calls, "R05c: no Link.create/TimedLink.create in TimedCompartment.connect")

    def group_test(test):
        """Every disjunct of the test compares the destination's duration group with this compartment's."""
        disj = test.values if isinstance(test, ast.BoolOp) and isinstance(test.op, ast.Or) else [test]

        def one(d):
            conj = d.values if isinstance(d, ast.BoolOp) and isinstance(d.op, ast.And) else [d]
            found = False
            for x in conj:
                if isinstance(x, ast.Call) and astq.is_name(x.func, "isinstance") and astq.is_name(x.args[0], dest):
                    continue
                if isinstance(x, ast.Compare) and len(x.ops) == 1 and isinstance(x.ops[0], ast.Eq):
                    l, r = ast.unparse(x.left), ast.unparse(x.comparators[0])
                    ok = False
                    for a, b in ((l, r), (r, l)):
                        if a.startswith(dest + ".") and (a.endswith(".parameter.name") or a.endswith(".duration_group")) and b.startswith(me + ".") and (b.endswith(".parameter.name") or b.endswith(".duration_group")):
                            ok = True
                    if ok:
                        found = True
                        continue
                return False  # a conjunct that is neither the kind test nor the group comparison (a negation, another condition ...)
            return found

        return all(one(d) for d in disj)

    ctx.check(bool(timed) and all(any(pol and group_test(t) for t, pol in _unnot(guards_of(c))) for c in timed), "R05c", fi, enclosing_stmt(timed[0]) if timed else fi.node, "TimedLink only into the same duration group", "TimedCompartment.connect creates a TimedLink without testing that the destination is in the same duration group: elapsed time is carried into an unrelated compartment" if timed else "TimedCompartment.connect never creates a TimedLink: moves inside a duration group restart the clock")
    ctx.check(bool(plain) and all(any((not pol) and group_test(t) for t, pol in _unnot(guards_of(c))) for c in plain), "R05c", fi, enclosing_stmt(plain[0]) if plain else fi.node, "plain Link to every other destination", "TimedCompartment.connect does not create a plain Link for destinations outside the duration group")
    fl = [s for s, t, k, v in astq.stores(fi.node) if k == "assign" and ast.unparse(t) == "%s.flush_link" % me]
    ctx.require(fl, "R05c: flush_link assignment not found in TimedCompartment.connect")
    cfg = K.cfg(repo, fi)
    for s in fl:
        v = ast.unparse(s.value)
        guards = [a for a in own_nodes(fi.node) if isinstance(a, ast.Assert) and ast.unparse(a.test) == "not isinstance(%s, TimedLink)" % v]
        guards += [a for a in own_nodes(fi.node) if isinstance(a, ast.If) and ast.unparse(a.test) == "isinstance(%s, TimedLink)" % v and a.body and isinstance(a.body[-1], ast.Raise)]
        ctx.check(any(cfg.dominates(g, s) for g in guards), "R05c", fi, s, "flush link checked not to be a TimedLink", "the flush link is assigned without checking that it is not a TimedLink: flushing must restart the elapsed time")
    # JunctionCompartment.connect
    fi = repo.func("model", "JunctionCompartment.connect")
    me = K.self_name(fi)
    calls = _create_calls(fi)
    timed = [c for k, c in calls if k == "TimedLink"]
    plain = [c for k, c in calls if k == "Link"]
    dg = "%s.duration_group" % me
    ctx.check(bool(timed) and all(any(pol and ast.unparse(t) in (dg, "%s is not None" % dg) for t, pol in guards_of(c)) for c in timed), "R05c", fi, enclosing_stmt(timed[0]) if timed else fi.node, "junction in a duration group emits TimedLinks", "JunctionCompartment.connect does not create TimedLinks exactly when the junction belongs to a duration group")
    ctx.check(bool(plain) and all(any((not pol) and ast.unparse(t) in (dg, "%s is not None" % dg) for t, pol in guards_of(c)) for c in plain), "R05c", fi, enclosing_stmt(plain[0]) if plain else fi.node, "junction outside any duration group emits plain Links", "JunctionCompartment.connect does not create plain Links for junctions outside a duration group")
    mism = [r for r in own_nodes(fi.node) if isinstance(r, ast.Raise) and any(pol and "duration_group !=" in ast.unparse(t) for t, pol in guards_of(r))]
    ctx.check(bool(mism), "R05c", fi, enclosing_stmt(mism[0]) if mism else fi.node, "mismatched downstream duration group is refused", "JunctionCompartment.connect no longer refuses a destination in a different duration group")


def r05d(ctx, repo):
    ctx.rule("R05d", "row-0 exclusion agreement in TimedCompartment.resolve_outflows: timed links are left out of row 0 of the rescale total iff their row-0 flow is zeroed")
    fi = repo.func("model", "TimedCompartment.resolve_outflows")
    acc_excl = None
    write_excl = False
    for s in own_nodes(fi.node):
        if isinstance(s, ast.AugAssign) and ast.unparse(s.value).endswith("._cache") and isinstance(s.target, ast.Subscript):
            timed_branch = any(pol and ast.unparse(t).startswith("isinstance(") and "TimedLink" in ast.unparse(t) for t, pol in guards_of(s))
            if timed_branch:
                sl = s.target.slice
                acc_excl = isinstance(sl, ast.Slice) and isinstance(sl.lower, ast.Constant) and sl.lower.value == 1 and sl.upper is None
                acc_stmt = s
        if isinstance(s, ast.Assign) and isinstance(s.targets[0], ast.Subscript) and ast.unparse(s.targets[0].value).endswith("._vals"):
            timed_branch = any(pol and ast.unparse(t).startswith("isinstance(") and "TimedLink" in ast.unparse(t) for t, pol in guards_of(s))
            row = K.row_index_of(s.targets[0])
            if timed_branch and isinstance(row, ast.Constant) and row.value == 0 and isinstance(s.value, ast.Constant) and s.value.value in (0, 0.0):
                write_excl = True
    ctx.require(acc_excl is not None, "R05d: accumulation of timed-link fractions not found in TimedCompartment.resolve_outflows")
    ctx.check(acc_excl == write_excl and acc_excl, "R05d", fi, acc_stmt, "timed links excluded from row 0 in both the total and the write", "timed links are %s the rescale total of row 0 but their row-0 flow is %s: the final-bin cohort is %s" % ("excluded from" if acc_excl else "included in", "zeroed" if write_excl else "not zeroed", "moved by a time-preserving link it must not use, and over-drawn" if not write_excl else "rescaled by outflows that never leave it"))


def r05e(ctx, repo):
    ctx.rule("R05e", "keyring direction: arrivals enter row -1, the step shifts rows [1:] into [0:-1] and zeroes row -1, the flush link empties row 0")
    fi = repo.func("model", "TimedCompartment.update")
    me = K.self_name(fi)
    tname = K.time_param(fi)
    shift = None
    for s in own_nodes(fi.node):
        if isinstance(s, ast.Assign) and isinstance(s.targets[0], ast.Subscript) and ast.unparse(s.targets[0].value) == "%s._vals" % me and isinstance(s.value, ast.Subscript) and ast.unparse(s.value.value) == "%s._vals" % me:
            a, b = K.row_index_of(s.targets[0]), K.row_index_of(s.value)
            if isinstance(a, ast.Slice) and isinstance(b, ast.Slice):
                shift = (s, a, b)
    ctx.require(shift is not None, "R05e: keyring shift statement not found in TimedCompartment.update")
    s, a, b = shift

    def c(v):
        if v is None:
            return None
        try:
            return ast.literal_eval(v)
        except Exception:
            return "?"

    toward_zero = c(a.lower) in (0, None) and c(a.upper) == -1 and c(b.lower) == 1 and c(b.upper) is None
    ctx.check(toward_zero, "R05e", fi, s, "rows shift one step towards row 0", "the keyring shift `%s` does not move rows [1:] into [0:-1]: cohorts do not advance one step towards the flush row" % norm(s))
    blk = getattr(s, "_parent", None)
    zero_last = [z for z in getattr(blk, "body", []) if isinstance(z, ast.Assign) and ast.unparse(z.targets[0]) == "%s._vals[-1, %s]" % (me, tname) and isinstance(z.value, ast.Constant) and z.value.value in (0, 0.0) and z.lineno > s.lineno]
    ctx.check(bool(zero_last), "R05e", fi, s, "vacated arrival row zeroed after the shift", "after the shift the arrival row is not zeroed: the previous arrivals are duplicated")
    arrivals = [x for x in own_nodes(fi.node) if isinstance(x, ast.AugAssign) and any(pol and ast.unparse(t).startswith("not isinstance(") and "TimedLink" in ast.unparse(t) for t, pol in guards_of(x))]
    ctx.require(arrivals, "R05e: ordinary (non-timed) inflow statement not found in TimedCompartment.update")
    for x in arrivals:
        row = K.row_index_of(x.target) if isinstance(x.target, ast.Subscript) else None
        ctx.check(row is not None and c(row) == -1, "R05e", fi, x, "new arrivals enter the last row", "ordinary inflow is added to row `%s`, not to the last row: the cohort does not stay for the full duration" % (ast.unparse(row) if row is not None else "?"))
        # arrivals are added after the shift (otherwise they would be moved one row on entry)
        ctx.check(x.lineno > s.lineno, "R05e", fi, x, "arrivals added after the shift", "ordinary inflow is added before the keyring is advanced: arrivals lose one step")
    ro = repo.func("model", "TimedCompartment.resolve_outflows")
    me2 = K.self_name(ro)
    t2 = K.time_param(ro)
    fl = [s_ for s_, t_, k, v in astq.stores(ro.node) if k == "assign" and ast.unparse(t_) == "%s.flush_link.vals[%s]" % (me2, t2)]
    ctx.require(fl, "R05e: flush link store not found")
    ctx.check(("%s._vals[0, %s]" % (me2, t2)) in ast.unparse(fl[0].value), "R05e", ro, fl[0], "flush link empties row 0", "the flush link does not empty row 0 of the keyring")
    # uniform initial spread: __setitem__ divides by the number of rows
    si = repo.func("model", "TimedCompartment.__setitem__")
    spread = any(isinstance(x, ast.BinOp) and isinstance(x.op, ast.Div) and "shape[0]" in ast.unparse(x.right) for x in own_nodes(si.node))
    ctx.check(spread, "R05e", si, si.node, "initial occupants spread uniformly over the rows", "TimedCompartment.__setitem__ no longer divides the initial occupants by the number of rows")


def thorough(ctx):
    from . import sweeps

    sweeps.discretisation_sweep(ctx, ctx.repo, "R05a")


def r05f(ctx, repo):
    from ..core.cfg import ENTRY, EXIT

    ctx.rule("R05f", "resolve_outflows assigns self._cached_outflow on every path to a normal return (the cache is per step; update() subtracts it unconditionally)")
    for q in ("Compartment.resolve_outflows", "TimedCompartment.resolve_outflows"):
        fi = repo.func("model", q)
        me = K.self_name(fi)
        cfg = K.cfg(repo, fi)
        resets = [s for s, t, k, v in astq.stores(fi.node) if k == "assign" and ast.unparse(t) == "%s._cached_outflow" % me]
        ids = [i for r in resets for i in cfg.ids(r)]
        leak = cfg.find_path([ENTRY], [EXIT], avoid_ids=ids)
        ctx.check(bool(resets) and not leak, "R05f", fi, resets[0] if resets else fi.node, "cached outflow recomputed on every path", "%s can return without recomputing self._cached_outflow (%s): update() then subtracts the outflow of an earlier step from the next arrivals, so a cohort that enters an emptied compartment is lost instead of leaving through the timed outflow on time" % (q, cfg.describe_path(leak) if leak else "no reset"))


def _row_count_helper(repo):
    """name of the module-level function that TimedCompartment.preallocate calls to turn (duration, dt) into a number of rows"""
    fi = repo.func("model", "TimedCompartment.preallocate")
    for c in own_nodes(fi.node):
        if isinstance(c, ast.Call) and ast.unparse(c.func) in ("np.empty", "np.zeros", "np.full") and c.args and isinstance(c.args[0], ast.Tuple) and c.args[0].elts and isinstance(c.args[0].elts[0], ast.Call) and isinstance(c.args[0].elts[0].func, ast.Name):
            return c.args[0].elts[0].func.id
    return "_keyring_size"


def _init_of(repo, ci):
    """The __init__ that runs for class ``ci`` (first along the MRO)."""
    for c in repo.mro(ci):
        if "__init__" in c.methods:
            return c.methods["__init__"]
    return None


def r05g(ctx, repo):
    ctx.rule("R05g", "the model object knows every duration-group membership the framework states: in Population.build, each compartment constructor whose __init__ has a `duration_group` parameter is called with duration_group=<the framework's 'duration group' cell of that compartment>, and TimedCompartment gets parameter=self.par_lookup[<that cell>] (link kinds - R05c - are decided from these attributes)")
    fi = repo.func("model", "Population.build")
    fam = {ci.name: ci for ci in K.comp_family(repo)}
    once = {}
    for a in own_nodes(fi.node):
        if isinstance(a, ast.Assign) and len(a.targets) == 1 and isinstance(a.targets[0], ast.Name):
            once.setdefault(a.targets[0].id, []).append(a.value)

    def cell(e):
        """text of e with single-assignment locals expanded"""
        if isinstance(e, ast.Name) and len(once.get(e.id, [])) == 1:
            return cell(once[e.id][0])
        return ast.unparse(e)

    loops = [l for l in own_nodes(fi.node) if isinstance(l, ast.For) and "comps.index" in ast.unparse(l.iter) and isinstance(l.target, ast.Name)]
    ctx.require(len(loops) >= 1, "R05g: loop over the framework's compartments not found in Population.build")
    lv = loops[0].target.id
    want = "comps.at[%s, 'duration group']" % lv
    n = 0
    for c in own_nodes(fi.node):
        if isinstance(c, ast.Call) and isinstance(c.func, ast.Name) and c.func.id in fam and any(x is c for x in ast.walk(loops[0])):
            init = _init_of(repo, fam[c.func.id])
            if init is None:
                continue
            if "duration_group" in init.params:
                n += 1
                kw = astq.kwarg(c, "duration_group", pos=init.params.index("duration_group") - 1)
                ok = kw is not None and cell(kw) == want
                ctx.check(ok, "R05g", fi, enclosing_stmt(c), "%s(...) receives the framework's duration group" % c.func.id, "`%s` does not pass duration_group=%s: the constructor default is None, the junction is then outside its duration group in the model, links through it become plain Links and people passing through it lose their elapsed time (they stay longer than the group's duration)" % (ast.unparse(c)[:80], want))
            if c.func.id == "TimedCompartment" or "parameter" in init.params and fam[c.func.id].name.startswith("Timed"):
                n += 1
                kw = astq.kwarg(c, "parameter", pos=init.params.index("parameter") - 1)
                ok = kw is not None and isinstance(kw, ast.Subscript) and ast.unparse(kw.value).endswith(".par_lookup") and cell(kw.slice) == want
                ctx.check(ok, "R05g", fi, enclosing_stmt(c), "TimedCompartment receives the duration group's parameter", "`%s` does not pass parameter=self.par_lookup[%s]" % (ast.unparse(c)[:80], want))
                g = [ast.unparse(t) for t, pol in guards_of(c, stop=loops[0]) if pol]
                ctx.check(any(cell_txt == want for cell_txt in [cell(t) for t, pol in guards_of(c, stop=loops[0]) if pol]), "R05g", fi, enclosing_stmt(c), "a compartment with a duration group becomes a TimedCompartment", "TimedCompartment is not created under the test `%s` (conditions: %s)" % (want, g), stmt_text="timed-iff-duration-group")
    ctx.require(n >= 3, "R05g: fewer duration-group constructor sites (%d) in Population.build than confirmed (3)" % n)


def r05k(ctx, repo):
    from ..core import boolx as B

    ctx.rule("R05k", "a junction belongs to a duration group exactly when the documented condition holds: in ProjectFramework._assign_junction_duration_groups the store of the junction's 'duration group' is reached iff there is exactly one attached group upstream and downstream, the attached groups are all the groups on each side, and both sides agree - no other exit (continue / return) in the junction loop can skip the decision; the attachment test of a connection is `par == '>' or the parameter is not timed`")
    fi = repo.func("framework", "ProjectFramework._assign_junction_duration_groups")
    st = [s for s in own_nodes(fi.node) if isinstance(s, ast.Assign) and isinstance(s.targets[0], ast.Subscript) and "'duration group'" in ast.unparse(s.targets[0].slice) and ast.unparse(s.targets[0].value).endswith(".comps.at")]
    ctx.require(len(st) == 1, "R05k: the assignment of a junction's duration group was not found")
    loops = K.enclosing_loops(st[0])
    ctx.require(bool(loops), "R05k: the junction loop was not found")
    want = B.parse_cond("len(upstream_attachments) == 1 and len(downstream_attachments) == 1 and upstream_attachments == upstream_groups and downstream_attachments == downstream_groups and upstream_attachments == downstream_attachments")
    got = B.cond(guards_of(st[0], stop=loops[0], asserts=False))
    ok = B.equivalent(got, want)
    ctx.check(ok, "R05k", fi, st[0], "membership decided by the documented condition only", "the junction's duration group is assigned under a condition that differs from the documented one (e.g. when %s): a junction that should carry elapsed time through is left outside its group (or the reverse), the links through it become plain Links and cohorts passing through it restart their clock" % B.counterexample(got, want))
    ok = ast.unparse(st[0].value) == "list(upstream_attachments)[0]"
    ctx.check(ok, "R05k", fi, st[0], "the group assigned is the one attached group", "`%s` does not assign the single attached group" % norm(st[0])[:80], stmt_text="group-value")
    # the two traversals feed the decision
    tr = [s for s in loops[0].body if isinstance(s, ast.Assign) and isinstance(s.value, ast.Call) and ast.unparse(s.value.func) == "get_attached_comps"]
    dirs = sorted(ast.unparse(s.value.args[2]) for s in tr if len(s.value.args) >= 3)
    ctx.check(dirs == ["'downstream'", "'upstream'"], "R05k", fi, tr[0] if tr else loops[0], "both directions traversed for every junction", "the upstream and downstream traversals are not both performed (unconditionally) for every junction", stmt_text="traversals")
    # attachment test inside the traversal
    inner = fi.nested.get("get_attached_comps") if hasattr(fi, "nested") else None
    if inner is not None:
        att = inner.params[-1]  # (G, comp_name, direction, comps, groups, attachments): the returned set of attached groups is the last parameter
        adds = [c for c in own_nodes(inner.node) if isinstance(c, ast.Call) and ast.unparse(c.func) == "%s.add" % att]
        ok = len(adds) == 1
        if ok:
            g = branch_guards(enclosing_stmt(adds[0]))
            ok = any(pol and B.equivalent(B.of(t), B.parse_cond("par == '>' or not (self.pars.at[par, 'timed'] == 'y')")) for t, pol in g)
        ctx.check(ok, "R05k", inner, enclosing_stmt(adds[0]) if adds else inner.node, "a connection attaches its group unless it is the timed (flush) outflow", "the attachment test of get_attached_comps is not `par == '>' or self.pars.at[par, 'timed'] != 'y'`", stmt_text="attachment-test")


def r05n(ctx, repo):
    from ..core import boolx as B

    ctx.rule("R05n", "the traversal that decides a junction's duration group looks at the right neighbours: get_attached_comps takes the in-edges of the node and the *source* end of each edge (x[0]) when walking upstream, the out-edges and the *target* end (x[1]) when walking downstream, each with the edge's parameter; it skips edges without a parameter, recurses through junctions (same direction, same accumulator sets), and for every other compartment records the compartment, its duration group when it has one, and the group as an attachment unless the edge is the timed (flush) outflow; it returns the three sets")
    fi = repo.func("framework", "ProjectFramework._assign_junction_duration_groups")
    inner = fi.nested.get("get_attached_comps") if hasattr(fi, "nested") else None
    ctx.require(inner is not None, "R05n: nested function get_attached_comps not found")
    G, node, direction, comps, groups, att = inner.params[:6]
    want = {"upstream": ("in_edges", "0"), "downstream": ("out_edges", "1")}
    for d, (meth, end) in want.items():
        e = [s_ for s_ in own_nodes(inner.node) if isinstance(s_, ast.Assign) and isinstance(s_.value, ast.Call) and ast.unparse(s_.value.func) == "%s.%s" % (G, meth)]
        ok = len(e) == 1 and ast.unparse(e[0].value.args[0]) == node and B.equivalent(B.cond(branch_guards(e[0], stop=inner.node)), B.parse_cond("%s == '%s'" % (direction, d)) if d == "upstream" else B.parse_cond("not (%s == 'upstream') and %s == 'downstream'" % (direction, direction)))
        if ok:
            blk = e[0]._parent.body if any(e[0] is x for x in e[0]._parent.body) else e[0]._parent.orelse
            it = [s_ for s_ in blk if isinstance(s_, ast.Assign) and isinstance(s_.value, ast.ListComp) and ast.unparse(s_.value.generators[0].iter) == ast.unparse(e[0].targets[0])]
            ok = len(it) == 1 and isinstance(it[0].value.elt, ast.Tuple) and len(it[0].value.elt.elts) == 2
            if ok:
                v = it[0].value.generators[0].target.id
                ok = ast.unparse(it[0].value.elt.elts[0]) == "%s[%s]" % (v, end) and ast.unparse(it[0].value.elt.elts[1]) == "%s[2]['par']" % v
        ctx.check(ok, "R05n", inner, e[0] if e else inner.node, "%s: %s, neighbour = edge end %s, with the edge parameter" % (d, meth, end), "walking %s, get_attached_comps does not take `%s.%s(%s, data=True)` and pair `x[%s]` with `x[2]['par']`: it looks at the wrong neighbours (or at the node itself), so a junction is put into - or left out of - a duration group on the basis of compartments it is not connected to on that side" % (d, G, meth, node, end), stmt_text="traverse:%s" % d)
    loops = [l for l in own_nodes(inner.node) if isinstance(l, ast.For) and isinstance(l.target, ast.Tuple) and len(l.target.elts) == 2]
    ctx.require(len(loops) == 1, "R05n: the loop over (compartment, parameter) items was not found")
    lp = loops[0]
    c, p = (x.id for x in lp.target.elts)
    rec = [x for x in ast.walk(lp) if isinstance(x, ast.Call) and ast.unparse(x.func) == inner.node.name]
    ok = len(rec) == 1 and [ast.unparse(a) for a in rec[0].args] == [G, c, direction, comps, groups, att] and B.equivalent(B.cond(branch_guards(enclosing_stmt(rec[0]), stop=lp)), B.parse_cond("not (%s is None) and self.comps.at[%s, 'is junction'] == 'y'" % (p, c)))
    ctx.check(ok, "R05n", inner, enclosing_stmt(rec[0]) if rec else lp, "junction neighbours are traversed through (same direction, same sets)", "get_attached_comps does not recurse into junction neighbours with `%s(%s, %s, %s, %s, %s, %s)` exactly for edges that have a parameter and lead to a junction" % (inner.node.name, G, c, direction, comps, groups, att), stmt_text="traverse:recursion")
    adds = {}
    for x in ast.walk(lp):
        if isinstance(x, ast.Call) and isinstance(x.func, ast.Attribute) and x.func.attr == "add" and isinstance(x.func.value, ast.Name):
            adds[x.func.value.id] = x
    base = "not (%s is None) and not (self.comps.at[%s, 'is junction'] == 'y')" % (p, c)
    okc = comps in adds and ast.unparse(adds[comps].args[0]) == c and B.equivalent(B.cond(branch_guards(enclosing_stmt(adds[comps]), stop=lp)), B.parse_cond(base))
    ctx.check(okc, "R05n", inner, enclosing_stmt(adds[comps]) if comps in adds else lp, "every non-junction neighbour with a parameter is recorded", "the neighbour compartment is not added to `%s` exactly for edges with a parameter that lead to a non-junction" % comps, stmt_text="traverse:comps")
    gdef = [s_ for s_ in ast.walk(lp) if isinstance(s_, ast.Assign) and isinstance(s_.targets[0], ast.Name) and ast.unparse(s_.value) == "self.comps.at[%s, 'duration group']" % c]
    okg = len(gdef) == 1 and groups in adds and ast.unparse(adds[groups].args[0]) == gdef[0].targets[0].id and B.equivalent(B.cond(branch_guards(enclosing_stmt(adds[groups]), stop=lp)), B.parse_cond(base + " and not (%s is None)" % gdef[0].targets[0].id))
    ctx.check(okg, "R05n", inner, enclosing_stmt(adds[groups]) if groups in adds else lp, "the neighbour's duration group is recorded when it has one", "the duration group of the neighbour (`self.comps.at[%s, 'duration group']`) is not added to `%s` exactly when it is not None" % (c, groups), stmt_text="traverse:groups")
    rets = [r for r in own_nodes(inner.node) if isinstance(r, ast.Return)]
    ctx.check(len(rets) == 1 and ast.unparse(rets[0].value) in ("(%s, %s, %s)" % (comps, groups, att), "%s, %s, %s" % (comps, groups, att)), "R05n", inner, rets[0] if rets else inner.node, "returns (comps, groups, attachments)", "get_attached_comps does not return (%s, %s, %s)" % (comps, groups, att), stmt_text="traverse:return")
