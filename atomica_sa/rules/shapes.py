"""
Shape rules shared by several properties (added after seeded round 6):

argument_use_rule   a parameter that the frozen signature table (tables/signatures.json) records as read is still read:
                    an argument that is accepted and then ignored silently changes what the caller asked for
                    (population selection dropped, time window dropped ...).
copy_hook_rule      a class-defined __deepcopy__/__copy__ re-creates every field that some method of the class mutates
                    in place; a field shared between the copy and the source turns "sample a copy" into "edit the source".
resolved_name_rule  once a method has resolved a user-supplied name to a code name, the raw name is no longer used as a key.
"""
import ast
import json
import os

from ..core.loader import own_nodes, enclosing_stmt

TABLES = os.path.join(os.path.dirname(os.path.abspath(__file__)), "tables")


def functions_of(tree):
    for n in tree.body:
        if isinstance(n, (ast.FunctionDef, ast.AsyncFunctionDef)):
            yield n.name, n
        elif isinstance(n, ast.ClassDef):
            for m in n.body:
                if isinstance(m, (ast.FunctionDef, ast.AsyncFunctionDef)):
                    kind = ""
                    for d in m.decorator_list:
                        if isinstance(d, ast.Attribute) and d.attr in ("setter", "deleter"):
                            kind = "@" + d.attr
                    yield "%s.%s%s" % (n.name, m.name, kind), m


def all_params(fn):
    a = fn.args
    return [x.arg for x in a.posonlyargs + a.args + a.kwonlyargs] + ([a.vararg.arg] if a.vararg else []) + ([a.kwarg.arg] if a.kwarg else [])


def params_read(fn):
    used = {n.id for n in ast.walk(fn) if isinstance(n, ast.Name) and isinstance(n.ctx, (ast.Load, ast.Del))}
    return [p for p in all_params(fn) if p not in ("self", "cls") and p in used]


def argument_use_rule(ctx, repo, rule_id, modules, why):
    ctx.rule(rule_id, "no argument is silently ignored: every parameter that the reviewed tree reads (tables/signatures.json, regenerated only by hand) and that is still in the signature is still read somewhere in the function (modules: %s). %s" % (", ".join(modules), why))
    table = json.load(open(os.path.join(TABLES, "signatures.json")))
    n = 0
    for mod in modules:
        m = repo.module(mod)
        tab = table.get(mod, {})
        present = dict(functions_of(m.tree))
        for qn, want in sorted(tab.items()):
            fn = present.get(qn)
            if fn is None:
                continue  # renamed / removed: other rules anchor on the functions they need
            have = set(all_params(fn))
            read = set(params_read(fn))
            fi = repo.func(mod, qn.split("@")[0], setter=qn.endswith("@setter")) if repo.has_func(mod, qn.split("@")[0], setter=qn.endswith("@setter")) else None
            if fi is None:
                continue
            judged = [p for p in want if p in have]  # a parameter renamed or removed makes callers fail loudly: nothing is ignored silently
            n += len(judged)
            if judged and all(p in read for p in judged):
                ctx.ok(rule_id, fi, "reads its parameters %s" % ", ".join(judged))
            for p in judged:
                if p in read:
                    continue
                ctx.fail(rule_id, fi, fi.node, "parameter `%s` of %s is accepted but never read any more: the value the caller passes is silently ignored" % (p, qn), stmt_text="ignored-parameter:%s" % p)
    ctx.require(n >= 20, "%s: only %d (function, parameter) obligations found for %s" % (rule_id, n, modules))
    ctx.note(rule_id, "%d (function, parameter) obligations checked" % n)


COPIERS = {"sc.dcp", "dcp", "copy.deepcopy", "deepcopy", "copy.copy", "list", "dict", "set", "np.array", "np.copy", "sc.odict", "odict"}
MUTATORS = {"append", "extend", "insert", "remove", "pop", "clear", "update", "setdefault", "popitem", "sort", "reverse", "add", "discard", "fill", "rename", "insert_value", "remove_between", "remove_after", "remove_before"}


def _self_attr(e, selfname="self"):
    """self.X... -> X for the outermost attribute directly on self"""
    while isinstance(e, (ast.Subscript, ast.Attribute)):
        if isinstance(e, ast.Attribute) and isinstance(e.value, ast.Name) and e.value.id == selfname:
            return e.attr
        e = e.value
    return None


def inplace_mutated_fields(repo, ci):
    """field -> (method, stmt) for fields of ``ci`` that a method of the class (or of a subclass / base) changes in place rather than rebinding"""
    out = {}
    classes = [ci] + [c for c in repo.subclasses(ci, strict=True)] + [c for c in repo.mro(ci) if c is not ci]
    for c in classes:
        for fi in c.methods.values():
            if fi.node.name in ("__deepcopy__", "__copy__"):
                continue
            if not fi.params or fi.node.name in ("__init__", "__setstate__"):
                continue  # construction / unpickling fill a fresh object
            s = fi.params[0]
            rebound = {}  # field -> first line where the method rebinds it unconditionally (self.X = ...)
            for st in fi.node.body:
                if isinstance(st, ast.Assign):
                    for t in st.targets:
                        if isinstance(t, ast.Attribute) and isinstance(t.value, ast.Name) and t.value.id == s:
                            rebound.setdefault(t.attr, st.lineno)
            for n in ast.walk(fi.node):
                tgt = []
                if isinstance(n, ast.Assign):
                    tgt = n.targets
                elif isinstance(n, (ast.AugAssign, ast.AnnAssign)):
                    tgt = [n.target]
                elif isinstance(n, ast.Delete):
                    tgt = n.targets
                for t in tgt:
                    for x in (t.elts if isinstance(t, (ast.Tuple, ast.List)) else [t]):
                        if isinstance(x, ast.Subscript) or (isinstance(x, ast.Attribute) and not (isinstance(x.value, ast.Name) and x.value.id == s)):
                            f = _self_attr(x, s)
                            if f and not (f in rebound and rebound[f] < n.lineno):
                                out.setdefault(f, (fi, n))
                if isinstance(n, ast.Call) and isinstance(n.func, ast.Attribute) and n.func.attr in MUTATORS:
                    f = _self_attr(n.func.value, s)
                    if f and isinstance(n.func.value, (ast.Attribute, ast.Subscript)) and not (f in rebound and rebound[f] < n.lineno):
                        out.setdefault(f, (fi, n))
    return out


def copy_hook_rule(ctx, repo, rule_id):
    ctx.rule(rule_id, "copy hooks are deep where it matters: a class-defined __deepcopy__/__copy__ either copies the whole __dict__ with a deep copier, or assigns on the new object a fresh copy (sc.dcp / deepcopy / .copy() / list() / dict()) of every field that a method of the class family mutates in place; a field handed over by reference (new.x = self.x, new.__dict__.update(self.__dict__)) and mutated in place is shared between the sampled copy and its source")
    hooks = 0
    for ci in repo.all_classes():
        for hook in ("__deepcopy__", "__copy__"):
            fi = ci.methods.get(hook)
            if fi is None:
                continue
            hooks += 1
            s = fi.params[0]
            mutated = inplace_mutated_fields(repo, ci)
            fresh, whole_deep, whole_shared = set(), False, None
            newnames = set()
            for c in ast.walk(fi.node):
                if isinstance(c, ast.Call) and ast.unparse(c.func) in ("sc.dcp", "dcp", "copy.deepcopy", "deepcopy") and c.args and ast.unparse(c.args[0]) == "%s.__dict__" % s:
                    whole_deep = True
            for st in own_nodes(fi.node):
                if isinstance(st, ast.Assign) and len(st.targets) == 1:
                    t, v = st.targets[0], st.value
                    if isinstance(t, ast.Name) and isinstance(v, ast.Call) and ast.unparse(v.func).endswith("__new__"):
                        newnames.add(t.id)
                    # d = sc.dcp(self.__dict__)
                    if isinstance(t, ast.Attribute) and isinstance(t.value, ast.Name) and t.value.id != s:
                        if _is_fresh(v, s):
                            fresh.add(t.attr)
                if isinstance(st, ast.Expr) and isinstance(st.value, ast.Call) and isinstance(st.value.func, ast.Attribute) and st.value.func.attr == "update" and ast.unparse(st.value.func.value).endswith(".__dict__") and st.value.args and ast.unparse(st.value.args[0]) == "%s.__dict__" % s:
                    whole_shared = st
            if whole_deep:
                ctx.ok(rule_id, fi, "%s.%s copies the whole __dict__ with a deep copier" % (ci.name, hook))
                continue
            bad = sorted(f for f in mutated if f not in fresh)
            for f in bad:
                mfi, mst = mutated[f]
                ctx.fail(rule_id, fi, whole_shared if whole_shared is not None else fi.node, "%s.%s hands `%s` to the copy by reference, but %s changes it in place (`%s`): sampling or editing a copy then alters the source object" % (ci.name, hook, f, mfi.fq, ast.unparse(mst)[:80]), stmt_text="shared-field:%s" % f)
            if not bad:
                ctx.ok(rule_id, fi, "%s.%s re-creates every field mutated in place (%s)" % (ci.name, hook, ", ".join(sorted(mutated)) or "none"))
    ctx.require(hooks >= 2, "%s: expected the copy hooks of TimeSeries and Model, found %d" % (rule_id, hooks))


def _is_fresh(v, s):
    if isinstance(v, ast.Call):
        fn = ast.unparse(v.func)
        if fn in COPIERS:
            return True
        if isinstance(v.func, ast.Attribute) and v.func.attr in ("copy", "deepcopy", "tolist"):
            return True
    if isinstance(v, (ast.List, ast.Dict, ast.Set, ast.ListComp, ast.DictComp, ast.SetComp, ast.Constant)):
        return True
    return False


def resolved_name_rule(ctx, repo, rule_id, module, cls, resolver="_get_code_name"):
    ctx.rule(rule_id, "after `code = self.%s(name)` the raw `name` is only used in messages: membership tests, removals and keys use the resolved code name (a caller may pass the full name)" % resolver)
    ci = repo.cls(module, cls)
    n = 0
    for fi in ci.methods.values():
        res = [st for st in own_nodes(fi.node) if isinstance(st, ast.Assign) and isinstance(st.value, ast.Call) and isinstance(st.value.func, ast.Attribute) and st.value.func.attr == resolver and st.value.args and isinstance(st.value.args[0], ast.Name)]
        for st in res:
            raw = st.value.args[0].id
            if any(isinstance(t, ast.Name) and t.id == raw for t in st.targets):
                continue  # rebinds the same name
            n += 1
            bad = None
            for x in ast.walk(fi.node):
                if isinstance(x, ast.Name) and x.id == raw and isinstance(x.ctx, ast.Load) and x.lineno > st.lineno:
                    es = enclosing_stmt(x)
                    if isinstance(es, ast.Raise) or (isinstance(es, ast.Expr) and isinstance(es.value, ast.Call) and ast.unparse(es.value.func).startswith(("logger.", "print", "warnings."))):
                        continue
                    bad = es
                    break
            ctx.check(bad is None, rule_id, fi, bad if bad is not None else st, "%s: only the resolved code name is used after the resolution" % fi.fq, "%s still uses the raw argument `%s` after resolving it to a code name (`%s`): a call with the full name no longer reaches the same entries" % (fi.fq, raw, ast.unparse(bad)[:80] if bad is not None else ""))
    ctx.require(n >= 3, "%s: expected >= 3 name resolutions in %s.%s, found %d" % (rule_id, module, cls, n))


def _base_init_calls(fi):
    """calls `Base.__init__(self, ...)` / `super().__init__(...)` in a constructor -> [(call, base class name or None, offset)]"""
    out = []
    for c in ast.walk(fi.node):
        if isinstance(c, ast.Call) and isinstance(c.func, ast.Attribute) and c.func.attr == "__init__":
            v = c.func.value
            if isinstance(v, ast.Call) and isinstance(v.func, ast.Name) and v.func.id == "super":
                out.append((c, None, 0))
            elif isinstance(v, ast.Name) and c.args and isinstance(c.args[0], ast.Name) and c.args[0].id == fi.params[0]:
                out.append((c, v.id, 1))
    return out


def ctor_forwarding_rule(ctx, repo, rule_id, modules):
    ctx.rule(rule_id, "constructor arguments reach the base class: when a subclass constructor and the base constructor it calls have a parameter of the same name, the base call receives the subclass's parameter for it (by keyword or position) - a sugar class that stops forwarding e.g. the population selection silently widens the quantity it measures")
    n = 0
    for mod in modules:
        m = repo.module(mod)
        for ci in m.classes.values():
            fi = ci.methods.get("__init__")
            if fi is None:
                continue
            for call, bname, off in _base_init_calls(fi):
                bases = [b for b in repo.mro(ci) if b is not ci and "__init__" in b.methods and (bname is None or b.name == bname)]
                if not bases:
                    continue
                bfi = bases[0].methods["__init__"]
                bparams = bfi.params[1:]
                if any(isinstance(a, ast.Starred) for a in call.args) or any(k.arg is None for k in call.keywords):
                    continue  # *args / **kwargs forward everything
                passed = {}
                for i, a in enumerate(call.args[off:]):
                    if i < len(bparams):
                        passed[bparams[i]] = a
                for k in call.keywords:
                    passed[k.arg] = k.value
                for p in fi.params[1:]:
                    if p not in bparams:
                        continue
                    n += 1
                    v = passed.get(p)
                    ok = v is not None and any(isinstance(x, ast.Name) and x.id == p for x in ast.walk(v))
                    ctx.check(ok, rule_id, fi, enclosing_stmt(call), "%s forwards `%s` to %s.__init__" % (fi.fq, p, bases[0].name), "%s accepts `%s` but the call to %s.__init__ %s: the caller's value never reaches the base class that implements it" % (fi.fq, p, bases[0].name, ("passes `%s` for it" % ast.unparse(v)) if v is not None else "does not pass it (the base default is used)"), stmt_text="forward:%s" % p)
    ctx.note(rule_id, "%d same-named constructor parameters checked" % n)
    return n


def anchor_modules(prop):
    here = os.path.dirname(os.path.dirname(os.path.dirname(os.path.abspath(__file__))))
    mods = []
    for l in open(os.path.join(here, "properties.jsonl")):
        if l.strip():
            p = json.loads(l)
            if p["id"] == prop:
                for f in p["anchors"]["files"]:
                    if f.startswith("atomica/") and f.endswith(".py"):
                        mods.append(os.path.basename(f)[:-3])
    return mods


def run_all(mod, ctx, prop):
    """The property's own rules, then the shared shape rules over the property's anchor modules (used by ./check and by the self-test alike)."""
    mod.run(ctx)
    mods = anchor_modules(prop)
    ctx.each(argument_use_rule, ctx, ctx.repo, "R%su" % prop[1:], mods, "A dropped argument in one of this property's anchor modules changes what the caller asked for without any error.")
    ctx.each(ctor_forwarding_rule, ctx, ctx.repo, "R%sv" % prop[1:], mods)
    ctx.each(per_key_alias_rule, ctx, ctx.repo, "R%sw" % prop[1:], mods)
    ctx.each(loop_carried_rule, ctx, ctx.repo, "R%sx" % prop[1:], mods)
    ctx.each(loop_dependence_rule, ctx, ctx.repo, "R%sy" % prop[1:], mods)
    ctx.each(raw_quotient_truncation_rule, ctx, ctx.repo, "R%sz" % prop[1:], mods)
    ctx.each(loop_scope_rule, ctx, ctx.repo, "R%st" % prop[1:], mods)


def _names(e):
    return {n.id for n in ast.walk(e) if isinstance(n, ast.Name)}


_MUTABLE_MAKERS = (ast.Call, ast.List, ast.Dict, ast.Set, ast.ListComp, ast.DictComp, ast.SetComp, ast.Subscript, ast.Attribute, ast.IfExp)


def per_key_alias_rule(ctx, repo, rule_id, modules):
    ctx.rule(rule_id, "one object per key: inside a loop, a store `container[<key built from the loop variable>] = name` does not hand the same object - created once, outside the loop, by a call / copy / container literal / lookup - to every key; the entries of a per-population (per-program, per-parameter) table must be independent objects, otherwise an edit of one entry (a scenario on one population, a sample, a calibration factor) silently changes the others")
    n = 0
    for mod in modules:
        m = repo.module(mod)
        for fi in m.all_functions():
            loops = [l for l in own_nodes(fi.node) if isinstance(l, ast.For)]
            if not loops:
                continue
            outer_targets = set()
            for l in loops:
                outer_targets |= _names(l.target)
            defs = {}
            for s in own_nodes(fi.node):
                if isinstance(s, ast.Assign):
                    for t in s.targets:
                        if isinstance(t, ast.Name):
                            defs.setdefault(t.id, []).append(s)
            for loop in loops:
                tv = _names(loop.target)
                inside = {x.id for s in ast.walk(loop) for x in ast.walk(s) if isinstance(x, ast.Name) and isinstance(x.ctx, ast.Store)}
                for s in ast.walk(loop):
                    if not (isinstance(s, ast.Assign) and len(s.targets) == 1 and isinstance(s.targets[0], ast.Subscript) and _names(s.targets[0].slice) & tv):
                        continue
                    n += 1
                    v = s.value
                    if isinstance(v, (ast.Subscript, ast.Attribute)) and not (_names(v) & (inside | outer_targets)):
                        root = v
                        while isinstance(root, (ast.Subscript, ast.Attribute)):
                            root = root.value
                        known_object = False
                        if isinstance(root, ast.Name) and root.id not in m.imports:
                            try:
                                from . import common as K

                                T = K.types(repo)
                                known_object = bool(T.classes_of(T.type_at(v, fi, s)))
                            except Exception:
                                known_object = False
                        if known_object:  # a lookup whose type is not a repo class (a number, a string, unknown) is not judged
                            ctx.fail(rule_id, fi, s, "`%s` stores the same looked-up object `%s` (it does not depend on the loop over `%s`) under every key without copying it: the entries alias each other and their source" % (ast.unparse(s)[:80], ast.unparse(v)[:60], ast.unparse(loop.target)), stmt_text="alias:%s" % ast.unparse(s.targets[0].value))
                        continue
                    if not isinstance(v, ast.Name) or v.id in inside or v.id in outer_targets or v.id in fi.params:
                        continue
                    ds = defs.get(v.id, [])
                    made = [d for d in ds if isinstance(d.value, _MUTABLE_MAKERS) and not (isinstance(d.value, ast.Call) and ast.unparse(d.value.func) in ("len", "int", "float", "str", "bool", "min", "max", "sum", "abs", "round", "tuple", "frozenset"))]
                    if not made:
                        continue
                    ctx.fail(rule_id, fi, s, "`%s` stores the one object `%s` (made once by `%s`, outside the loop over `%s`) under every key: the entries alias each other, so changing one changes all" % (ast.unparse(s)[:80], v.id, ast.unparse(made[0].value)[:60], ast.unparse(loop.target)), stmt_text="alias:%s" % ast.unparse(s.targets[0].value))
    ctx.note(rule_id, "%d per-key stores inside loops inspected" % n)
    if n:
        ctx.ok(rule_id, "%s" % ", ".join(modules), "%d per-key stores inside loops hold a per-iteration value" % n)


def loop_carried(repo, fi):
    """(var, loop, read) for plain locals whose value at a read inside a loop body may come from a previous iteration
    (a definition inside the body reaches the loop header, and a definition from outside the body still reaches the read,
    i.e. some path through this iteration does not assign it).  Loop / comprehension targets and augmented accumulators
    (x += ...) are excluded."""
    from . import common as K

    loops = [l for l in own_nodes(fi.node) if isinstance(l, (ast.For, ast.While))]
    if not loops:
        return []
    targets = set()
    for n in ast.walk(fi.node):
        if isinstance(n, (ast.For, ast.comprehension)):
            targets |= _names(n.target)
        elif isinstance(n, (ast.With,)):
            for it in n.items:
                if it.optional_vars is not None:
                    targets |= _names(it.optional_vars)
    aug = {s.target.id for s in ast.walk(fi.node) if isinstance(s, ast.AugAssign) and isinstance(s.target, ast.Name)}
    rd = K.rdefs(repo, fi)
    out = []
    for loop in loops:
        inside = set()
        for s in loop.body:
            for x in ast.walk(s):
                inside.add(id(x))

        def in_loop(d):
            st = rd.def_stmt(d)
            return st is not None and id(st) in inside

        seen = set()
        for r in ast.walk(loop):
            if not (isinstance(r, ast.Name) and isinstance(r.ctx, ast.Load) and id(r) in inside):
                continue
            v = r.id
            if v in seen or v in targets or v in aug or v in fi.params:
                continue
            hdr = rd.reaching_at_stmt(loop, v)
            if not any(in_loop(d) for d in hdr):
                continue
            S = enclosing_stmt(r)
            at = rd.reaching_at_stmt(S, v)
            if not any(not in_loop(d) for d in at):
                continue
            seen.add(v)
            out.append((v, loop, r))
    return out


def loop_carried_rule(ctx, repo, rule_id, modules):
    ctx.rule(rule_id, "no value leaks from one loop iteration into the next: a plain local that is assigned inside a loop body on some paths only, and read in the body, must be reset in every iteration - unless it is one of the variables confirmed by reading to be carried on purpose (row counters, buffers, first-item flags; rules/tables/loop_carried.json). A reader that stops resetting an optional field per row gives a row the value of the row before it")
    table = json.load(open(os.path.join(TABLES, "loop_carried.json")))
    n = 0
    for mod in modules:
        m = repo.module(mod)
        allowed = {tuple(x) for x in table.get(mod, [])}
        for fi in m.all_functions():
            try:
                hits = loop_carried(repo, fi)
            except Exception:
                continue  # a function whose CFG cannot be built is reported by the rules that anchor on it
            n += 1
            for v, loop, r in hits:
                if (fi.qualname, v) in allowed:
                    continue
                ctx.fail(rule_id, fi, enclosing_stmt(r), "`%s` read at line %d inside the loop `%s` can still hold the value assigned in a previous iteration (it is only assigned on some paths of the body and not reset per iteration): one item's value leaks into the next" % (v, r.lineno, ("for %s in %s" % (ast.unparse(loop.target), ast.unparse(loop.iter))[:60]) if isinstance(loop, ast.For) else "while ..."), stmt_text="carried:%s" % v)
    ctx.note(rule_id, "%d functions with loops inspected" % n)
    if n:
        ctx.ok(rule_id, ", ".join(modules), "no new loop-carried local in %d functions" % n)


def loop_dependent_stores(fi):
    """{(loop target text, store target text): depends?} for writes into objects (attribute / subscript targets) inside for loops:
    does the stored value depend on the loop variable (directly, or through locals assigned inside the loop body from it)?"""
    out = {}
    for loop in [l for l in own_nodes(fi.node) if isinstance(l, ast.For)]:
        tainted = set(_names(loop.target))
        changed = True
        body = [s for st in loop.body for s in ast.walk(st)]
        while changed:
            changed = False
            for s in body:
                if isinstance(s, (ast.Assign, ast.AugAssign, ast.AnnAssign)) and getattr(s, "value", None) is not None:
                    tg = s.targets if isinstance(s, ast.Assign) else [s.target]
                    if _names(s.value) & tainted:
                        for t in tg:
                            for x in ast.walk(t):
                                if isinstance(x, ast.Name) and isinstance(x.ctx, ast.Store) and x.id not in tainted:
                                    tainted.add(x.id)
                                    changed = True
                elif isinstance(s, ast.For) and _names(s.iter) & tainted:
                    for x in _names(s.target):
                        if x not in tainted:
                            tainted.add(x)
                            changed = True
        for s in body:
            if isinstance(s, ast.Assign) and len(s.targets) == 1 and isinstance(s.targets[0], (ast.Attribute, ast.Subscript)):
                t = s.targets[0]
                if not (_names(t) & tainted):
                    continue  # the object written is not a per-item object
                key = (ast.unparse(loop.target), ast.unparse(t))
                dep = bool(_names(s.value) & tainted)
                out[key] = out.get(key, False) or dep
    return out


def _ancestors(n):
    p = getattr(n, "_parent", None)
    while p is not None:
        yield p
        p = getattr(p, "_parent", None)


def loop_dependence_rule(ctx, repo, rule_id, modules):
    ctx.rule(rule_id, "what is written per item comes from that item: a store into a per-item object inside a loop (`par.units = ...` for each target population, `ts[k] = ...` for each key) whose value depended on the loop variable on the reviewed tree (rules/tables/loop_stores.json) still depends on it; a value hoisted out of the loop gives every item the first item's value")
    table = json.load(open(os.path.join(TABLES, "loop_stores.json")))
    n = 0
    for mod in modules:
        m = repo.module(mod)
        tab = table.get(mod, {})
        for fi in m.all_functions():
            want = tab.get(fi.qualname)
            if not want:
                continue
            have = loop_dependent_stores(fi)
            loops_now = {ast.unparse(l.target) for l in own_nodes(fi.node) if isinstance(l, ast.For)}
            for lt, st in want:
                if (lt, st) not in have:
                    # the loop is still there and the same store now sits outside it: only the last item is stored
                    if lt in loops_now and not any(k[1] == st for k in have):
                        outside = [s_ for s_ in own_nodes(fi.node) if isinstance(s_, ast.Assign) and len(s_.targets) == 1 and ast.unparse(s_.targets[0]) == st and not any(isinstance(a, ast.For) and ast.unparse(a.target) == lt for a in _ancestors(s_))]
                        if outside:
                            n += 1
                            ctx.fail(rule_id, fi, outside[0], "`%s` was stored once per item of `for %s in ...` on the reviewed tree and is now stored after the loop: only the last item's value is kept" % (st, lt), stmt_text="store-left-loop:%s" % st)
                    continue  # otherwise the store was renamed, moved or removed: not judged here
                n += 1
                if not have[(lt, st)]:
                    ctx.fail(rule_id, fi, fi.node, "inside `for %s in ...` the value stored in `%s` no longer depends on `%s` (it did on the reviewed tree): every item now receives the same value, whichever item it belongs to" % (lt, st, lt), stmt_text="invariant-store:%s" % st)
    ctx.note(rule_id, "%d per-item stores checked" % n)
    if n:
        ctx.ok(rule_id, ", ".join(modules), "%d per-item stores still depend on their loop variable" % n)


TRUNCATION_EXCEPTIONS = {("plotting", "PlotData.time_aggregate"): "number of integration sub-steps of the aggregation window; any count >= the quotient is acceptable there"}


def raw_quotient_truncation_rule(ctx, repo, rule_id, modules):
    from . import discretise

    ctx.rule(rule_id, "no index or count is obtained by truncating a raw quotient by the step size: int() / floor / ceil / trunc applied directly to `<something> / dt` is one off whenever the quotient of two binary floats lands a hair below (or above) the integer it stands for (0.3 / 0.1, (2018.25 - 2000) / (1/12)); the quotient has to be rounded or snapped first (as _n_steps and _keyring_size do)")
    n = 0
    for mod in modules:
        m = repo.module(mod)
        for fi in m.all_functions():
            for c in own_nodes(fi.node):
                if isinstance(c, ast.Call) and ast.unparse(c.func) in discretise.DISCRETISERS and c.args:
                    n += 1
                    if discretise.is_raw_quotient(c.args[0]):
                        if (mod, fi.qualname) in TRUNCATION_EXCEPTIONS:
                            ctx.ok(rule_id, fi, "reviewed exception: %s" % TRUNCATION_EXCEPTIONS[(mod, fi.qualname)], c)
                            continue
                        ctx.fail(rule_id, fi, enclosing_stmt(c), "`%s` truncates the raw quotient `%s`: for step sizes that are not a power of two the result is one less (or one more) than the intended index / count for a sizeable share of the grid points" % (ast.unparse(c)[:70], ast.unparse(c.args[0])[:50]), stmt_text="truncate:%s" % ast.unparse(c.args[0])[:60])
    ctx.note(rule_id, "%d truncating calls inspected" % n)
    if n:
        ctx.ok(rule_id, ", ".join(modules), "%d truncating calls: none applied to a raw quotient by a step" % n)


def loop_targets_read_after(repo, fi):
    """(loop target name, loop) pairs whose value is read after the loop has ended while the loop's own binding still reaches the read"""
    from . import common as K

    loops = [l for l in own_nodes(fi.node) if isinstance(l, ast.For)]
    if not loops:
        return []
    rd = K.rdefs(repo, fi)
    out = []
    for lp in loops:
        tv = _names(lp.target)
        inside = {id(x) for x in ast.walk(lp)}
        hdr = set(rd.cfg.ids(lp))
        seen = set()
        for r in own_nodes(fi.node):
            if isinstance(r, ast.Name) and isinstance(r.ctx, ast.Load) and r.id in tv and id(r) not in inside and r.id not in seen and r.lineno > lp.end_lineno:
                if any(isinstance(a, (ast.ListComp, ast.SetComp, ast.DictComp, ast.GeneratorExp)) and any(r.id in _names(g.target) for g in a.generators) for a in _ancestors(r)) or any(isinstance(a, ast.Lambda) and r.id in {x.arg for x in a.args.args} for a in _ancestors(r)):
                    continue  # bound by a comprehension / lambda of its own
                S = enclosing_stmt(r)
                if any(d in hdr for d in rd.reaching_at_stmt(S, r.id) if d is not None):
                    seen.add(r.id)
                    out.append((r.id, lp, r))
    return out


def skip_item_handlers(fi):
    """(loop target text, exception type text) for loops whose body holds a try with a handler that only skips the current item"""
    out = []
    for lp in own_nodes(fi.node):
        if isinstance(lp, ast.For):
            for s in lp.body:
                if isinstance(s, ast.Try):
                    for h in s.handlers:
                        if all(isinstance(x, (ast.Continue, ast.Pass)) for x in h.body):
                            out.append((ast.unparse(lp.target), ast.unparse(h.type) if h.type else ""))
    return out


def loop_scope_rule(ctx, repo, rule_id, modules):
    ctx.rule(rule_id, "what belongs to one item stays inside the loop over the items: (a) a loop variable is not read after its loop (the code then acts on the last item only) - except the uses confirmed on the reviewed tree (rules/tables/loop_scope.json); (b) a `try: ... except X: continue` that skips one item of a loop is not widened to a `try` around the whole loop (the first item that raises X would then end the loop for all the remaining items)")
    table = json.load(open(os.path.join(TABLES, "loop_scope.json")))
    n = 0
    for mod in modules:
        m = repo.module(mod)
        allowed = {tuple(x) for x in table.get("read_after", {}).get(mod, [])}
        skips = table.get("skip_handlers", {}).get(mod, {})
        for fi in m.all_functions():
            try:
                hits = loop_targets_read_after(repo, fi)
            except Exception:
                hits = []
            n += 1
            for v, lp, r in hits:
                if (fi.qualname, v) in allowed:
                    continue
                ctx.fail(rule_id, fi, enclosing_stmt(r), "`%s`, the variable of the loop `for %s in %s`, is read at line %d after the loop has ended: the statement acts on the last item only (a block that was inside the loop has been moved out of it?)" % (v, ast.unparse(lp.target), ast.unparse(lp.iter)[:50], r.lineno), stmt_text="after-loop:%s" % v)
            for lt, exc in skips.get(fi.qualname, []):
                now = skip_item_handlers(fi)
                if (lt, exc) in [tuple(x) for x in now]:
                    continue
                # the loop still exists but now sits inside a try that catches the same exception
                for lp in own_nodes(fi.node):
                    if isinstance(lp, ast.For) and ast.unparse(lp.target) == lt:
                        wide = [a for a in _ancestors(lp) if isinstance(a, ast.Try) and any((ast.unparse(h.type) if h.type else "") == exc or h.type is None for h in a.handlers) and any(lp is s or any(lp is d for d in ast.walk(s)) for s in a.body)]
                        if wide:
                            ctx.fail(rule_id, fi, wide[0], "the handler `except %s` that skipped one item of `for %s in ...` now encloses the whole loop: the first item that raises %s ends the loop, and the remaining items are silently not processed" % (exc, lt, exc), stmt_text="handler-widened:%s" % lt)
    ctx.note(rule_id, "%d functions inspected" % n)
    if n:
        ctx.ok(rule_id, ", ".join(modules), "no loop variable newly read after its loop, no skip-item handler widened, in %d functions" % n)
