"""C16 - round trips preserve content; objects behave as their visible data (DESIGN 4, C16)."""
import ast

from ..core.loader import AnalysisError, own_nodes, norm, enclosing_stmt
from ..core import astq
from ..core.cfg import guards_of, ENTRY, EXIT
from ..core.types import is_inst
from . import common as K

EXPLANATION = (
    "R16a cache coherence: Covout caches tables derived from (progs, baseline, interactions); any store to one of those source fields of a Covout outside its constructor "
    "must be followed on every normal path by update_outcomes() on that object (or a sweep over the owning mapping). R16b key discipline: every key used on a `covouts` "
    "mapping is (parameter, population) - decided with name sorts inferred from what a variable ranges over. R16c: an except handler does not read a local whose only "
    "definitions are the failed assignment itself (or a previous loop iteration). R16d writer/reader tables: row labels and column headers written to program books, the "
    "y-factor key, the workbook category strings and the population sheet headers are the ones the readers recognise, mapped to the same attributes. R16g: a writer that resolves a tri-state column flag (None = decide from the data) into a local uses that local for every later decision, never the raw attribute, so header and cells agree. R16h: the table readers only ever set those flags to True or None (never False), so a value of that kind entered after loading is still written. R16e: load_calibration "
    "skips unknown entries and leaves missing ones untouched. Numeric fidelity and equality of simulations after round trips are not decided."
)


def run(ctx):
    repo = ctx.repo
    T = K.types(repo)
    ctx.each(r16a, ctx, repo, T)
    ctx.each(r16b, ctx, repo, T)
    ctx.each(r16k, ctx, repo, T)
    ctx.each(r16c, ctx, repo)
    ctx.each(r16d, ctx, repo)
    ctx.each(r16e, ctx, repo)
    ctx.each(r16g, ctx, repo)
    ctx.each(r16h, ctx, repo)
    ctx.each(r16i, ctx, repo)
    ctx.each(r16j, ctx, repo)
    from . import shapes

    ctx.each(shapes.resolved_name_rule, ctx, repo, "R16l", "programs", "ProgramSet")
    ctx.each(r16m, ctx, repo)
    ctx.each(r16n, ctx, repo)
    ctx.each(cache_refresh_rule, ctx, repo, "R16o")
    ctx.each(r16p, ctx, repo)
    ctx.each(r16q, ctx, repo)
    ctx.each(r16r, ctx, repo)
    ctx.each(r16s, ctx, repo)
    ctx.each(r16ab, ctx, repo)
    ctx.each(pop_matrix_rows_rule, ctx, repo, "R16aa")
    ctx.each(informational, ctx, repo)


# ---------------------------------------------------------------------------------------------- R16a
def covout_fields(repo):
    """(source fields, cache fields) of Covout, computed from update_outcomes and what it calls on self."""
    ci = repo.cls("programs", "Covout")
    uo = repo.func("programs", "Covout.update_outcomes")
    seen, todo = set(), [uo]
    reads, writes = set(), set()
    while todo:
        fi = todo.pop()
        if fi.fq in seen:
            continue
        seen.add(fi.fq)
        me = K.self_name(fi)
        for n in own_nodes(fi.node):
            if isinstance(n, ast.Attribute) and astq.is_name(n.value, me):
                m = repo.find_method(ci, n.attr)
                if m is not None:
                    todo.append(m)
                    continue
                if isinstance(n.ctx, ast.Store):
                    writes.add(n.attr)
                else:
                    reads.add(n.attr)
        for s, t, k, v in astq.stores(fi.node):
            b = astq.strip_subs(t)
            if isinstance(b, ast.Attribute) and astq.is_name(b.value, me) and k != "for":
                writes.add(b.attr)
    src = reads - writes
    return src, writes


def r16a(ctx, repo, T):
    ctx.rule("R16a", "every store to a source field of a Covout (fields update_outcomes reads but does not write) outside Covout.__init__ is followed on every normal path by update_outcomes() on that object or a sweep over the owning covouts mapping")
    src, cache = covout_fields(repo)
    ctx.require({"progs", "baseline", "_interactions"} <= src, "R16a: source fields of Covout computed as %s; expected to contain progs, baseline, _interactions" % sorted(src))
    ctx.extra["covout_source_fields"] = sorted(src)
    ctx.extra["covout_cache_fields"] = sorted(cache)
    n = 0
    for fi in repo.all_functions():
        if fi.module.name == "migration" or (fi.cls is not None and fi.cls.name == "Covout" and fi.name in ("__init__", "update_outcomes")):
            continue
        sites = []
        for stmt, tgt, kind, value in astq.stores(fi.node):
            if kind in ("for", "with"):
                continue
            a = astq.attr_in_path(tgt, src)
            if a is None:
                continue
            t = T.type_at(a.value, fi, stmt)
            if not (is_inst(t) and T.isa(t, "programs", "Covout")):
                continue
            sites.append((stmt, a))
        if not sites:
            continue
        cfg = K.cfg(repo, fi)
        # refresh statements in this function
        refresh = []
        for c in own_nodes(fi.node):
            if isinstance(c, ast.Call) and isinstance(c.func, ast.Attribute) and c.func.attr == "update_outcomes":
                st = enclosing_stmt(c)
                obj = ast.unparse(c.func.value)
                loops = K.enclosing_loops(st)
                sweep = None
                for l in loops:
                    it = ast.unparse(l.iter)
                    if it.endswith(".covouts.values()") and isinstance(l.target, ast.Name) and l.target.id == obj:
                        sweep = (l, it[: -len(".values()")])
                refresh.append((st, obj, sweep))
        for stmt, a in sites:
            n += 1
            obj = ast.unparse(a.value)
            if isinstance(a.value, ast.Name):
                # a local alias of a mapping entry: judge the refresh against the entry it stands for
                binds = [s_.value for s_ in own_nodes(fi.node) if isinstance(s_, ast.Assign) and any(astq.is_name(tg, a.value.id) for tg in s_.targets)]
                if len(binds) == 1 and isinstance(binds[0], (ast.Subscript, ast.Attribute)):
                    obj_alias = ast.unparse(binds[0])
                else:
                    obj_alias = None
            else:
                obj_alias = None
            ok_ids = []
            for st, robj, sweep in refresh:
                if sweep is not None and (obj.startswith(sweep[1]) or (obj_alias or "").startswith(sweep[1])):
                    ok_ids += cfg.ids(sweep[0])
                elif robj == obj:
                    ok_ids += cfg.ids(st)
                else:
                    # alias: a local bound to the same object expression, or the loop variable of an iteration over the same mapping's values
                    binds = [s for s in own_nodes(fi.node) if isinstance(s, ast.Assign) and any(astq.is_name(tg, robj) for tg in s.targets) and ast.unparse(s.value) == obj]
                    if binds:
                        ok_ids += cfg.ids(st)
            leak = cfg.path_exists(cfg.ids(stmt), [EXIT], avoid_ids=ok_ids) if ok_ids else True
            ctx.check(not leak, "R16a", fi, stmt, "`%s` refreshed by update_outcomes() on every path" % obj[:50], "`%s` edits the `%s` of a Covout but update_outcomes() is not called on it afterwards: the cached combination table is stale, so the object simulates differently from its own exported program book" % (norm(stmt)[:80], a.attr))
    ctx.require(n >= 4, "R16a: fewer Covout source-field stores (%d) than confirmed (4: _update_progset x2, remove_program, Covout.sample)" % n)


# ---------------------------------------------------------------------------------------------- R16b
PAR, POP, PROG, COMP = "PAR", "POP", "PROG", "COMP"
ITER_SORT = {"pars": PAR, "pops": POP, "programs": PROG, "comps": COMP}


def name_sorts(repo, T, fi):
    """local name -> sort, for names whose every binding has the same definite sort."""
    binds = {}

    def add(name, s):
        binds.setdefault(name, set()).add(s)

    for n in own_nodes(fi.node):
        if isinstance(n, (ast.For, ast.comprehension)):
            it = n.iter
            base = it
            if isinstance(it, ast.Call) and isinstance(it.func, ast.Attribute) and it.func.attr == "keys":
                base = it.func.value
            if isinstance(it, ast.Call) and isinstance(it.func, ast.Name) and it.func.id in ("list", "sorted") and it.args:
                base = it.args[0]
                if isinstance(base, ast.Call) and isinstance(base.func, ast.Attribute) and base.func.attr == "keys":
                    base = base.func.value
            if isinstance(base, ast.Attribute) and isinstance(n.target, ast.Name):
                ot = T.type_at(base.value, fi, n if isinstance(n, ast.For) else base)
                if is_inst(ot) and T.isa(ot, "programs", "ProgramSet") and base.attr in ITER_SORT:
                    add(n.target.id, ITER_SORT[base.attr])
                    continue
            if isinstance(base, ast.Attribute) and base.attr == "covouts" and isinstance(n.target, ast.Tuple) and len(n.target.elts) == 2:
                for e, s in zip(n.target.elts, (PAR, POP)):
                    if isinstance(e, ast.Name):
                        add(e.id, s)
                continue
            for x in ast.walk(n.target):
                if isinstance(x, ast.Name):
                    add(x.id, None)
        elif isinstance(n, ast.Assign):
            for t in n.targets:
                for x in ast.walk(t):
                    if isinstance(x, ast.Name) and isinstance(x.ctx, ast.Store):
                        add(x.id, sort_of_expr(repo, T, fi, n.value, {}) if isinstance(t, ast.Name) else None)
    return {k: next(iter(v)) for k, v in binds.items() if len(v) == 1 and None not in v}


def sort_of_expr(repo, T, fi, e, sorts):
    if isinstance(e, ast.Name):
        return sorts.get(e.id)
    if isinstance(e, ast.Attribute):
        ot = T.type_at(e.value, fi, e)
        if is_inst(ot):
            if e.attr == "name":
                if T.isa(ot, "programs", "Program"):
                    return PROG
                if T.isa(ot, "model", "Parameter") or T.isa(ot, "parameters", "Parameter"):
                    return PAR
                if T.isa(ot, "model", "Population"):
                    return POP
                if T.isa(ot, "model", "Compartment"):
                    return COMP
            if T.isa(ot, "programs", "Covout") and e.attr == "par":
                return PAR
            if T.isa(ot, "programs", "Covout") and e.attr == "pop":
                return POP
    return None


def r16b(ctx, repo, T):
    ctx.rule("R16b", "keys used on a `covouts` mapping are (parameter, population): no component whose sort is definitely something else (program, compartment, ...)")
    n = 0
    for fi in repo.all_functions():
        if fi.module.name == "migration":
            continue
        uses = []
        for node in own_nodes(fi.node):
            key = None
            if isinstance(node, ast.Subscript) and isinstance(node.value, ast.Attribute) and node.value.attr == "covouts":
                key = node.slice
            elif isinstance(node, ast.Compare) and len(node.ops) == 1 and isinstance(node.ops[0], (ast.In, ast.NotIn)) and isinstance(node.comparators[0], ast.Attribute) and node.comparators[0].attr == "covouts":
                key = node.left
            elif isinstance(node, ast.Call) and isinstance(node.func, ast.Attribute) and node.func.attr in ("pop", "get") and isinstance(node.func.value, ast.Attribute) and node.func.value.attr == "covouts" and node.args:
                key = node.args[0]
            if key is not None and isinstance(key, ast.Tuple) and len(key.elts) == 2:
                uses.append((node, key))
        if not uses:
            continue
        sorts = name_sorts(repo, T, fi)
        for node, key in uses:
            n += 1
            got = [sort_of_expr(repo, T, fi, e, sorts) for e in key.elts]
            bad = [(i, g) for i, (g, want) in enumerate(zip(got, (PAR, POP))) if g is not None and g != want]
            if bad:
                i, g = bad[0]
                ctx.fail("R16b", fi, enclosing_stmt(node), "covouts are keyed by (parameter, population) but `%s` uses a %s name as the %s component: the entry is never found, so nothing is removed / looked up" % (ast.unparse(key), {PROG: "program", COMP: "compartment", POP: "population", PAR: "parameter"}[g], "parameter" if i == 0 else "population"))
            else:
                ctx.ok("R16b", fi, "key %s has sorts %s" % (ast.unparse(key), got), node)
    ctx.require(n >= 8, "R16b: fewer covouts key uses (%d) than confirmed (8)" % n)


# ---------------------------------------------------------------------------------------------- R16c
def r16c(ctx, repo):
    ctx.rule("R16c", "an except handler must not read a local whose only reaching definitions are 'undefined' and/or assignments inside the guarded try body (the failed assignment, or a previous loop iteration)")
    n_handlers = 0
    for fi in repo.all_functions():
        tries = [t for t in own_nodes(fi.node) if isinstance(t, ast.Try) and t.handlers]
        if not tries:
            continue
        rd = None
        for t in tries:
            body_assigned = {}
            for s in t.body:
                for x in ast.walk(s):
                    if isinstance(x, (ast.Assign, ast.AnnAssign)) and not isinstance(x, ast.AugAssign):
                        tg = x.targets if isinstance(x, ast.Assign) else [x.target]
                        for tt in tg:
                            if isinstance(tt, ast.Name) and any(isinstance(c, (ast.Call, ast.Subscript, ast.Attribute)) for c in ast.walk(x.value)):
                                body_assigned.setdefault(tt.id, []).append(x)
            if not body_assigned:
                continue
            for h in t.handlers:
                n_handlers += 1
                for st in h.body:
                    for x in ast.walk(st):
                        if isinstance(x, ast.Name) and isinstance(x.ctx, ast.Load) and x.id in body_assigned:
                            if rd is None:
                                rd = K.rdefs(repo, fi)
                            stmt = enclosing_stmt(x)
                            ds = rd.reaching_at_stmt(stmt, x.id)
                            if not ds:
                                continue
                            body_ids = {i for a in body_assigned[x.id] for i in rd.cfg.ids(a)}
                            only_failed = all(d is None or d in body_ids for d in ds) and None in ds
                            if only_failed:
                                ctx.fail("R16c", fi, stmt, "the handler of `%s` reads `%s`, whose only definitions are the assignment that just failed (or an earlier loop iteration): on the first failure this is an UnboundLocalError instead of the intended handling" % (norm(body_assigned[x.id][0])[:60], x.id))
                            else:
                                ctx.ok("R16c", fi, "`%s` read in a handler has a definition outside the guarded body" % x.id, stmt)
    ctx.require(n_handlers >= 10, "R16c: fewer handlers examined (%d) than confirmed (>= 10)" % n_handlers)
    ctx.ok("R16c", "atomica/*", "%d handlers of try bodies that assign locals examined" % n_handlers)


# ---------------------------------------------------------------------------------------------- R16d
def _str_keys_on(fi, base_txt_suffix, store):
    out = {}
    for n in own_nodes(fi.node):
        if isinstance(n, ast.Subscript) and ast.unparse(n.value).endswith(base_txt_suffix) and isinstance(n.slice, ast.Constant) and isinstance(n.slice.value, str):
            if isinstance(n.ctx, ast.Store) == store:
                out.setdefault(n.slice.value, []).append(n)
        if not store and isinstance(n, ast.Compare) and len(n.ops) == 1 and isinstance(n.ops[0], ast.In) and isinstance(n.left, ast.Constant) and isinstance(n.left.value, str) and ast.unparse(n.comparators[0]).endswith(base_txt_suffix):
            out.setdefault(n.left.value, [])
    return out


def r16d(ctx, repo):
    ctx.rule("R16d", "writer/reader tables agree: spending row labels and their attributes, effects column headers and their attributes, y-factor key, workbook category strings, population sheet headers")
    # (i) spending
    w = repo.func("programs", "ProgramSet._write_spending")
    r = repo.func("programs", "ProgramSet._read_spending")
    wmap = {}
    for s in own_nodes(w.node):
        if isinstance(s, ast.Assign) and isinstance(s.targets[0], ast.Subscript) and ast.unparse(s.targets[0].value).endswith(".ts") and isinstance(s.targets[0].slice, ast.Constant) and isinstance(s.value, ast.Attribute):
            wmap[s.targets[0].slice.value] = s.value.attr
    rmap = {}
    for c in own_nodes(r.node):
        if isinstance(c, ast.Call) and isinstance(c.func, ast.Name) and c.func.id == "set_ts" and len(c.args) == 3 and isinstance(c.args[1], ast.Constant) and isinstance(c.args[2], ast.Subscript) and isinstance(c.args[2].slice, ast.Constant):
            rmap[c.args[2].slice.value] = c.args[1].value
    ctx.require(len(wmap) >= 5 and len(rmap) >= 5, "R16d: spending writer/reader tables not recognised (writer %d labels, reader %d)" % (len(wmap), len(rmap)))
    for label, attr in sorted(wmap.items()):
        ctx.check(label in rmap, "R16d", w, w.node, "row label %r is read back" % label, "_write_spending writes the row label %r but _read_spending only recognises %s: a saved program book cannot be loaded (or loses that series)" % (label, sorted(rmap)), )
        if label in rmap:
            ctx.check(rmap[label] == attr, "R16d", r, r.node, "row %r <-> Program.%s on both sides" % (label, attr), "row %r is written from Program.%s but read into Program.%s" % (label, attr, rmap[label]))
    # (ii) effects
    we = repo.func("programs", "ProgramSet._write_effects")
    re_ = repo.func("programs", "ProgramSet._read_effects")
    headers = None
    for l in own_nodes(we.node):
        if isinstance(l, ast.For) and isinstance(l.iter, ast.Call) and astq.is_name(l.iter.func, "enumerate") and l.iter.args and isinstance(l.iter.args[0], ast.List) and all(isinstance(e, ast.Constant) for e in l.iter.args[0].elts):
            headers = [e.value for e in l.iter.args[0].elts]
            # column = 1 + i
    ctx.require(headers and len(headers) >= 4, "R16d: effects header list not found in _write_effects")
    col_attr = {}
    for c in own_nodes(we.node):
        if isinstance(c, ast.Call) and isinstance(c.func, ast.Attribute) and c.func.attr == "write" and len(c.args) >= 3 and isinstance(c.args[1], ast.Constant) and isinstance(c.args[1].value, int):
            v = c.args[2]
            for a in ast.walk(v):
                if isinstance(a, ast.Attribute) and astq.is_name(a.value, "covout"):
                    col_attr[c.args[1].value] = a.attr
    reader_hdr = {}
    for iff in own_nodes(re_.node):
        if isinstance(iff, ast.If) and isinstance(iff.test, ast.Compare) and isinstance(iff.test.comparators[0], ast.Constant) and ".lower()" in ast.unparse(iff.test.left) and "idx_to_header" in ast.unparse(iff.test.left):
            tgt = [s.targets[0].id for s in ast.walk(iff) if isinstance(s, ast.Assign) and isinstance(s.targets[0], ast.Name) and s in [x for b in [iff.body] for y in b for x in ast.walk(y)]]
            if tgt:
                reader_hdr[iff.test.comparators[0].value] = tgt[0]
    ctx.require(len(reader_hdr) >= 4, "R16d: recognised effect headers not found in _read_effects (%s)" % reader_hdr)
    ctor = [c for c in own_nodes(re_.node) if isinstance(c, ast.Call) and astq.is_name(c.func, "Covout")]
    ctx.require(ctor, "R16d: Covout(...) construction not found in _read_effects")
    kw = {k.arg: ast.unparse(k.value) for k in ctor[0].keywords}
    init = repo.func("programs", "Covout.__init__")
    param_attr = {}
    for s in own_nodes(init.node):
        if isinstance(s, ast.Assign) and isinstance(s.targets[0], ast.Attribute) and astq.is_name(s.targets[0].value, K.self_name(init)):
            for nme in ast.walk(s.value):
                if isinstance(nme, ast.Name) and nme.id in init.params:
                    param_attr.setdefault(nme.id, s.targets[0].attr)
    for i, h in enumerate(headers):
        low = h.lower()
        ctx.check(low in reader_hdr, "R16d", we, we.node, "effects header %r is recognised by the reader" % h, "_write_effects writes the column header %r but _read_effects recognises only %s: the column would be taken for a program name" % (h, sorted(reader_hdr)))
        if low not in reader_hdr:
            continue
        wattr = col_attr.get(1 + i)
        local = reader_hdr[low]
        kwname = [k for k, v in kw.items() if v == local]
        rattr = param_attr.get(kwname[0]) if kwname else None
        ctx.check(wattr is not None and wattr == rattr, "R16d", re_, re_.node, "column %r <-> Covout.%s on both sides" % (h, wattr), "column %r is written from Covout.%s but read into Covout.%s" % (h, wattr, rattr))
    # (iii) y-factor key
    yf = repo.func("parameters", "ParameterSet.y_factors")
    lc = repo.func("parameters", "ParameterSet.load_calibration")
    wkeys = {k.value for d in own_nodes(yf.node) if isinstance(d, ast.Dict) for k in d.keys if isinstance(k, ast.Constant) and isinstance(k.value, str)}
    rkeys = {c.comparators[0].value for c in own_nodes(lc.node) if isinstance(c, ast.Compare) and isinstance(c.ops[0], ast.Eq) and isinstance(c.comparators[0], ast.Constant) and isinstance(c.comparators[0].value, str) and astq.is_name(c.left, "k")}
    ctx.check(bool(wkeys) and wkeys == rkeys, "R16d", lc, lc.node, "all-population factor key %s written and read" % sorted(wkeys), "the y-factor table writes the key(s) %s but load_calibration tests for %s: the all-population factor is dropped or stored as a population" % (sorted(wkeys), sorted(rkeys)))
    cs = repo.func("parameters", "ParameterSet.calibration_spreadsheet")
    widx = [c for c in own_nodes(cs.node) if isinstance(c, ast.Call) and isinstance(c.func, ast.Attribute) and c.func.attr == "set_names" and c.args and isinstance(c.args[0], ast.List)]
    ridx = [c for c in own_nodes(lc.node) if isinstance(c, ast.Call) and isinstance(c.func, ast.Attribute) and c.func.attr == "set_index" and c.args and isinstance(c.args[0], ast.List)]
    ctx.check(bool(widx) and bool(ridx) and ast.unparse(widx[0].args[0]) == ast.unparse(ridx[0].args[0]), "R16d", lc, lc.node, "index columns agree", "calibration sheet index columns differ between writer and reader")
    wsheet = [astq.kwarg(c, "sheet_name") for c in own_nodes(cs.node) if isinstance(c, ast.Call) and isinstance(c.func, ast.Attribute) and c.func.attr == "to_excel"]
    wsheet = {s.value for s in wsheet if isinstance(s, ast.Constant)}
    rsheet = {n.value for n in own_nodes(lc.node) if isinstance(n, ast.Constant) and n.value in ("Y-factors",)}
    ctx.check(bool(wsheet & rsheet), "R16d", lc, lc.node, "sheet name agrees", "calibration sheet name differs between writer %s and reader %s" % (sorted(wsheet), sorted(rsheet)))
    # (iv) category strings
    cats = {}
    for fi in repo.all_functions():
        for c in own_nodes(fi.node):
            if isinstance(c, ast.Call) and isinstance(c.func, ast.Attribute) and c.func.attr == "set_properties" and c.args and isinstance(c.args[0], ast.Dict):
                for k, v in zip(c.args[0].keys, c.args[0].values):
                    if isinstance(k, ast.Constant) and k.value == "category" and isinstance(v, ast.Constant):
                        cats.setdefault(fi.module.name, {})["w"] = (v.value, fi, c)
            if isinstance(c, ast.Call) and astq.is_name(c.func, "validate_category") and len(c.args) == 2 and isinstance(c.args[1], ast.Constant):
                cats.setdefault(fi.module.name, {})["r"] = (c.args[1].value, fi, c)
    ctx.require(len(cats) >= 3, "R16d: category strings found in %d modules (expected 3: framework, data, programs)" % len(cats))
    for m, d in cats.items():
        ok = "w" in d and "r" in d and d["w"][0] == d["r"][0]
        fi = (d.get("r") or d.get("w"))[1]
        ctx.check(ok, "R16d", fi, enclosing_stmt((d.get("r") or d.get("w"))[2]), "%s.py writes and expects category %r" % (m, d.get("w", ("?",))[0]), "%s.py writes workbook category %r but accepts %r: its own files are rejected as the wrong kind of workbook" % (m, d.get("w", ("?",))[0], d.get("r", ("?",))[0]))
    # (vi) population sheet headers
    wp = repo.func("data", "ProjectData._write_pops")
    rp = repo.func("data", "ProjectData._read_pops")
    wh = {}
    for c in own_nodes(wp.node):
        if isinstance(c, ast.Call) and isinstance(c.func, ast.Attribute) and c.func.attr == "write" and len(c.args) >= 3 and isinstance(c.args[1], ast.Constant) and isinstance(c.args[2], ast.Constant) and isinstance(c.args[2].value, str):
            wh[c.args[1].value] = c.args[2].value.lower()
    rh = {}
    for a in own_nodes(rp.node):
        if isinstance(a, ast.Assert) and isinstance(a.test, ast.Compare) and isinstance(a.test.comparators[0], ast.Constant):
            for sub in ast.walk(a.test.left):
                if isinstance(sub, ast.Subscript) and isinstance(sub.slice, ast.Constant) and isinstance(sub.slice.value, int) and isinstance(sub.value, ast.Subscript):
                    rh[sub.slice.value] = a.test.comparators[0].value
    ctx.require(len(wh) >= 3 and len(rh) >= 3, "R16d: population sheet headers not recognised (writer %s reader %s)" % (wh, rh))
    for col, h in sorted(wh.items()):
        ctx.check(rh.get(col) == h, "R16d", rp, rp.node, "population sheet column %d header %r" % (col, h), "population sheet column %d is written as %r but the reader requires %r" % (col, h, rh.get(col)))


# ---------------------------------------------------------------------------------------------- R16e
def r16e(ctx, repo):
    ctx.rule("R16e", "load_calibration: the unknown-entry handler skips the entry; NaN cells are skipped; population factors are assigned only for populations the parameter already has")
    fi = repo.func("parameters", "ParameterSet.load_calibration")
    hs = [h for h in own_nodes(fi.node) if isinstance(h, ast.ExceptHandler) and h.type is not None and "KeyError" in ast.unparse(h.type)]
    ctx.require(hs, "R16e: except KeyError handler not found in load_calibration")
    ctx.check(isinstance(hs[0].body[-1], ast.Continue), "R16e", fi, hs[0], "unknown entries are skipped", "the handler for an unknown calibration entry does not skip it")
    gp = repo.find_method(repo.cls("parameters", "ParameterSet"), "get_par")
    raises = [r for r in own_nodes(gp.node) if isinstance(r, ast.Raise) and r.exc is not None]
    ctx.check(any("KeyError" in ast.unparse(r.exc) for r in raises) and all("KeyError" in ast.unparse(r.exc) for r in raises), "R16e", gp, raises[0] if raises else gp.node, "get_par signals an unknown name with the class the loader catches", "ParameterSet.get_par raises %s for an unknown name but load_calibration catches KeyError" % sorted({ast.unparse(r.exc)[:30] for r in raises}))
    from ..core import boolx as B

    # the three stores of the value loop run under exactly these conditions (truth tables; `continue` counts as the negated test for what follows)
    vl = [l for l in own_nodes(fi.node) if isinstance(l, ast.For) and ast.unparse(l.iter).endswith("values.items()") and isinstance(l.target, ast.Tuple)]
    ctx.require(len(vl) == 1, "R16e: the loop over the cells of a calibration row was not found")
    k, v = (ast.unparse(x) for x in vl[0].target.elts)
    meta = [s for s in ast.walk(vl[0]) if isinstance(s, ast.Assign) and ast.unparse(s.targets[0]).endswith(".meta_y_factor")]
    yst = [s for s in ast.walk(vl[0]) if isinstance(s, ast.Assign) and ast.unparse(s.targets[0]).endswith(".y_factor[%s]" % k)]
    ctx.require(len(meta) == 1 and len(yst) == 1, "R16e: the meta_y_factor / y_factor stores of load_calibration were not found")
    par = ast.unparse(meta[0].targets[0]).rsplit(".", 1)[0]
    want_meta = B.parse_cond("not pd.isna(%s) and %s == 'meta_y_factor'" % (v, k))
    want_y = B.parse_cond("not pd.isna(%s) and not (%s == 'meta_y_factor') and %s in %s.y_factor" % (v, k, k, par))
    for st, want, what in ((meta[0], want_meta, "the all-population factor"), (yst[0], want_y, "a population factor")):
        got = B.cond(guards_of(st, stop=vl[0]))
        okv = ast.unparse(st.value) == v
        ctx.check(okv and B.equivalent(got, want), "R16e", fi, st, "%s is loaded exactly when the cell is not blank%s" % (what, "" if st is meta[0] else " and the parameter has that population"), "`%s` is executed under a condition that differs from the expected one (e.g. when %s): blank cells overwrite existing values with NaN, filled cells are skipped, or y-factors are created for populations the parameter does not have" % (norm(st), B.counterexample(got, want)))


def informational(ctx, repo):
    for m, c in (("project", "Project"), ("framework", "ProjectFramework"), ("parameters", "ParameterSet"), ("programs", "ProgramSet"), ("results", "Result")):
        ci = repo.cls(m, c)
        ss = ci.methods.get("__setstate__")
        mig = ss is not None and any(isinstance(x, ast.Call) and astq.is_name(x.func, "migrate") for x in own_nodes(ss.node))
        ctx.note("R16f", "%s.__setstate__ %s migrate() on load" % (c, "calls" if mig else "does NOT call"))


# ---------------------------------------------------------------------------------------------- R16g / R16h
def _resolved_flags(fi):
    """{attribute: (local name, stmt)} for  local = self.A if self.A is not None else <data-driven>"""
    me = K.self_name(fi)
    out = {}
    for s_ in own_nodes(fi.node):
        if isinstance(s_, ast.Assign) and len(s_.targets) == 1 and isinstance(s_.targets[0], ast.Name) and isinstance(s_.value, ast.IfExp):
            v = s_.value
            t = ast.unparse(v.test)
            if isinstance(v.body, ast.Attribute) and astq.is_name(v.body.value, me) and t == "%s.%s is not None" % (me, v.body.attr):
                out[v.body.attr] = (s_.targets[0].id, s_)
    return out


def r16g(ctx, repo):
    ctx.rule("R16g", "column decisions in the table writers: once `write_x = self.write_x if self.write_x is not None else <any data>` is computed, every later decision tests the local `write_x`; testing the raw attribute (None is falsy) makes the header and the cells disagree")
    n = 0
    for q in ("TimeDependentConnections.write", "TimeDependentValuesEntry.write"):
        fi = repo.func("excel", q)
        me = K.self_name(fi)
        flags = _resolved_flags(fi)
        ctx.require(len(flags) >= 3, "R16g: %s: fewer resolved column flags (%d) than confirmed (3)" % (q, len(flags)))
        for attr, (local, st) in sorted(flags.items()):
            n += 1
            raw = []
            for node in own_nodes(fi.node):
                test = None
                if isinstance(node, (ast.If, ast.While, ast.IfExp)):
                    test = node.test
                if test is None or node.lineno <= st.lineno:
                    continue
                if any(isinstance(x, ast.Attribute) and x.attr == attr and astq.is_name(x.value, me) for x in ast.walk(test)):
                    raw.append(node)
            if raw:
                ctx.fail("R16g", fi, raw[0], "%s decides the `%s` column of the header from the resolved local `%s` (data-driven when the flag is None) but %d later test(s) use the raw attribute `%s.%s`: for a table whose flag is None (read from a sheet that lacked the column) the header has the column and the cells are never written, so the value is lost on a round trip" % (q, attr.replace("write_", ""), local, len(raw), me, attr), stmt_text="raw-flag:%s" % attr)
            else:
                ctx.ok("R16g", fi, "`%s` is used for every decision after it is resolved" % local, st)
    ctx.require(n >= 6, "R16g: fewer resolved flags (%d) than confirmed (6)" % n)


def _value_domain(e):
    """Possible constant values of a flag expression: subset of {True, False, None}, or None if not decidable."""
    if isinstance(e, ast.Constant) and (e.value is None or isinstance(e.value, bool)):
        return {e.value}
    if isinstance(e, ast.IfExp):
        a, b = _value_domain(e.body), _value_domain(e.orelse)
        return (a | b) if a is not None and b is not None else None
    if isinstance(e, (ast.Compare, ast.BoolOp)) or (isinstance(e, ast.UnaryOp) and isinstance(e.op, ast.Not)) or (isinstance(e, ast.Call) and ast.unparse(e.func) in ("bool", "any", "all")):
        return {True, False}
    return None


def r16h(ctx, repo):
    ctx.rule("R16h", "reader side of the tri-state column flags: from_rows / from_tables assign only True or None to write_units / write_uncertainty / write_assumption")
    n = 0
    for q in ("TimeDependentConnections.from_tables", "TimeDependentValuesEntry.from_rows"):
        fi = repo.func("excel", q)
        for s_ in own_nodes(fi.node):
            if isinstance(s_, ast.Assign) and isinstance(s_.targets[0], ast.Attribute) and s_.targets[0].attr in ("write_units", "write_uncertainty", "write_assumption"):
                n += 1
                dom = _value_domain(s_.value)
                if dom is None:
                    raise AnalysisError("R16h: cannot decide the value domain of `%s`" % norm(s_))
                ctx.check(False not in dom, "R16h", fi, s_, "flag is True or None", "`%s` can set the flag to False: the writer then never emits that column again, so an uncertainty / constant / unit entered after loading a sheet that lacked the column is silently dropped when the book is saved" % norm(s_))
    ctx.require(n >= 6, "R16h: fewer flag assignments in the readers (%d) than confirmed (6)" % n)


def _block_of(st):
    p = getattr(st, "_parent", None)
    for f in ("body", "orelse"):
        b = getattr(p, f, None)
        if isinstance(b, list) and any(x is st for x in b):
            return p, b
    return p, []


from ..core.cfg import branch_guards  # noqa: E402


def r16i(ctx, repo):
    from ..core import boolx as B

    ctx.rule("R16i", "value tables round-trip field by field (TimeDependentValuesEntry.from_rows / write): the reader takes units, uncertainty, constant (legacy: assumption) from the columns of those names and every year's value from that year's column into TimeSeries.units / sigma / assumption / insert(t, .); the writer puts row_ts.units / sigma / assumption into the column whose header it appended in the same block (header list and column offset advance together, the column index is taken before the offset moves) and every (t, v) of the series into the column of the equal year")
    rd = repo.func("excel", "TimeDependentValuesEntry.from_rows")
    lp = [l for l in own_nodes(rd.node) if isinstance(l, ast.For) and isinstance(l.target, ast.Name) and l.target.id == "row"]
    ctx.require(len(lp) == 1, "R16i: the loop over table rows was not found in from_rows")
    row = lp[0]
    want = {
        "ts.sigma": ("uncertainty", "'uncertainty' in headings"),
        "ts.assumption": ("constant", "'constant' in headings"),
    }
    for tgt, (col, cond) in want.items():
        st = [s for s in ast.walk(row) if isinstance(s, ast.Assign) and ast.unparse(s.targets[0]) == tgt and ast.unparse(s.value) == "cell_get_number(row[headings['%s']])" % col]
        ok = len(st) == 1 and B.equivalent(B.cond(branch_guards(st[0], stop=row)), B.parse_cond(cond))
        ctx.check(ok, "R16i", rd, st[0] if st else row, "%s read from the '%s' column when the sheet has one" % (tgt, col), "`%s` is not read from the '%s' column exactly when the sheet has that column: the %s entered in the databook is lost (or taken from another column) when the book is read" % (tgt, col, tgt.split(".")[1]))
    leg = [s for s in ast.walk(row) if isinstance(s, ast.Assign) and ast.unparse(s.targets[0]) == "ts.assumption" and "headings['assumption']" in ast.unparse(s.value)]
    ctx.check(len(leg) == 1, "R16i", rd, leg[0] if leg else row, "legacy 'assumption' column still read", "the legacy 'assumption' column is no longer read into ts.assumption", stmt_text="legacy-assumption")
    un = [s for s in ast.walk(row) if isinstance(s, ast.Assign) and astq.is_name(s.targets[0], "units") and "headings['units']" in ast.unparse(s.value)]
    mk = [s for s in ast.walk(row) if isinstance(s, ast.Assign) and astq.is_name(s.targets[0], "ts") and ast.unparse(s.value) == "TimeSeries(units=units)"]
    ctx.check(len(un) == 1 and len(mk) == 1 and not branch_guards(mk[0], stop=row), "R16i", rd, mk[0] if mk else row, "units column becomes the series' units", "the series is not created with the units read from the 'units' column", stmt_text="units-read")
    ins = [c for c in ast.walk(row) if isinstance(c, ast.Call) and ast.unparse(c.func) == "ts.insert"]
    ok = len(ins) == 1
    if ok:
        l2 = K.enclosing_loops(ins[0])[0]
        ok = ast.unparse(l2.iter) == "times.items()" and isinstance(l2.target, ast.Tuple) and [ast.unparse(a) for a in ins[0].args] == [ast.unparse(l2.target.elts[0]), "cell_get_number(row[%s])" % ast.unparse(l2.target.elts[1])] and not guards_of(enclosing_stmt(ins[0]), stop=l2)
    ctx.check(ok, "R16i", rd, enclosing_stmt(ins[0]) if ins else row, "every year's cell is inserted at that year", "the value of each year is not inserted as ts.insert(t, cell_get_number(row[idx])) for every (t, idx) of the header's year columns", stmt_text="years-read")
    keep = [s for s in ast.walk(row) if isinstance(s, ast.Assign) and ast.unparse(s.targets[0]) == "ts_entries[series_name]" and ast.unparse(s.value) == "ts"]
    fin = [s for s in own_nodes(rd.node) if isinstance(s, ast.Assign) and ast.unparse(s.targets[0]) == "tdve.ts" and ast.unparse(s.value) == "ts_entries"]
    ctx.check(len(keep) == 1 and len(fin) == 1, "R16i", rd, keep[0] if keep else row, "every row's series is kept under its name", "the series read from a row is not stored under the row's name in the table", stmt_text="rows-kept")

    wr = repo.func("excel", "TimeDependentValuesEntry.write")
    # header / offset discipline
    apps = [c for c in own_nodes(wr.node) if isinstance(c, ast.Call) and ast.unparse(c.func) == "headings.append"]
    blocks = {}
    for c in apps:
        p, b = _block_of(enclosing_stmt(c))
        blocks.setdefault(id(p), (p, b, []))[2].append(c)
    idxvars = {}
    for pid, (p, b, cs) in blocks.items():
        if isinstance(p, (ast.FunctionDef,)):
            continue
        cs = sorted(cs, key=lambda c_: (c_.lineno, c_.col_offset))
        incs = [s for s in b if isinstance(s, ast.AugAssign) and astq.is_name(s.target, "offset")]
        amount = sum(s.value.value for s in incs if isinstance(s.op, ast.Add) and isinstance(s.value, ast.Constant)) if all(isinstance(s.op, ast.Add) and isinstance(s.value, ast.Constant) for s in incs) else None
        idx = [s for s in b if isinstance(s, ast.Assign) and ast.unparse(s.value) == "offset"]
        ok = amount == len(cs) and len(idx) == 1 and incs and idx[0].lineno < incs[0].lineno
        label = ast.unparse(cs[0].args[0]).replace('"', "'")
        ctx.check(ok, "R16i", wr, b[0], "header %s: list and offset advance together, index taken before the move" % label, "in the block that appends the header %s the column offset does not advance by the number of headers appended (%s vs %d), or the column index is not taken from `offset` before it moves: the cells of this and all later columns are written under the wrong header" % (label, amount, len(cs)), stmt_text="header-block:%s" % label)
        if idx:
            idxvars[label] = ast.unparse(idx[0].targets[0])
    fields = {"'Units'": ("units", "write_units"), "'Uncertainty'": ("sigma", "write_uncertainty"), "self.assumption_heading": ("assumption", "write_assumption")}
    for label, (attr, flag) in fields.items():
        iv = idxvars.get(label)
        if iv is None:
            ctx.fail("R16i", wr, wr.node, "the writer has no header block for %s" % label, stmt_text="header-missing:%s" % label)
            continue
        cells = [c for c in own_nodes(wr.node) if isinstance(c, ast.Call) and ast.unparse(c.func) == "worksheet.write" and len(c.args) >= 3 and ast.unparse(c.args[1]) == iv]
        vals = {ast.unparse(c.args[2]) for c in cells}
        if attr == "units":
            okv = bool(cells) and vals <= {"unit", "FS.DEFAULT_SYMBOL_INAPPLICABLE"} and "unit" in vals
            src = [s for s in own_nodes(wr.node) if isinstance(s, ast.Assign) and astq.is_name(s.targets[0], "unit")]
            okv = okv and bool(src) and all("row_ts.units" in ast.unparse(s.value) for s in src)
        else:
            okv = bool(cells) and vals == {"row_ts.%s" % attr}
        okg = all(any(pol and ast.unparse(t) == flag for t, pol in guards_of(enclosing_stmt(c))) for c in cells)
        ctx.check(okv and okg, "R16i", wr, enclosing_stmt(cells[0]) if cells else wr.node, "column %s carries row_ts.%s" % (label, attr), "the cells of the %s column do not carry row_ts.%s (written: %s) under `%s`: the value comes back as something else (or not at all) when the book is read" % (label, attr, sorted(vals), flag), stmt_text="cells:%s" % attr)
    # year values
    put = [s for s in own_nodes(wr.node) if isinstance(s, ast.Assign) and ast.unparse(s.targets[0]) == "content[idx[0]]"]
    ok = len(put) == 1
    if ok:
        l2 = K.enclosing_loops(put[0])[0]
        ok = ast.unparse(l2.iter) == "zip(row_ts.t, row_ts.vals)" and ast.unparse(put[0].value) == ast.unparse(l2.target.elts[1])
        m = [s for s in l2.body if isinstance(s, ast.Assign) and astq.is_name(s.targets[0], "idx")]
        ok = ok and len(m) == 1 and ast.unparse(m[0].value) in ("np.where(self.tvec == %s)[0]" % ast.unparse(l2.target.elts[0]), "np.where(%s == self.tvec)[0]" % ast.unparse(l2.target.elts[0]))
    ctx.check(ok, "R16i", wr, put[0] if put else wr.node, "each (t, v) goes to the column of the equal year", "the writer does not place each value of the series in the column whose year equals the value's year (content[np.where(self.tvec == t)[0][0]] = v)", stmt_text="years-written")
    outs = [c for c in own_nodes(wr.node) if isinstance(c, ast.Call) and ast.unparse(c.func) in ("worksheet.write", "worksheet.write_blank") and len(c.args) >= 3 and ast.unparse(c.args[1]) == "offset + idx"]
    ok = len(outs) == 2 and all(ast.unparse(c.args[2]) == "v" for c in outs)
    ctx.check(ok, "R16i", wr, enclosing_stmt(outs[0]) if outs else wr.node, "year cells written at offset + position", "the year cells are not written at column offset + idx with the value of that year", stmt_text="years-cells")
    hd = [s for s in own_nodes(wr.node) if isinstance(s, ast.AugAssign) and astq.is_name(s.target, "headings")]
    ok = len(hd) == 1 and isinstance(hd[0].op, ast.Add) and ast.unparse(hd[0].value) == "[float(x) for x in self.tvec]"
    ctx.check(ok, "R16i", wr, hd[0] if hd else wr.node, "year headers follow the fixed columns", "the year headers are not appended after the fixed columns in the order of self.tvec", stmt_text="years-header")


def r16j(ctx, repo):
    ctx.rule("R16j", "the program book is written on a time axis that covers everything that was read: ProgramSet._read_spending collects the year columns of every program table (an accumulator updated inside the loop over tables) and sets self.tvec to their sorted union - not to the years of whichever table was read last; _write_spending gives every table that axis, and the value-table writer only writes values whose year is on its axis")
    fi = repo.func("programs", "ProgramSet._read_spending")
    me = K.self_name(fi)
    st = [s for s in own_nodes(fi.node) if isinstance(s, ast.Assign) and ast.unparse(s.targets[0]) == "%s.tvec" % me]
    ctx.require(len(st) == 1, "R16j: assignment of self.tvec not found in _read_spending")
    loops = [l for l in own_nodes(fi.node) if isinstance(l, ast.For) and "tables" in ast.unparse(l.iter)]
    ctx.require(len(loops) == 1, "R16j: loop over the spending tables not found")
    l = loops[0]
    inside = {t.id for s in ast.walk(l) if isinstance(s, ast.Assign) for t in s.targets if isinstance(t, ast.Name)} | {x.id for x in ast.walk(l.target) if isinstance(x, ast.Name)}
    used = {n.id for n in ast.walk(st[0].value) if isinstance(n, ast.Name)}
    last = sorted(used & inside)
    ctx.check(not last and st[0].lineno > l.end_lineno, "R16j", fi, st[0], "self.tvec does not depend on the last table read", "`%s` uses `%s`, which after the loop holds only the last table read: years that appear only in other program tables are not on the ProgramSet's time axis, and every value entered in such a year is silently left out when the program book is written (the re-read program set differs in content and in simulation)" % (norm(st[0])[:80], ", ".join(last)))
    accs = [n for n in used - inside if any(isinstance(c, ast.Call) and isinstance(c.func, ast.Attribute) and c.func.attr in ("update", "add", "extend", "append") and astq.is_name(c.func.value, n) for c in ast.walk(l))]
    ok = False
    for a in accs:
        ups = [c for c in ast.walk(l) if isinstance(c, ast.Call) and isinstance(c.func, ast.Attribute) and astq.is_name(c.func.value, a) and c.func.attr in ("update", "add", "extend", "append")]
        ok = ok or any(".tvec" in ast.unparse(c) and not [g for g in branch_guards(enclosing_stmt(c), stop=l)] for c in ups)
    ctx.check(ok, "R16j", fi, st[0], "year columns of every table are collected in the loop", "no accumulator is updated with each table's year columns (unconditionally, inside the loop over tables) and then used for self.tvec", stmt_text="tvec-accumulated")
    ctx.check("sorted(" in ast.unparse(st[0].value), "R16j", fi, st[0], "the axis is sorted", "self.tvec is not sorted", stmt_text="tvec-sorted")
    ws = repo.func("programs", "ProgramSet._write_spending")
    mk = [c for c in own_nodes(ws.node) if isinstance(c, ast.Call) and ast.unparse(c.func) == "TimeDependentValuesEntry"]
    ok = bool(mk) and all(len(c.args) >= 2 and ast.unparse(c.args[1]) == "%s.tvec" % K.self_name(ws) or (astq.kwarg(c, "tvec") is not None and ast.unparse(astq.kwarg(c, "tvec")) == "%s.tvec" % K.self_name(ws)) for c in mk)
    ctx.check(ok, "R16j", ws, enclosing_stmt(mk[0]) if mk else ws.node, "every spending table is written on the ProgramSet's axis", "_write_spending does not create each table on self.tvec", stmt_text="write-axis")


def r16k(ctx, repo, T):
    ctx.rule("R16k", "names of different kinds are not compared with each other: where the two sides of ==, != or in have definite and different sorts (parameter / population / program / compartment name - from the class whose .name it is, or from the position in a covouts key) the comparison is always false; this catches keys of (parameter, population) mappings unpacked the wrong way round")
    n = 0
    SORTN = {PROG: "program", COMP: "compartment", POP: "population", PAR: "parameter"}
    for fi in repo.all_functions():
        if fi.module.name.split(".")[-1] in ("migration", "plotting"):
            continue
        if not any(isinstance(x, ast.Attribute) and x.attr == "covouts" for x in own_nodes(fi.node)):
            continue
        sorts = name_sorts(repo, T, fi)
        for c in own_nodes(fi.node):
            if isinstance(c, ast.Compare) and len(c.ops) == 1 and isinstance(c.ops[0], (ast.Eq, ast.NotEq)):
                a = sort_of_expr(repo, T, fi, c.left, sorts)
                b = sort_of_expr(repo, T, fi, c.comparators[0], sorts)
                if a is None or b is None:
                    continue
                n += 1
                ctx.check(a == b, "R16k", fi, enclosing_stmt(c), "`%s` compares two %s names" % (ast.unparse(c)[:50], SORTN[a]), "`%s` compares a %s name with a %s name: it is never true, so whatever it selects (parameters that programs overwrite, entries to remove) is silently empty" % (ast.unparse(c)[:70], SORTN[a], SORTN[b]))
    ctx.extra["sorted_name_comparisons"] = n
    ctx.ok("R16k", "atomica", "%d comparisons between names of definite sort examined" % n)


def r16m(ctx, repo):
    from ..core import boolx as B
    from ..core.cfg import branch_guards

    ctx.rule("R16m", "removing an item from a program set removes exactly that item's entries: remove_pop deletes the covouts whose population component equals the resolved code name (and only those) and strips the population from every program that targets it; remove_comp strips the compartment from every program that targets it; remove_par deletes the covouts of that parameter; remove_program deletes the program from every covout that has it and refreshes that covout; each ends by deleting the item itself")
    # remove_pop
    fi = repo.func("programs", "ProgramSet.remove_pop")
    dels = [d for d in own_nodes(fi.node) if isinstance(d, ast.Delete) and "covouts" in ast.unparse(d)]
    ok = len(dels) == 1
    if ok:
        lp = dels[0]
        while lp is not None and not isinstance(lp, ast.For):
            lp = getattr(lp, "_parent", None)
        ok = lp is not None and isinstance(lp.target, ast.Tuple) and len(lp.target.elts) == 2 and "covouts" in ast.unparse(lp.iter)
        if ok:
            par_v, pop_v = (e.id for e in lp.target.elts)
            g = B.cond(branch_guards(dels[0], stop=lp))
            ok = B.equivalent(g, B.parse_cond("%s == code_name" % pop_v)) and ast.unparse(dels[0].targets[0].slice) in ("(%s, %s)" % (par_v, pop_v), "%s, %s" % (par_v, pop_v))
            # iterating a snapshot of the keys while deleting
            ok = ok and (ast.unparse(lp.iter).startswith("list(") or ast.unparse(lp.iter).startswith("tuple(") or "copy" in ast.unparse(lp.iter))
    ctx.check(ok, "R16m", fi, dels[0] if dels else fi.node, "remove_pop deletes exactly the covouts of that population", "remove_pop does not delete `covouts[(par, pop)]` exactly for the keys whose population equals the resolved code name (iterating a snapshot of the keys): other populations' outcomes are deleted, or the removed population's stay behind", stmt_text="remove_pop-covouts")
    for q, coll, field in (("ProgramSet.remove_pop", "target_pops", "pops"), ("ProgramSet.remove_comp", "target_comps", "comps")):
        f = repo.func("programs", q)
        rm = [c for c in ast.walk(f.node) if isinstance(c, ast.Call) and isinstance(c.func, ast.Attribute) and c.func.attr == "remove" and ast.unparse(c.func.value).endswith("." + coll)]
        ok = len(rm) == 1 and [ast.unparse(a) for a in rm[0].args] == ["code_name"]
        if ok:
            lp = enclosing_stmt(rm[0])
            while lp is not None and not isinstance(lp, ast.For):
                lp = getattr(lp, "_parent", None)
            owner = ast.unparse(rm[0].func.value)
            ok = lp is not None and ast.unparse(lp.iter).endswith(".programs.values()") and B.equivalent(B.cond(branch_guards(enclosing_stmt(rm[0]), stop=lp)), B.parse_cond("code_name in %s" % owner))
        ctx.check(ok, "R16m", f, enclosing_stmt(rm[0]) if rm else f.node, "%s strips the item from every program that targets it" % q, "%s does not remove the resolved code name from `%s` of every program that has it" % (q, coll), stmt_text="strip:%s" % coll)
        last = f.node.body[-1]
        ctx.check(isinstance(last, ast.Delete) and ast.unparse(last.targets[0]) == "%s.%s[code_name]" % (f.params[0], field), "R16m", f, last, "%s ends by deleting the item" % q, "%s does not end with `del self.%s[code_name]`" % (q, field), stmt_text="del-item:%s" % field)
    # remove_par
    f = repo.func("programs", "ProgramSet.remove_par")
    dels = [d for d in own_nodes(f.node) if isinstance(d, ast.Delete) and "covouts" in ast.unparse(d)]
    ok = len(dels) == 1
    if ok:
        lp = dels[0]
        while lp is not None and not isinstance(lp, ast.For):
            lp = getattr(lp, "_parent", None)
        ok = lp is not None and ast.unparse(lp.iter) in ("%s.pops" % f.params[0], "%s.pops.keys()" % f.params[0], "list(%s.pops)" % f.params[0]) and isinstance(lp.target, ast.Name)
        if ok:
            key = "(code_name, %s)" % lp.target.id
            t0 = dels[0].targets[0]
            ok = isinstance(t0, ast.Subscript) and ast.unparse(t0.value) == "%s.covouts" % f.params[0] and isinstance(t0.slice, ast.Tuple) and [ast.unparse(e) for e in t0.slice.elts] == ["code_name", lp.target.id] and B.equivalent(B.cond(branch_guards(dels[0], stop=lp)), B.parse_cond("%s in %s.covouts" % (key, f.params[0])))
    ctx.check(ok, "R16m", f, dels[0] if dels else f.node, "remove_par deletes the parameter's covouts in every population", "remove_par does not delete `covouts[(code_name, pop)]` for every population that has one", stmt_text="remove_par-covouts")
    dl = [d for d in own_nodes(f.node) if isinstance(d, ast.Delete) and ast.unparse(d.targets[0]) == "%s.pars[code_name]" % f.params[0] and not branch_guards(d, stop=f.node)]
    ctx.check(len(dl) == 1, "R16m", f, dl[0] if dl else f.node, "remove_par deletes the parameter entry", "remove_par does not (unconditionally) `del self.pars[code_name]`", stmt_text="del-item:pars")
    # remove_program
    f = repo.func("programs", "ProgramSet.remove_program")
    dl = [d for d in own_nodes(f.node) if isinstance(d, ast.Delete) and ast.unparse(d.targets[0]) == "%s.programs[code_name]" % f.params[0] and not branch_guards(d, stop=f.node)]
    ctx.check(len(dl) == 1, "R16m", f, dl[0] if dl else f.node, "remove_program deletes the program entry", "remove_program does not (unconditionally) `del self.programs[code_name]`", stmt_text="del-item:programs")
    dels = [d for d in own_nodes(f.node) if isinstance(d, ast.Delete) and ".progs[" in ast.unparse(d)]
    ok = len(dels) == 1
    if ok:
        tgt = dels[0].targets[0]
        cov = ast.unparse(tgt.value.value)  # self.covouts[(par, pop)]
        g = B.cond(branch_guards(dels[0], stop=f.node))
        key = ast.unparse(tgt.value.value.slice)
        ok = ast.unparse(tgt.slice) == "code_name" and B.equivalent(g, B.parse_cond("%s in %s.covouts and code_name in %s.progs" % (key if key.startswith("(") else "(%s)" % key, f.params[0], cov)))
        blk = dels[0]._parent.body if hasattr(dels[0], "_parent") else []
        ok = ok and any(isinstance(x, ast.Expr) and ast.unparse(x.value) == "%s.update_outcomes()" % cov for x in blk[blk.index(dels[0]) + 1 :])
    ctx.check(ok, "R16m", f, dels[0] if dels else f.node, "remove_program deletes the program from every covout that has it and refreshes the cache", "remove_program does not delete `covouts[(par, pop)].progs[code_name]` exactly where it exists and refresh that covout's cached outcomes afterwards", stmt_text="remove_program-covouts")


def r16n(ctx, repo):
    from ..core import boolx as B
    from ..core.cfg import branch_guards

    ctx.rule("R16n", "a reconciled program set survives its own spreadsheet: _convert_to_single_year moves the program set's time axis to the reconciliation year, and the program book writer only writes time-specific values that lie on that axis - so every per-program series the writer exports (the fields assigned to `tdve.ts[...]` in ProgramSet._write_spending) must be re-based onto the reconciliation year there, whenever it has data and under no further condition: vals = <field>.interpolate(year), t = year, assumption = None")
    wr = repo.func("programs", "ProgramSet._write_spending")
    fields = []
    for s_ in own_nodes(wr.node):
        if isinstance(s_, ast.Assign) and isinstance(s_.targets[0], ast.Subscript) and ast.unparse(s_.targets[0].value).endswith(".ts") and isinstance(s_.value, ast.Attribute) and isinstance(s_.value.value, ast.Name):
            fields.append(s_.value.attr)
    ctx.require(len(fields) >= 4, "R16n: the per-program series written by _write_spending were not recognised (%s)" % fields)
    cv = repo.func("reconciliation", "_convert_to_single_year")
    year = cv.params[1]
    loops = [l for l in own_nodes(cv.node) if isinstance(l, ast.For) and ".programs" in ast.unparse(l.iter) and isinstance(l.target, ast.Name)]
    ctx.require(len(loops) == 1, "R16n: the loop over programs was not found in _convert_to_single_year")
    lp, pv = loops[0], loops[0].target.id
    tv = [s_ for s_ in own_nodes(cv.node) if isinstance(s_, ast.Assign) and ast.unparse(s_.targets[0]).endswith(".tvec")]
    ctx.require(tv, "R16n: _convert_to_single_year no longer sets the program set's tvec (unrecognised shape)")
    for f in fields:
        base = "%s.%s" % (pv, f)
        st = {a: [s_ for s_ in ast.walk(lp) if isinstance(s_, ast.Assign) and ast.unparse(s_.targets[0]) == "%s.%s" % (base, a)] for a in ("vals", "t", "assumption")}
        ok = all(len(v) == 1 for v in st.values())
        why = "is not re-based (vals, t, assumption) onto the reconciliation year"
        if ok:
            v = st["vals"][0].value
            ok = isinstance(v, ast.Call) and ast.unparse(v.func) == base + ".interpolate" and v.args and year in ast.unparse(v.args[0]) and year in ast.unparse(st["t"][0].value) and isinstance(st["assumption"][0].value, ast.Constant) and st["assumption"][0].value.value is None
            why = "is not set to its value at the reconciliation year (vals = %s.interpolate(%s), t = %s, assumption = None)" % (base, year, year)
            if ok:
                for a, v_ in st.items():
                    g = B.cond(branch_guards(v_[0], stop=lp))
                    if not B.equivalent(g, B.parse_cond("%s.has_data" % base)):
                        ok = False
                        why = "is re-based only when `%s` (expected: whenever `%s.has_data`)" % (" and ".join(("" if p else "not ") + ast.unparse(t) for t, p in branch_guards(v_[0], stop=lp)), base)
                        break
        ctx.check(ok, "R16n", cv, st["vals"][0] if st["vals"] else lp, "`%s` re-based onto the reconciliation year whenever it has data" % f, "the program series `%s`, which the program book writer exports, %s: its time-specific values stay at years that are no longer on the program set's time axis, the writer skips them, and the reconciled program set rebuilt from its own spreadsheet has lost them" % (f, why), stmt_text="rebase:%s" % f)


VALUE_CACHE = {"_cached_progs", "_deltas", "_combination_outcomes"}  # cache fields computed from the outcome values (baseline, progs, _interactions)


def cache_refresh_rule(ctx, repo, rule):
    from ..core.cfg import guards_of as _g

    ctx.rule(rule, "update_outcomes() refreshes the whole cache every time: each cache field of a Covout (a field update_outcomes writes: the ordered programs, the deltas, the combination table and the combination outcomes) is assigned at the top level of update_outcomes, not under a condition or behind an early exit - a field that is only rebuilt when 'something structural changed' keeps outcomes computed from the previous values after a sample, a reconciliation step or an edit")
    fi = repo.func("programs", "Covout.update_outcomes")
    me = fi.params[0]
    src, cache = covout_fields(repo)
    ctx.require(len(cache) >= 4, "%s: fewer cache fields (%s) than confirmed (4)" % (rule, sorted(cache)))
    for f in sorted(cache):
        st = [s_ for s_ in own_nodes(fi.node) if isinstance(s_, ast.Assign) and any(ast.unparse(t) == "%s.%s" % (me, f) for t in s_.targets)]
        if f not in VALUE_CACHE:
            # a table that depends only on how many programs there are (the 0/1 combination matrix) may be kept while that number is unchanged
            ctx.check(bool(st), rule, fi, st[0] if st else fi.node, "`%s` (structure only) is built in update_outcomes" % f, "update_outcomes no longer builds `%s`" % f, stmt_text="cache-built:%s" % f)
            continue
        ok = bool(st) and any(not _g(s_, stop=fi.node) and any(s_ is b for b in fi.node.body) for s_ in st)
        g = _g(st[0], stop=fi.node) if st else []
        ctx.check(ok, rule, fi, st[0] if st else fi.node, "`%s` rebuilt unconditionally" % f, "update_outcomes rebuilds the cache field `%s` only when %s: after a change of the outcomes alone (sampling, reconciliation, an edited value) get_outcome() keeps using the stale table" % (f, " and ".join(("" if p else "not ") + "`%s`" % ast.unparse(t)[:70] for t, p in g) or "a nested block runs"), stmt_text="cache-unconditional:%s" % f)


def r16p(ctx, repo):
    from ..core.cfg import branch_guards

    ctx.rule("R16p", "the spending table is read back into the fields it was written from: every row `tdve.ts[<label>] = prog.<field>` that ProgramSet._write_spending writes is read by _read_spending with `set_ts(prog, <the same field>, tdve.ts[<the same label>])`, on a path that is taken for a book written by this library (unconditionally, or in the else branch of a legacy-label test); set_ts stores the series it was given under the field it was given")
    wr = repo.func("programs", "ProgramSet._write_spending")
    rd = repo.func("programs", "ProgramSet._read_spending")
    written = {}
    for s_ in own_nodes(wr.node):
        if isinstance(s_, ast.Assign) and isinstance(s_.targets[0], ast.Subscript) and ast.unparse(s_.targets[0].value).endswith(".ts") and isinstance(s_.targets[0].slice, ast.Constant) and isinstance(s_.value, ast.Attribute):
            written[s_.targets[0].slice.value] = s_.value.attr
    ctx.require(len(written) >= 5, "R16p: fewer rows written by _write_spending (%s) than confirmed (5)" % sorted(written))
    reads = []
    for c in ast.walk(rd.node):
        if isinstance(c, ast.Call) and ast.unparse(c.func) == "set_ts" and len(c.args) == 3 and isinstance(c.args[1], ast.Constant) and isinstance(c.args[2], ast.Subscript) and isinstance(c.args[2].slice, ast.Constant):
            reads.append((c.args[2].slice.value, c.args[1].value, c))
    for label, field in sorted(written.items()):
        mine = [(l, f, c) for l, f, c in reads if l == label]
        ok = len(mine) == 1 and mine[0][1] == field
        if ok:
            g = branch_guards(enclosing_stmt(mine[0][2]), stop=rd.node)
            # taken for a freshly written book: no guard, or only negative legacy-label tests (`"Total spend" in tdve.ts` false)
            ok = all((not pol) and isinstance(t, ast.Compare) and isinstance(t.ops[0], ast.In) and isinstance(t.left, ast.Constant) and t.left.value not in written for t, pol in g)
        ctx.check(ok, "R16p", rd, enclosing_stmt(mine[0][2]) if mine else rd.node, "row `%s` read back into `%s`" % (label, field), "the row `%s`, written from `prog.%s`, is %s: after a round trip through the program book that series is lost, or ends up in another field" % (label, field, ("read into `prog.%s`" % mine[0][1]) if len(mine) == 1 and mine[0][1] != field else ("not read back (or only under a condition that a freshly written book does not meet)")), stmt_text="spending-row:%s" % label)
    st = rd.nested.get("set_ts") if hasattr(rd, "nested") else None
    ctx.require(st is not None, "R16p: helper set_ts not found in _read_spending")
    pr, fn, ts = st.params[:3]
    sa = [c for c in own_nodes(st.node) if isinstance(c, ast.Call) and ast.unparse(c.func) == "setattr"]
    ok = len(sa) == 1 and [ast.unparse(a) for a in sa[0].args] == [pr, fn, ts] and not branch_guards(enclosing_stmt(sa[0]), stop=st.node)
    ctx.check(ok, "R16p", st, enclosing_stmt(sa[0]) if sa else st.node, "set_ts stores the series under the given field, unconditionally", "set_ts does not (unconditionally) `setattr(%s, %s, %s)`: series read from the book are dropped or stored elsewhere" % (pr, fn, ts), stmt_text="set_ts")


EFFECT_COLUMNS = {"baseline value": ("baseline", "baseline", "not None"), "coverage interaction": ("cov_interaction", "cov_interaction", "truthy"), "impact interaction": ("imp_interaction", "imp_interaction", "truthy"), "uncertainty": ("uncertainty", "sigma", "not None")}


def r16q(ctx, repo):
    from ..core import boolx as B
    from ..core.cfg import branch_guards

    ctx.rule("R16q", "the effects table is read back into the Covout fields it was written from: the four special columns the writer emits ('Baseline value', 'Coverage interaction', 'Impact interaction', 'Uncertainty', in that order, from covout.baseline / cov_interaction / imp_interaction / sigma) are recognised by _read_effects under exactly their own (lower-cased) header, stored into the local that is handed to the Covout constructor under the matching keyword, numeric cells whenever they are not None (0 is a value), text cells whenever they are non-empty; every other non-empty cell under a program's header becomes that program's outcome")
    wr = repo.func("programs", "ProgramSet._write_effects")
    rd = repo.func("programs", "ProgramSet._read_effects")
    # writer: header order and the field written in each column
    hdr = [l for l in ast.walk(wr.node) if isinstance(l, ast.List) and len(l.elts) == 4 and all(isinstance(e, ast.Constant) and isinstance(e.value, str) for e in l.elts) and l.elts[0].value.lower() == "baseline value"]
    ctx.require(len(hdr) == 1, "R16q: the header list of _write_effects was not found")
    labels = [e.value.lower() for e in hdr[0].elts]
    ctx.check(labels == list(EFFECT_COLUMNS), "R16q", wr, enclosing_stmt(hdr[0]), "writer header order", "the effects writer's special columns are %s, not %s" % (labels, list(EFFECT_COLUMNS)), stmt_text="effects-headers")
    for col, label in enumerate(labels, start=1):
        if label not in EFFECT_COLUMNS:
            continue
        attr = EFFECT_COLUMNS[label][1]
        w = [c for c in ast.walk(wr.node) if isinstance(c, ast.Call) and isinstance(c.func, ast.Attribute) and c.func.attr == "write" and len(c.args) >= 3 and isinstance(c.args[1], ast.Constant) and c.args[1].value == col and ("covout.%s" % attr) in ast.unparse(c.args[2])]
        ctx.check(len(w) == 1, "R16q", wr, enclosing_stmt(w[0]) if w else wr.node, "column %d ('%s') written from covout.%s" % (col, label, attr), "the effects writer does not write `covout.%s` into column %d (header '%s')" % (attr, col, label), stmt_text="effects-col:%s" % label)
    # reader: the dispatch chain over idx_to_header[i].lower()
    ctor = [c for c in ast.walk(rd.node) if isinstance(c, ast.Call) and ast.unparse(c.func) == "Covout"]
    ctx.require(len(ctor) == 1, "R16q: the Covout constructor call of _read_effects was not found")
    kw = {k.arg: ast.unparse(k.value) for k in ctor[0].keywords}
    for label, (local, attr, when) in EFFECT_COLUMNS.items():
        ctorkw = "uncertainty" if label == "uncertainty" else local
        st = [s_ for s_ in own_nodes(rd.node) if isinstance(s_, ast.Assign) and astq.is_name(s_.targets[0], kw.get(ctorkw, local)) and not (isinstance(s_.value, ast.Constant) and s_.value.value is None)]
        ok = len(st) == 1 and kw.get(ctorkw) is not None
        why = "is not stored exactly once into the local handed to Covout(%s=...)" % ctorkw
        if ok:
            lp = st[0]
            while lp is not None and not (isinstance(lp, ast.For) and "enumerate" in ast.unparse(lp.iter)):
                lp = getattr(lp, "_parent", None)
            g = [(t, p) for t, p in branch_guards(st[0], stop=lp)]
            pos = [(t, p) for t, p in g if p]
            cell = None
            for t, p in pos:
                for x in ast.walk(t):
                    if isinstance(x, ast.Attribute) and x.attr == "value":
                        cell = ast.unparse(x)
            hdr_tests = [t for t, p in pos if "idx_to_header" in ast.unparse(t) and isinstance(t, ast.Compare)]
            ok = len(hdr_tests) == 1 and isinstance(hdr_tests[0].ops[0], ast.Eq) and label in [getattr(c_, "value", None) for c_ in [hdr_tests[0].left] + hdr_tests[0].comparators] and ".lower()" in ast.unparse(hdr_tests[0])
            why = "is not read under the header test `idx_to_header[i].lower() == '%s'`" % label
            if ok and cell is not None:
                val_tests = [t for t, p in pos if cell in ast.unparse(t) and "idx_to_header" not in ast.unparse(t)]
                want = "%s is not None" % cell if when == "not None" else cell
                ok = len(val_tests) == 1 and B.equivalent(B.of(val_tests[0]), B.parse_cond(want))
                why = "is read when `%s`, expected whenever `%s`%s" % (ast.unparse(val_tests[0]) if val_tests else "?", want, " (an entered 0 would be dropped)" if when == "not None" else "")
                ok = ok and cell in ast.unparse(st[0].value)
        ctx.check(ok, "R16q", rd, st[0] if st else rd.node, "column '%s' read into Covout(%s=...)" % (label, ctorkw), "the effects column '%s' %s: after a round trip through the program book the %s of an effect is lost or changed" % (label, why, label), stmt_text="effects-read:%s" % label)
    pr = [s_ for s_ in own_nodes(rd.node) if isinstance(s_, ast.Assign) and isinstance(s_.targets[0], ast.Subscript) and astq.is_name(s_.targets[0].value, kw.get("progs", "progs"))]
    ok = len(pr) == 1 and ast.unparse(pr[0].targets[0].slice) == "idx_to_header[i]" and "float(" in ast.unparse(pr[0].value)
    ctx.check(ok, "R16q", rd, pr[0] if pr else rd.node, "program outcomes keyed by the column header", "program outcomes are not stored as `progs[idx_to_header[i]] = float(<cell>)`", stmt_text="effects-read:progs")


def r16r(ctx, repo):
    from ..core import boolx as B
    from ..core.cfg import branch_guards

    ctx.rule("R16r", "targets survive the program book: _write_targeting writes 'Y' exactly for the populations / compartments in prog.target_pops / prog.target_comps (and 'N' otherwise); _read_targeting appends to target_pops / target_comps exactly for the cells that read 'y' (case and blanks ignored), looks the header of that same column up, and hands both lists to Program(target_pops=..., target_comps=...)")
    wr = repo.func("programs", "ProgramSet._write_targeting")
    for coll in ("target_pops", "target_comps"):
        ys = [c for c in ast.walk(wr.node) if isinstance(c, ast.Call) and isinstance(c.func, ast.Attribute) and c.func.attr == "write" and len(c.args) >= 3 and isinstance(c.args[2], ast.Constant) and c.args[2].value == "Y" and any(coll in ast.unparse(t) for t, p in branch_guards(enclosing_stmt(c), stop=wr.node))]
        ok = len(ys) == 1
        if ok:
            g = [(t, p) for t, p in branch_guards(enclosing_stmt(ys[0]), stop=wr.node) if coll in ast.unparse(t)]
            ok = len(g) == 1 and g[0][1] and isinstance(g[0][0], ast.Compare) and isinstance(g[0][0].ops[0], ast.In) and ast.unparse(g[0][0].comparators[0]).endswith("." + coll)
            iff = enclosing_stmt(ys[0])._parent
            ns = [c for c in ast.walk(iff) if isinstance(c, ast.Call) and isinstance(c.func, ast.Attribute) and c.func.attr == "write" and len(c.args) >= 3 and isinstance(c.args[2], ast.Constant) and c.args[2].value == "N"] if isinstance(iff, ast.If) else []
            ok = ok and len(ns) == 1 and any(enclosing_stmt(ns[0]) is x for x in iff.orelse)
        ctx.check(ok, "R16r", wr, enclosing_stmt(ys[0]) if ys else wr.node, "'Y' written exactly for the members of %s" % coll, "_write_targeting does not write 'Y' exactly when the item is in `prog.%s` (and 'N' otherwise)" % coll, stmt_text="write-targets:%s" % coll)
    rd = repo.func("programs", "ProgramSet._read_targeting")
    for coll in ("target_pops", "target_comps"):
        aps = [c for c in ast.walk(rd.node) if isinstance(c, ast.Call) and isinstance(c.func, ast.Attribute) and c.func.attr == "append" and astq.is_name(c.func.value, coll)]
        ok = len(aps) >= 1
        for a in aps:
            lp = enclosing_stmt(a)
            while lp is not None and not (isinstance(lp, ast.For) and isinstance(lp.target, ast.Name) and "range" in ast.unparse(lp.iter)):
                lp = getattr(lp, "_parent", None)
            if lp is None:
                ok = False
                break
            i = lp.target.id
            g = branch_guards(enclosing_stmt(a), stop=lp)
            ytest = [(t, p) for t, p in g if "'y'" in ast.unparse(t)]
            good = len(ytest) == 1 and ytest[0][1] and ("row[%s].value.lower().strip() == 'y'" % i in ast.unparse(ytest[0][0]) or "row[%s].value.strip().lower() == 'y'" % i in ast.unparse(ytest[0][0]))
            # the appended name comes from the header of the same column
            good = good and ("_idx[%s]" % i) in ast.unparse(a.args[0]) or (good and any(isinstance(x, ast.Name) and x.id == "spec" for x in ast.walk(a.args[0])))
            ok = ok and good
        ctx.check(ok, "R16r", rd, enclosing_stmt(aps[0]) if aps else rd.node, "%s filled exactly from the 'y' cells, named by the same column's header" % coll, "_read_targeting does not append to `%s` exactly for the cells whose text is 'y' using the header of the same column: targets are lost, added, or attributed to another population / compartment after a round trip" % coll, stmt_text="read-targets:%s" % coll)
    ctor = [c for c in ast.walk(rd.node) if isinstance(c, ast.Call) and ast.unparse(c.func) == "Program"]
    kw = {k.arg: ast.unparse(k.value) for k in ctor[0].keywords} if ctor else {}
    ctx.check(len(ctor) == 1 and kw.get("target_pops") == "target_pops" and kw.get("target_comps") == "target_comps", "R16r", rd, enclosing_stmt(ctor[0]) if ctor else rd.node, "both target lists handed to Program(...)", "the program is not built with Program(target_pops=target_pops, target_comps=target_comps)", stmt_text="read-targets:ctor")


def r16s(ctx, repo):
    ctx.rule("R16s", "every transition survives the framework spreadsheet: ProjectFramework.to_spreadsheet rebuilds the Transitions matrices by iterating over all entries of self.transitions - the parameter names and the special residual key '>' alike (the reader _process_transitions stores both in that mapping) - and writes each pair whose source compartment belongs to the matrix's population type; an iteration over the Parameters sheet instead would drop the parameter-less residual links of junctions")
    fi = repo.func("framework", "ProjectFramework.to_spreadsheet")
    me = fi.params[0]
    loops = [l for l in own_nodes(fi.node) if isinstance(l, ast.For) and ast.unparse(l.iter) in ("%s.transitions.items()" % me, "%s.transitions" % me, "%s.transitions.keys()" % me, "sorted(%s.transitions.items())" % me)]
    ok = len(loops) == 1
    ctx.check(ok, "R16s", fi, loops[0] if loops else fi.node, "the transitions matrices are rebuilt from every key of self.transitions", "to_spreadsheet does not iterate over `self.transitions` itself when it rebuilds the Transitions sheet: entries that are not on the Parameters sheet (the residual '>' links) are not written, and the framework read back has lost them", stmt_text="transitions-iter")
    if ok:
        lp = loops[0]
        st = [s_ for s_ in ast.walk(lp) if isinstance(s_, ast.Assign) and isinstance(s_.targets[0], ast.Subscript) and ".at" in ast.unparse(s_.targets[0].value)]
        from ..core.cfg import branch_guards

        g = [ast.unparse(t) for s_ in st[:1] for t, p in branch_guards(s_, stop=lp) if p]
        okg = bool(st) and all(("matching_comps" in x) or x.startswith("not df.at") or ("df.at" in x) for x in g)
        ctx.check(okg, "R16s", fi, st[0] if st else lp, "each pair is written when its source compartment belongs to the matrix", "the cell of a transition is written only under %s: transitions are filtered by something else than the population type of their source compartment" % g, stmt_text="transitions-cell")
    rd = repo.func("framework", "ProjectFramework._process_transitions")
    stores = [c for c in ast.walk(rd.node) if isinstance(c, ast.Call) and isinstance(c.func, ast.Attribute) and c.func.attr == "append" and ".transitions[" in ast.unparse(c.func.value)]
    ctx.check(len(stores) >= 1, "R16s", rd, enclosing_stmt(stores[0]) if stores else rd.node, "the reader stores every name of a cell (parameter or '>') in self.transitions", "_process_transitions no longer appends the (from, to) pair to `self.transitions[<name>]`", stmt_text="transitions-read")


def pop_matrix_rows_rule(ctx, repo, rule):
    ctx.rule(rule, "the tables of an Interactions / Transfers sheet do not overlap: TimeDependentConnections._write_pop_matrix writes one row per element of the collection whose loop index offsets the *row* of the heading it writes, and returns the next free row as start_row + 1 + len(<that same collection>) + 1; with another collection the next table is written over the last rows of the matrix whenever there are more source than target populations, and the book the library just wrote is rejected by its own reader")
    fi = repo.func("excel", "TimeDependentConnections._write_pop_matrix")
    rows, cols = set(), set()
    for lp in own_nodes(fi.node):
        if isinstance(lp, ast.For) and isinstance(lp.iter, ast.Call) and ast.unparse(lp.iter.func) == "enumerate" and isinstance(lp.target, ast.Tuple):
            i = ast.unparse(lp.target.elts[0])
            coll = ast.unparse(lp.iter.args[0])
            for c in ast.walk(lp):
                if isinstance(c, ast.Call) and isinstance(c.func, ast.Attribute) and c.func.attr.startswith("write") and len(c.args) >= 2:
                    if i in {x.id for x in ast.walk(c.args[0]) if isinstance(x, ast.Name)}:
                        rows.add(coll)
                    if i in {x.id for x in ast.walk(c.args[1]) if isinstance(x, ast.Name)}:
                        cols.add(coll)
    ctx.require(len(rows) == 1 and len(cols) == 1, "%s: row / column heading loops of _write_pop_matrix not recognised (rows %s, columns %s)" % (rule, sorted(rows), sorted(cols)))
    rowc = next(iter(rows))
    nr = [s_ for s_ in own_nodes(fi.node) if isinstance(s_, ast.Assign) and astq.is_name(s_.targets[0], "next_row")]
    rets = [r for r in own_nodes(fi.node) if isinstance(r, ast.Return) and r.value is not None]
    expr = nr[-1].value if nr else (rets[0].value.elts[0] if rets and isinstance(rets[0].value, ast.Tuple) else None)
    ok = expr is not None
    if ok:
        lens = [ast.unparse(c.args[0]) for c in ast.walk(expr) if isinstance(c, ast.Call) and ast.unparse(c.func) == "len" and c.args]
        ok = lens == [rowc]
        if ok:
            from ..core import algebra as A

            try:
                ok = A.poly(expr) == A.poly(A.parse("start_row + 1 + len(%s) + 1" % rowc))
            except A.NotPolynomial:
                ok = False
    ctx.check(ok, rule, fi, nr[-1] if nr else fi.node, "next free row = start_row + 1 + len(%s) + 1 (rows are %s)" % (rowc, rowc), "`%s` does not advance by the number of rows written (one per element of `%s`, whose index offsets the row of the headings) plus the header and one blank row: the following table overlaps the matrix, or floats away from it" % (norm(nr[-1])[:80] if nr else "next_row", rowc), stmt_text="pop-matrix-next-row")


def r16ab(ctx, repo):
    from ..core import boolx as B
    from ..core.cfg import branch_guards

    ctx.rule("R16ab", "every transfer and interaction on the sheet is read: ProjectData._read_transfers / _read_interpops walk the tables three at a time from the first one (`range(0, len(tables), 3)`), build each connection from exactly its own three tables (`tables[i : i + 3]`) with the kind that matches the sheet ('transfer' / 'interaction'), refuse a name they have already seen, and append every other connection to self.transfers / self.interpops - siblings that differ only in the kind and the destination list")
    shapes_ = []
    for q, kind, dest in (("ProjectData._read_transfers", "transfer", "transfers"), ("ProjectData._read_interpops", "interaction", "interpops")):
        fi = repo.func("data", q)
        me = fi.params[0]
        loops = [l for l in own_nodes(fi.node) if isinstance(l, ast.For) and isinstance(l.iter, ast.Call) and ast.unparse(l.iter.func) == "range"]
        ok = len(loops) == 1 and [ast.unparse(a) for a in loops[0].iter.args] == ["0", "len(tables)", "3"] and isinstance(loops[0].target, ast.Name)
        ctx.check(ok, "R16ab", fi, loops[0] if loops else fi.node, "tables walked three at a time from the first", "%s does not iterate `range(0, len(tables), 3)`: the first connection is skipped, or tables of neighbouring connections are mixed" % q, stmt_text="walk")
        if not ok:
            continue
        lp, i = loops[0], loops[0].target.id
        mk = [c for c in ast.walk(lp) if isinstance(c, ast.Call) and ast.unparse(c.func) == "TimeDependentConnections.from_tables"]
        okm = len(mk) == 1 and len(mk[0].args) >= 2 and isinstance(mk[0].args[0], ast.Subscript) and ast.unparse(mk[0].args[0].value) == "tables" and isinstance(mk[0].args[0].slice, ast.Slice) and ast.unparse(mk[0].args[0].slice.lower) == i and _alg_same(mk[0].args[0].slice.upper, "%s + 3" % i) and isinstance(mk[0].args[1], ast.Constant) and mk[0].args[1].value == kind
        ctx.check(okm, "R16ab", fi, enclosing_stmt(mk[0]) if mk else lp, "connection built from tables[i : i + 3] as a '%s'" % kind, "%s does not build each connection with `TimeDependentConnections.from_tables(tables[%s : %s + 3], '%s')`" % (q, i, i, kind), stmt_text="build")
        var = enclosing_stmt(mk[0]).targets[0].id if mk and isinstance(enclosing_stmt(mk[0]), ast.Assign) else None
        ap = [c for c in ast.walk(lp) if isinstance(c, ast.Call) and ast.unparse(c.func) == "%s.%s.append" % (me, dest)]
        oka = len(ap) == 1 and var is not None and ast.unparse(ap[0].args[0]) == var and not branch_guards(enclosing_stmt(ap[0]), stop=lp)
        ctx.check(oka, "R16ab", fi, enclosing_stmt(ap[0]) if ap else lp, "every connection appended to self.%s" % dest, "%s does not append every connection it reads to `self.%s`" % (q, dest), stmt_text="append")
        rs = [r for r in ast.walk(lp) if isinstance(r, ast.Raise)]
        okd = len(rs) == 1 and var is not None and B.equivalent(B.cond(branch_guards(rs[0], stop=lp)), B.parse_cond("%s.code_name in names" % var)) and any(isinstance(c, ast.Call) and ast.unparse(c.func) == "names.add" and ast.unparse(c.args[0]) == "%s.code_name" % var and not branch_guards(enclosing_stmt(c), stop=lp) for c in ast.walk(lp))
        ctx.check(okd, "R16ab", fi, rs[0] if rs else lp, "a repeated name is refused", "%s does not refuse a connection whose code name was already read (and remember every name it reads)" % q, stmt_text="duplicate")
        init = [s_ for s_ in fi.node.body if isinstance(s_, ast.Assign) and ast.unparse(s_.targets[0]) == "%s.%s" % (me, dest) and isinstance(s_.value, (ast.List, ast.Call))]
        ctx.check(len(init) == 1 and init[0].lineno < lp.lineno, "R16ab", fi, init[0] if init else fi.node, "self.%s starts empty" % dest, "%s does not start from an empty `self.%s`: reading a sheet twice (or after editing) keeps the old connections" % (q, dest), stmt_text="init")


def _alg_same(node, text):
    from ..core import algebra as A

    try:
        return node is not None and A.poly(node) == A.poly(A.parse(text))
    except A.NotPolynomial:
        return False
