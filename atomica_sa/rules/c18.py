"""C18 - input files are accepted, or rejected with the dedicated error (DESIGN 4, C18)."""
import ast
import re
import string

from ..core.loader import AnalysisError, own_nodes, norm, enclosing_stmt, ancestors
from ..core import astq
from ..core.cfg import ExcHierarchy, guards_of, branch_guards
from ..core.types import is_inst, BUILTIN_CTORS
from ..core.dataflow import assigned_value
from . import common as K
from .c08 import engines

EXPLANATION = (
    "R18a: error construction in the loaders is well formed - %-format and str.format arity matches, `%` is applied to the string and not to the raise call's first argument, "
    "and every attribute read on a value whose type is definitely a builtin container / a repo class exists on that type. R18b (call graph + handlers): the explicit raise and assert "
    "sites that can escape each loader entry point (not inside a try whose handler catches and converts them, anywhere along the call chain) raise the loader's dedicated error class. "
    "R18c: no validation branch is dead because it compares a loop variable over a literal list with a string outside that list. R18d: the cycle check of the framework sees every parameter -> parameter dependency: the edge is added whatever the population types of the two parameters are, the acyclicity test runs after all parameters were scanned and raises InvalidFramework. Totality over all malformed files "
    "(implicit exceptions raised inside pandas/openpyxl) and runnability of accepted frameworks are not decided."
)

LOADER_MODULES = ["framework", "data", "excel", "programs", "parameters", "cascade"]


def run(ctx):
    repo = ctx.repo
    T, cg, E = engines(repo)
    ctx.each(r18a, ctx, repo, T)
    ctx.each(r18b, ctx, repo, T, cg)
    ctx.each(r18c, ctx, repo)
    ctx.each(r18d, ctx, repo)
    ctx.each(r18e, ctx, repo)
    ctx.each(r18f, ctx, repo)
    from . import c20

    ctx.each(c20.r20i, ctx, repo)  # 'improperly nested cascades' are among the documented rules a loader must refuse
    from . import c16

    ctx.each(r18h, ctx, repo)
    ctx.each(c16.pop_matrix_rows_rule, ctx, repo, "R18g")  # the blank databook the library writes for an accepted framework reads back: the tables of a connection sheet do not overlap


# ---------------------------------------------------------------------------------------------- R18a
_PCT = re.compile(r"%(?:\((\w+)\))?[#0\- +]*(\*|\d+)?(?:\.(\*|\d+))?[hlL]?([diouxXeEfFgGcrsa%])")


def pct_fields(s):
    """(number of positional fields, uses mapping keys?)"""
    n = 0
    mapping = False
    for m in _PCT.finditer(s):
        if m.group(4) == "%":
            continue
        if m.group(1):
            mapping = True
            continue
        n += 1 + (1 if m.group(2) == "*" else 0) + (1 if m.group(3) == "*" else 0)
    return n, mapping


def format_fields(s):
    """Number of positional arguments a str.format template needs (None if it uses only names)."""
    auto = 0
    maxidx = -1
    named = False
    try:
        for lit, field, spec, conv in string.Formatter().parse(s):
            if field is None:
                continue
            head = re.split(r"[.\[]", field, 1)[0]
            if head == "":
                auto += 1
            elif head.isdigit():
                maxidx = max(maxidx, int(head))
            else:
                named = True
    except ValueError:
        return None
    return max(auto, maxidx + 1)


ODICT_EXTRA = {"sort", "sorted", "insert", "rename", "append", "index", "valind", "findkeys", "findbykey", "findbyval", "findvals", "filter", "filtervals", "make", "makefrom", "map", "fromeach", "toeach", "enumkeys", "enumvals", "enumvalues", "enumitems", "reversed", "disp", "export", "isnested", "getnested", "setnested", "iternested", "popitem", "reverse", "copy"}
BUILTIN_ATTRS = {
    "dict": set(dir(dict)),
    "odict": set(dir(dict)) | ODICT_EXTRA,
    "list": set(dir(list)),
    "str": set(dir(str)),
    "set": set(dir(set)),
    "float": set(dir(float)),
    "int": set(dir(int)),
    "bool": set(dir(bool)),
}


def _ctor_kind(v):
    if isinstance(v, ast.Dict) or isinstance(v, ast.DictComp):
        return "dict"
    if isinstance(v, (ast.List, ast.ListComp)):
        return "list"
    if isinstance(v, (ast.Set, ast.SetComp)):
        return "set"
    if isinstance(v, ast.JoinedStr) or (isinstance(v, ast.Constant) and isinstance(v.value, str)):
        return "str"
    if isinstance(v, ast.Call):
        fn = ast.unparse(v.func)
        k = {"dict": "dict", "list": "list", "set": "set", "sc.odict": "odict", "odict": "odict", "str": "str"}.get(fn)
        return k
    return None


def definite_kind(repo, T, fi, name_node, stmt, rd_cache):
    """Builtin kind of a Name at a statement when every reaching definition constructs that kind; else the flow-insensitive table type."""
    t = T.type_at(name_node, fi, stmt)
    if t is not None:
        return t
    if fi.fq not in rd_cache:
        rd_cache[fi.fq] = K.rdefs(repo, fi)
    rd = rd_cache[fi.fq]
    ds = rd.reaching_at_stmt(stmt, name_node.id)
    if not ds or None in ds:
        return None
    kinds = set()
    for d in ds:
        st = rd.def_stmt(d)
        v = assigned_value(st, name_node.id) if st is not None else None
        kinds.add(_ctor_kind(v) if v is not None else None)
    if len(kinds) == 1 and None not in kinds:
        return ("B", next(iter(kinds)))
    return None


def r18a(ctx, repo, T):
    ctx.rule("R18a", "well-formed error construction in the loader modules: %-format / str.format arity; % applied to the string, not to the call's first argument; attribute reads on values of definite builtin or repo-class type exist on that type")
    n_fmt = n_attr = 0
    rd_cache = {}
    for mname in LOADER_MODULES + ["model"]:
        report_as_note = mname == "model"
        for fi in repo.module(mname).all_functions():
            for node in own_nodes(fi.node):
                # ---- % formatting
                if isinstance(node, ast.BinOp) and isinstance(node.op, ast.Mod) and isinstance(node.left, ast.Constant) and isinstance(node.left.value, str):
                    need, mapping = pct_fields(node.left.value)
                    if mapping:
                        continue
                    n_fmt += 1
                    r = node.right
                    if isinstance(r, ast.Tuple):
                        have = len(r.elts) if not any(isinstance(e, ast.Starred) for e in r.elts) else None
                    elif isinstance(r, (ast.Name, ast.Attribute, ast.Subscript, ast.Call)) and need != 1:
                        have = None  # a tuple-valued expression: cannot tell
                    else:
                        have = 1
                    par0 = getattr(node, "_parent", None)
                    if have is None and isinstance(par0, ast.Call) and par0.args and par0.args[0] is node and len(par0.args) == need and not isinstance(r, ast.Call):
                        have = 1  # '...%s...%s' % a, b  inside a call: the comma separates call arguments, so only `a` is formatted
                    if have is not None and have != need:
                        par = getattr(node, "_parent", None)
                        extra = ""
                        if isinstance(par, ast.Call) and par.args and par.args[0] is node and len(par.args) > 1:
                            extra = " (the remaining values were passed as extra arguments to `%s(...)` instead: the `%%` binds tighter than the comma)" % ast.unparse(par.func)
                        msg = "format string needs %d value(s) but %d supplied%s: building this message raises TypeError instead of reporting the problem in the file" % (need, have, extra)
                        if report_as_note:
                            ctx.note("R18a", "%s:%d %s: %s" % (fi.module.relpath, node.lineno, fi.qualname, msg))
                        else:
                            ctx.fail("R18a", fi, enclosing_stmt(node), msg)
                # ---- str.format
                if isinstance(node, ast.Call) and isinstance(node.func, ast.Attribute) and node.func.attr == "format":
                    base = node.func.value
                    if isinstance(base, ast.Constant) and isinstance(base.value, str):
                        need = format_fields(base.value)
                        if need is not None and not any(isinstance(a, ast.Starred) for a in node.args):
                            n_fmt += 1
                            if len(node.args) < need:
                                ctx.fail("R18a", fi, enclosing_stmt(node), "str.format template needs %d positional value(s) but %d supplied: IndexError while building the message" % (need, len(node.args)))
                    elif isinstance(base, ast.Call) and isinstance(getattr(node, "_parent", None), ast.Raise):
                        msg = "`.format(...)` is applied to the exception object `%s(...)`, not to its message: AttributeError instead of the intended error" % ast.unparse(base.func)
                        if report_as_note:
                            ctx.note("R18a", "%s:%d %s: %s" % (fi.module.relpath, node.lineno, fi.qualname, msg))
                        else:
                            ctx.fail("R18a", fi, enclosing_stmt(node), msg)
                # ---- attribute reads on definitely-typed values
                if isinstance(node, ast.Attribute) and isinstance(node.ctx, ast.Load) and not report_as_note:
                    recv = node.value
                    stmt = enclosing_stmt(node)
                    if isinstance(recv, ast.Name):
                        t = definite_kind(repo, T, fi, recv, stmt, rd_cache)
                    else:
                        t = T.type_at(recv, fi, node)
                    if t is None:
                        continue
                    if t[0] == "B" and t[1] in BUILTIN_ATTRS:
                        n_attr += 1
                        if node.attr not in BUILTIN_ATTRS[t[1]]:
                            ctx.fail("R18a", fi, stmt, "`%s` reads attribute `%s` of a value that is definitely a %s here: AttributeError instead of the intended message / check" % (ast.unparse(node), node.attr, t[1]), stmt_text="%s on %s in %s" % (node.attr, t[1], norm(stmt)[:120]))
                    elif is_inst(t):
                        if isinstance(recv, ast.Name) and fi.cls is not None and fi.params and recv.id == fi.params[0]:
                            continue  # self.X definedness is R17b's rule
                        classes = T.classes_of(t)
                        if not classes or any(c.external_bases and not all(b in ("Exception", "object") for b in c.external_bases) for ci in classes for c in repo.mro(ci)):
                            continue
                        if any("__getattr__" in c.methods for ci in classes for c in repo.mro(ci)):
                            continue
                        n_attr += 1
                        ok = False
                        for ci in classes:
                            fam = repo.mro(ci) + repo.subclasses(ci, strict=True)
                            names = set()
                            for c in fam:
                                names |= set(c.methods) | set(c.setters) | c.class_attrs
                                for f in c.methods.values():
                                    me = K.self_name(f)
                                    for x in own_nodes(f.node):
                                        if isinstance(x, ast.Attribute) and isinstance(x.ctx, ast.Store) and astq.is_name(x.value, me):
                                            names.add(x.attr)
                                        if isinstance(x, ast.Call) and astq.is_name(x.func, "setattr"):
                                            names.add("*")
                                    if any("__dict__" in ast.unparse(s.targets[0]) for s in own_nodes(f.node) if isinstance(s, ast.Assign)):
                                        names.add("*")
                            if node.attr in names or "*" in names or node.attr.startswith("__"):
                                ok = True
                            else:
                                # stores from outside the class through a typed receiver
                                ok = _stored_elsewhere(repo, T, ci, node.attr)
                            if ok:
                                break
                        if not ok:
                            ctx.fail("R18a", fi, stmt, "`%s` reads attribute `%s`, which %s does not define: AttributeError instead of the intended message / check" % (ast.unparse(node), node.attr, "/".join(c.name for c in classes)), stmt_text="%s on %s in %s" % (node.attr, classes[0].name, norm(stmt)[:120]))
    ctx.require(n_fmt >= 150 and n_attr >= 300, "R18a: coverage shrank (format expressions %d, typed attribute reads %d)" % (n_fmt, n_attr))
    ctx.ok("R18a", "atomica/{%s}.py" % ",".join(LOADER_MODULES), "%d format expressions and %d typed attribute reads examined" % (n_fmt, n_attr))


_STORED_CACHE = {}


def _stored_elsewhere(repo, T, ci, attr):
    key = id(repo)
    if key not in _STORED_CACHE:
        _STORED_CACHE.clear()
        d = {}
        for f in repo.all_functions():
            for x in own_nodes(f.node):
                if isinstance(x, ast.Attribute) and isinstance(x.ctx, ast.Store):
                    t = T.type_at(x.value, f, x)
                    if is_inst(t):
                        for c in T.classes_of(t):
                            d.setdefault(c.fq, set()).add(x.attr)
                    elif t is None:
                        d.setdefault("?", set()).add(x.attr)
        _STORED_CACHE[key] = d
    d = _STORED_CACHE[key]
    fam = repo.mro(ci) + repo.subclasses(ci, strict=True)
    return any(attr in d.get(c.fq, set()) for c in fam) or attr in d.get("?", set())


# ---------------------------------------------------------------------------------------------- R18b
DEDICATED = {"InvalidFramework", "InvalidCascade", "InvalidDatabook", "InvalidProgramBook"}
ENTRY_POINTS = [
    # the loader's own class is expected; another loader's dedicated class (e.g. InvalidFramework surfacing while a databook is read
    # against a framework) is still "the library's dedicated invalid-input error", so it is accepted too
    ("framework", "ProjectFramework.__init__", DEDICATED),
    ("data", "ProjectData.from_spreadsheet", DEDICATED),
    ("data", "ProjectData.validate", DEDICATED),
    ("programs", "ProgramSet.from_spreadsheet", DEDICATED),
    ("programs", "ProgramSet.validate", DEDICATED),
]
# raises that guard an API precondition of the call (not file content); excluded by name with the reason
PRECONDITION_SITES = {
    ("programs", "ProgramSet._normalize_inputs"): "arguments of the call (supply a framework and data), not content of the file",
}
# escaping sites that cannot be reached from file content, confirmed by reading (function, statement prefix) -> reason
INFEASIBLE_SITES = {
    ("framework", "ProjectFramework.get_variable", "raise NotFoundError('Variable"): "every caller on the loader paths passes a name drawn from the framework's own tables (cross_pop_message after the name was found in comps/characs/pars; get_databook_units with a code name from the framework index)",
    ("data", "ProjectData.get_tdve_page", "raise NotFoundError('The quantity"): "called in validate() only for names already found in self.tdve, and every TDVE is registered on a page when it is read or defaulted",
    ("utils", "TimeSeries.insert", "assert len(t) == len(v)"): "validate() constructs TimeSeries(assumption=..., units=...) with no time points: t and v are both None",
    ("programs", "ProgramSet.__init__", "assert framework is not None"): "from_spreadsheet passes the framework/data that _normalize_inputs already resolved (arguments of the call, not file content)",
    ("programs", "ProgramSet.__init__", "assert data is not None"): "same as above",
}

# documented library raises that matter on the loader paths
LIBRARY_RAISES = {"ast.parse": "SyntaxError"}


def _is_type_precondition(test, fi):
    if isinstance(test, ast.BoolOp):
        return all(_is_type_precondition(v, fi) for v in test.values)
    if isinstance(test, ast.Call) and ast.unparse(test.func) in ("isinstance", "sc.isstring", "sc.isnumber", "callable") and test.args and isinstance(test.args[0], ast.Name) and test.args[0].id in fi.params:
        return True
    return False


def _raise_class(r):
    e = r.exc
    if e is None:
        return None
    if isinstance(e, ast.Call):
        e = e.func
    return ast.unparse(e).split(".")[-1]


class Escapes:
    def __init__(self, repo, cg):
        self.repo = repo
        self.cg = cg
        self.h = ExcHierarchy(repo)
        self.local = {}
        self.memo = {}

    def caught_by(self, node, cls):
        """Is an exception of class ``cls`` raised at ``node`` caught by an enclosing try in the same function?  Returns the handler or None."""
        child = node
        for a in ancestors(node):
            if isinstance(a, (ast.FunctionDef, ast.AsyncFunctionDef, ast.Lambda)):
                return None
            if isinstance(a, ast.Try) and any(child is s or _contains(s, child) for s in a.body):
                for h in a.handlers:
                    types = [] if h.type is None else ([ast.unparse(e) for e in h.type.elts] if isinstance(h.type, ast.Tuple) else [ast.unparse(h.type)])
                    c = self.h.catches(types, cls)
                    if c is True:
                        return h
            child = a
        return None

    def local_sites(self, fi):
        if fi.fq in self.local:
            return self.local[fi.fq]
        out = []
        for n in own_nodes(fi.node):
            if isinstance(n, ast.Raise):
                cls = _raise_class(n)
                if cls is None:
                    # bare re-raise inside a handler: re-raises what the handler caught
                    h = next((a for a in ancestors(n) if isinstance(a, ast.ExceptHandler)), None)
                    if h is not None and h.type is not None:
                        for t in (h.type.elts if isinstance(h.type, ast.Tuple) else [h.type]):
                            out.append((n, ast.unparse(t).split(".")[-1], "re-raise"))
                    continue
                if cls == "e" or cls.islower():
                    # `raise e` of a caught exception object
                    h = next((a for a in ancestors(n) if isinstance(a, ast.ExceptHandler)), None)
                    if h is not None and h.name == cls and h.type is not None:
                        for t in (h.type.elts if isinstance(h.type, ast.Tuple) else [h.type]):
                            out.append((n, ast.unparse(t).split(".")[-1], "re-raise"))
                    continue
                out.append((n, cls, "raise"))
            elif isinstance(n, ast.Assert):
                if _is_type_precondition(n.test, fi):
                    continue  # `assert isinstance(param, T)`: a precondition on the caller's argument types, not reachable from file content
                out.append((n, "AssertionError", "assert"))
            elif isinstance(n, ast.Call) and ast.unparse(n.func) in LIBRARY_RAISES:
                out.append((n, LIBRARY_RAISES[ast.unparse(n.func)], "library"))
        self.local[fi.fq] = out
        return out

    def escapes(self, fi, stack=()):
        """set of (site fq, lineno, class, kind, stmt text) that can leave ``fi``"""
        if fi.fq in self.memo:
            return self.memo[fi.fq]
        if fi.fq in stack:
            return set()
        res = set()
        for n, cls, kind in self.local_sites(fi):
            if self.caught_by(n, cls) is None:
                res.add((fi.fq, n.lineno, cls, kind, norm(enclosing_stmt(n) or n)[:140]))
        for call, targets in self.cg.sites.get(fi.fq, []):
            for callee, k in targets:
                if k not in ("direct", "method"):
                    continue
                for site in self.escapes(callee, stack + (fi.fq,)):
                    if self.caught_by(call, site[2]) is None:
                        res.add(site)
        # property getters / dunder edges
        for _, m, d in self.cg.g.out_edges(fi.fq, data=True):
            if d["kind"] in ("property",):
                callee = self.cg.byfq[m]
                for site in self.escapes(callee, stack + (fi.fq,)):
                    res.add(site)
        if not stack:
            self.memo[fi.fq] = res
        return res


def _contains(root, node):
    return any(x is node for x in ast.walk(root))


def r18b(ctx, repo, T, cg):
    ctx.rule("R18b", "only the dedicated error class escapes a loader: explicit raise / assert sites (and documented library raises) reachable from each entry point without an intervening converting handler")
    esc = Escapes(repo, cg)
    h = ExcHierarchy(repo)
    total = 0
    per_entry = {}
    infeasible_used = set()
    for m, q, allowed in ENTRY_POINTS:
        fi = repo.func(m, q)
        sites = esc.escapes(fi)
        good = bad = 0
        for sfq, line, cls, kind, txt in sorted(sites):
            total += 1
            sm, sq = sfq.split(":", 1)
            if (sm, sq) in PRECONDITION_SITES:
                continue
            inf = [why for (im, iq, pre), why in INFEASIBLE_SITES.items() if im == sm and iq == sq and txt.startswith(pre)]
            if inf:
                infeasible_used.add((sm, sq, txt[:40]))
                ctx.ok("R18b", cg.byfq[sfq], "non-dedicated raise not reachable from file content: %s" % inf[0][:120])
                continue
            anc = h.bases_of(cls) or [cls]
            if any(a in allowed for a in anc):
                good += 1
                continue
            bad += 1
            sfi = cg.byfq[sfq]
            node = next((n for n in own_nodes(sfi.node) if getattr(n, "lineno", None) == line and isinstance(n, (ast.Raise, ast.Assert, ast.Call))), sfi.node)
            ctx.fail("R18b", sfi, enclosing_stmt(node) or node, "%s can leave %s as %s (%s) instead of %s: an invalid file is reported with an internal / generic error class" % (txt[:90], q, cls, kind, "/".join(sorted(allowed))), stmt_text="%s escapes %s: %s" % (cls, q, txt))
        per_entry[q] = {"dedicated": good, "other": bad}
        if bad == 0:
            ctx.ok("R18b", fi, "%d escaping sites, all raise %s" % (good, "/".join(sorted(allowed))))
    ctx.extra["escaping_sites_per_entry"] = per_entry
    ctx.require(total >= 100, "R18b: fewer escaping sites (%d) than confirmed (> 100): call-graph resolution on the loader paths degraded" % total)


# ---------------------------------------------------------------------------------------------- R18c
def r18c(ctx, repo):
    ctx.rule("R18c", "no dead validation branch: a loop variable ranging over a literal list is never compared with a string constant outside that list")
    n = 0

    def literal_strs(e):
        return isinstance(e, (ast.List, ast.Tuple)) and e.elts and all(isinstance(x, ast.Constant) and isinstance(x.value, str) for x in e.elts)

    for fi in repo.all_functions():
        for l in own_nodes(fi.node):
            if not isinstance(l, ast.For):
                continue
            pairs = []
            if isinstance(l.target, ast.Name) and literal_strs(l.iter):
                pairs.append((l.target.id, l.iter))
            elif isinstance(l.iter, ast.Call) and astq.is_name(l.iter.func, "zip") and isinstance(l.target, ast.Tuple) and len(l.target.elts) == len(l.iter.args):
                for t, a in zip(l.target.elts, l.iter.args):
                    if isinstance(t, ast.Name) and literal_strs(a):
                        pairs.append((t.id, a))
            elif isinstance(l.iter, ast.Call) and astq.is_name(l.iter.func, "enumerate") and isinstance(l.target, ast.Tuple) and len(l.target.elts) == 2 and l.iter.args and literal_strs(l.iter.args[0]) and isinstance(l.target.elts[1], ast.Name):
                pairs.append((l.target.elts[1].id, l.iter.args[0]))
            for v, lit in pairs:
              vals = {e.value for e in lit.elts}
              # not reassigned in the body
              if any(isinstance(s, ast.Assign) and any(astq.is_name(t, v) for t in s.targets) for s in ast.walk(l)):
                continue
              for c in ast.walk(l):
                if isinstance(c, ast.Compare) and len(c.ops) == 1 and astq.is_name(c.left, v):
                    n += 1
                    r = c.comparators[0]
                    dead = None
                    if isinstance(c.ops[0], ast.Eq) and isinstance(r, ast.Constant) and isinstance(r.value, str) and r.value not in vals:
                        dead = "never true"
                    if isinstance(c.ops[0], ast.In) and isinstance(r, (ast.List, ast.Tuple, ast.Set)) and all(isinstance(e, ast.Constant) for e in r.elts) and not ({e.value for e in r.elts} & vals):
                        dead = "never true"
                    if dead:
                        ctx.fail("R18c", fi, enclosing_stmt(c), "`%s` is %s: `%s` ranges over %s, so the check under this condition is never performed" % (ast.unparse(c), dead, v, sorted(vals)))
                    else:
                        ctx.ok("R18c", fi, "`%s` can hold" % ast.unparse(c), c)
    ctx.require(n >= 3, "R18c: fewer comparisons of literal-list loop variables (%d) than confirmed (3)" % n)


def _edge_guard_ok(test):
    """A condition on the dependency edge may look at the dependency's name, the parameter's own name and the derivative flag - nothing else (population types, aggregation kind ...)."""
    names = {n.id for n in ast.walk(test) if isinstance(n, ast.Name)}
    if not names <= {"dep", "par_name", "self", "deps"}:
        return False
    for n in ast.walk(test):
        if isinstance(n, ast.Subscript) and isinstance(n.value, ast.Attribute) and n.value.attr in ("at", "loc") and isinstance(n.slice, ast.Tuple):
            col = n.slice.elts[-1]
            if not (isinstance(col, ast.Constant) and col.value == "is derivative"):
                return False
    return True


def r18d(ctx, repo):
    ctx.rule("R18d", "circular parameter dependencies are rejected: G.add_edge(dep, par) in _validate_parameters is conditional only on 'dep is a parameter', 'dep is not a derivative' and 'dep is not par itself'; the DAG test comes after the scan and raises InvalidFramework")
    fi = repo.func("framework", "ProjectFramework._validate_parameters")
    edges = [c for c in own_nodes(fi.node) if isinstance(c, ast.Call) and isinstance(c.func, ast.Attribute) and c.func.attr == "add_edge"]
    ctx.require(len(edges) >= 1, "R18d: dependency edge not found in _validate_parameters")
    loops = [l for l in own_nodes(fi.node) if isinstance(l, ast.For) and isinstance(l.target, ast.Name) and l.target.id == "dep"]
    ctx.require(len(loops) >= 1, "R18d: `for dep in deps` not found in _validate_parameters")
    for c in edges:
        loop = [l for l in loops if any(x is c for x in ast.walk(l))]
        conds = [(t, pol) for t, pol in guards_of(c, stop=loop[0] if loop else None)]
        bad = [(t, pol) for t, pol in conds if not _edge_guard_ok(t)]
        ctx.check(not bad, "R18d", fi, enclosing_stmt(c), "dependency edge added for every non-derivative parameter dependency", "the dependency edge is only added when `%s` is %s: a cycle through such a pair of parameters is never seen by the cycle check, the framework is accepted and fails later with an internal error" % (ast.unparse(bad[0][0])[:80] if bad else "", bad[0][1] if bad else ""))
        must = [t for t, pol in conds if pol and ast.unparse(t).endswith("in self.pars.index")]
        ctx.check(bool(must), "R18d", fi, enclosing_stmt(c), "edge added for parameter dependencies", "the dependency edge is not added under `dep in self.pars.index`", stmt_text="edge-under-pars-index")
    dag = [s_ for s_ in own_nodes(fi.node) if isinstance(s_, ast.If) and "is_directed_acyclic_graph" in ast.unparse(s_.test)]
    ok = bool(dag) and isinstance(dag[0].test, ast.UnaryOp) and isinstance(dag[0].test.op, ast.Not) and any(isinstance(r, ast.Raise) and r.exc is not None and "InvalidFramework" in ast.unparse(r.exc) for r in ast.walk(dag[0])) and all(dag[0].lineno > l.end_lineno for l in loops) and not K.enclosing_loops(dag[0]) and not [g for g in guards_of(dag[0])]
    ctx.check(bool(ok), "R18d", fi, dag[0] if dag else fi.node, "acyclicity tested unconditionally after the scan, refusal uses InvalidFramework", "the cycle test no longer runs unconditionally after all parameters were scanned, or does not raise InvalidFramework", stmt_text="dag-test")


WHOLE_STRING = {"strip", "lower", "casefold", "upper", "lstrip", "rstrip"}


def _whole_string_of(e, base):
    """True if ``e`` is ``base`` passed only through whole-string normalisers (no split, slice, index, startswith)."""
    while isinstance(e, ast.Call) and isinstance(e.func, ast.Attribute) and e.func.attr in WHOLE_STRING and not e.args:
        e = e.func.value
    return ast.unparse(e) == base


def r18e(ctx, repo):
    ctx.rule("R18e", "a unit mismatch between databook and framework is rejected, not repaired: ProjectData.from_spreadsheet replaces the units read from the sheet by the framework's only when the sheet gave none or gave exactly the bare unit type; the comparison looks at the whole entered string (strip / lower only), so 'Rate (per week)' is never relabelled 'Rate (per year)'")
    fi = repo.func("data", "ProjectData.from_spreadsheet")
    n = 0
    for s_ in own_nodes(fi.node):
        if not (isinstance(s_, ast.Assign) and len(s_.targets) == 1 and isinstance(s_.targets[0], ast.Attribute) and s_.targets[0].attr == "units"):
            continue
        base = ast.unparse(s_.targets[0])
        if "allowed_units" not in ast.unparse(s_.value) and "units" not in ast.unparse(s_.value):
            continue
        n += 1
        parent = getattr(s_, "_parent", None)
        if not (isinstance(parent, ast.If) and s_ in parent.body):
            ctx.fail("R18e", fi, s_, "`%s` overwrites the units read from the sheet unconditionally: a databook whose units contradict the framework is accepted and its numbers are used in the wrong units" % norm(s_))
            continue
        t = parent.test
        disj = t.values if isinstance(t, ast.BoolOp) and isinstance(t.op, ast.Or) else [t]
        bad = []
        for d in disj:
            dt = ast.unparse(d)
            if dt in ("not %s" % base, "%s is None" % base, "%s == ''" % base, "not %s.strip()" % base):
                continue
            if isinstance(d, ast.Compare) and len(d.ops) == 1 and isinstance(d.ops[0], ast.Eq):
                sides = [d.left, d.comparators[0]]
                mine = [x for x in sides if base in ast.unparse(x)]
                if len(mine) == 1 and _whole_string_of(mine[0], base):
                    continue
            bad.append(dt)
        ctx.check(not bad, "R18e", fi, s_, "units replaced only when absent or equal (as a whole string) to the bare unit type", "`%s` is executed when `%s`, which looks at only part of the units the user entered: a databook stating the same kind of unit on another timescale or denominator is silently relabelled with the framework's units instead of being rejected with InvalidDatabook" % (norm(s_)[:60], bad[0][:100] if bad else ""))
    ctx.require(n >= 1, "R18e: the unit migration in ProjectData.from_spreadsheet was not found")


VALIDATOR_MODULES = ["framework", "data", "programs", "cascade", "excel", "parameters"]
ASSERTING_VALIDATORS = {("data", "ProjectData._validate"): "InvalidDatabook (converted from AssertionError by ProjectData.validate)"}


def _words(t):
    """the words of a message template, independent of the formatting style (%s, {}, f-string holes, quotes)"""
    t = re.sub(r"%\([^)]*\)[sdfrg]|%[sdfrg]|\{[^}]*\}", " ", t)
    ws = re.findall(r"[A-Za-z][A-Za-z_]+", t)
    return " ".join(ws[:12])


def _first_text(e):
    for x in ast.walk(e):
        if isinstance(x, ast.JoinedStr):
            parts = [v.value for v in x.values if isinstance(v, ast.Constant) and isinstance(v.value, str)]
            t = _words(" ".join(parts))
            if len(t) >= 8:
                return t
        if isinstance(x, ast.Constant) and isinstance(x.value, str) and len(_words(x.value)) >= 8:
            return _words(x.value)
    return None


def _message_key(r):
    """A stable key for a raise site: the template text of its message (first string constant), resolved through a local `message = ...` of the same block."""
    t = _first_text(r)
    if t:
        return t
    names = [x.id for x in ast.walk(r.exc) if isinstance(x, ast.Name)] if r.exc is not None else []
    p_ = getattr(r, "_parent", None)
    for field in ("body", "orelse"):
        blk = getattr(p_, field, None)
        if isinstance(blk, list) and any(x is r for x in blk):
            for st in reversed(blk[: [k for k, x in enumerate(blk) if x is r][0]]):
                if isinstance(st, (ast.Assign, ast.AugAssign)):
                    tg = st.targets[0] if isinstance(st, ast.Assign) else st.target
                    if isinstance(tg, ast.Name) and tg.id in names:
                        t = _first_text(st.value)
                        if t:
                            return t
    return ast.unparse(r.exc)[:70] if r.exc is not None else "raise"


def _loop_sources(node):
    """dotted names / attribute chains that the iterables of the loops enclosing ``node`` are built from (the items the refusal is checked for)"""
    out = set()
    for a in ancestors(node):
        if isinstance(a, (ast.For,)):
            for x in ast.walk(a.iter):
                if isinstance(x, ast.Attribute):
                    t = ast.unparse(x)
                    # keep maximal data chains (df.index, self.comps.index), not the method objects hanging off them
                    if not isinstance(getattr(x, "_parent", None), ast.Call) or getattr(x, "_parent").func is not x:
                        out.add(t)
                elif isinstance(x, ast.Name) and not isinstance(getattr(x, "_parent", None), ast.Attribute) and not (isinstance(getattr(x, "_parent", None), ast.Call) and getattr(x, "_parent").func is x):
                    out.add(x.id)
    return sorted(out)


READER_PREFIXES = ("_read", "from_spreadsheet", "from_rows", "from_tables", "_parse", "cell_get", "validate_category", "_process_transitions", "_sanitize")


def _is_reader(fi):
    return fi.node.name.startswith(READER_PREFIXES)


def validation_sites(repo):
    """[{function, key, error, guards:[[test text, polarity], ...]}] for every raise of a dedicated invalid-input class in the loader modules"""
    from ..core.cfg import guards_of as _g

    out = []
    for m in VALIDATOR_MODULES:
        for fi in repo.module(m).all_functions():
            for r in own_nodes(fi.node):
                if isinstance(r, ast.Raise) and r.exc is not None and isinstance(r.exc, ast.Call) and ast.unparse(r.exc.func) in DEDICATED:
                    if any(isinstance(p_, ast.ExceptHandler) for p_ in ancestors(r)):
                        continue  # a wrap of another error, not a rule of its own
                    g = [[ast.unparse(t), bool(pol)] for t, pol in branch_guards(r)]
                    out.append({"function": "%s:%s" % (m, fi.qualname), "key": _message_key(r), "error": ast.unparse(r.exc.func), "guards": g, "loop_sources": _loop_sources(r)})
                elif _is_reader(fi) and isinstance(r, ast.Raise) and r.exc is not None and isinstance(r.exc, ast.Call) and ast.unparse(r.exc.func) not in DEDICATED:
                    # a refusal of a sheet reader raised as a plain exception: the entry points wrap it into the dedicated class (R18b), the *rule* is decided here
                    if any(isinstance(p_, ast.ExceptHandler) for p_ in ancestors(r)):
                        continue
                    g = [[ast.unparse(t), bool(pol)] for t, pol in branch_guards(r)]
                    out.append({"function": "%s:%s" % (m, fi.qualname), "key": _message_key(r), "error": ast.unparse(r.exc.func) + " (wrapped by the loader entry point)", "guards": g, "loop_sources": _loop_sources(r)})
                elif _is_reader(fi) and isinstance(r, ast.Assert) and (m, fi.qualname) not in ASSERTING_VALIDATORS:
                    g = [[ast.unparse(r.test), False]] + [[ast.unparse(t), bool(pol)] for t, pol in branch_guards(r)]
                    key = (_first_text(r.msg) if r.msg is not None else None) or _words(ast.unparse(r.test))
                    out.append({"function": "%s:%s" % (m, fi.qualname), "key": key, "error": "AssertionError (wrapped by the loader entry point)", "guards": g, "loop_sources": _loop_sources(r)})
                elif isinstance(r, ast.Assert) and (m, fi.qualname) in ASSERTING_VALIDATORS:
                    # an assertion of a validator whose AssertionError the caller converts into the dedicated error: refused when the test is false
                    g = [[ast.unparse(r.test), False]] + [[ast.unparse(t), bool(pol)] for t, pol in branch_guards(r)]
                    key = (_first_text(r.msg) if r.msg is not None else None) or _words(ast.unparse(r.test))
                    out.append({"function": "%s:%s" % (m, fi.qualname), "key": key, "error": ASSERTING_VALIDATORS[(m, fi.qualname)], "guards": g, "loop_sources": _loop_sources(r)})
    return out


def r18f(ctx, repo):
    import json
    import os

    from ..core import boolx as B

    ctx.rule("R18f", "the validation rules of the loaders are still there and still say the same thing: every refusal confirmed by reading (tables/c18_validation.json: function, message template, the if / elif / else conditions that lead to it) exists on the tree with an equivalent condition (truth table over the condition's atoms, so a rewrite that means the same passes); a refusal that disappeared, or whose condition changed, lets a file that breaks a documented rule through")
    table = json.load(open(os.path.join(os.path.dirname(__file__), "tables", "c18_validation.json")))
    now = validation_sites(repo)
    by = {}
    for e in now:
        by.setdefault((e["function"], e["key"]), []).append(e)
    anywhere = {}
    for e in now:
        anywhere.setdefault(e["key"], []).append(e)
    seen = {}
    n = 0

    def cond_of(guards):
        return B.cond([(ast.parse(t, mode="eval").body, pol) for t, pol in guards])

    for want in table:
        k = (want["function"], want["key"])
        idx = seen.get(k, 0)
        seen[k] = idx + 1
        cands = by.get(k) or anywhere.get(want["key"]) or []
        m, q = want["function"].split(":")
        try:
            fi = repo.func(m, q)
        except Exception:
            fi = "atomica/%s.py" % m
        n += 1
        if not cands:
            ctx.fail("R18f", fi, getattr(fi, "node", None), "the refusal `%s...` (%s) is gone from %s: input that breaks this rule is now accepted (or fails later with an internal error)" % (want["key"][:60], want["error"], want["function"]), stmt_text="rule-missing:%s#%d" % (want["key"][:50], idx))
            continue
        try:
            w = cond_of(want["guards"])
            ok = any(B.equivalent(cond_of(c["guards"]), w) for c in cands)
        except (ValueError, SyntaxError):
            ok = any(sorted(map(tuple, c["guards"])) == sorted(map(tuple, want["guards"])) for c in cands)
        if ok and want.get("loop_sources"):
            # ... and it is still checked for every item it was checked for: each data source that fed the enclosing loops still feeds them
            good = [c for c in cands if set(want["loop_sources"]) <= set(c.get("loop_sources", []))]
            if not good:
                cur = cands[min(idx, len(cands) - 1)]
                lost = sorted(set(want["loop_sources"]) - set(cur.get("loop_sources", [])))
                ctx.fail("R18f", fi, getattr(fi, "node", None), "the refusal `%s...` in %s is no longer checked for the items coming from %s (the loops around it iterated over %s on the reviewed tree, now over %s): those items are not validated any more" % (want["key"][:50], want["function"], lost, want["loop_sources"], cur.get("loop_sources", [])), stmt_text="refusal-domain:%s:%d" % (want["key"][:60], idx))
                continue
        if ok:
            ctx.ok("R18f", fi, "refusal `%s` under the confirmed condition" % want["key"][:50])
        else:
            cur = cands[min(idx, len(cands) - 1)]
            ctx.fail("R18f", fi, getattr(fi, "node", None), "the refusal `%s...` in %s is now reached under `%s`, confirmed condition was `%s`: files that break this rule in the cases no longer covered are accepted" % (want["key"][:50], want["function"], " and ".join(("" if p_ else "not ") + "(" + t[:60] + ")" for t, p_ in cur["guards"])[:300], " and ".join(("" if p_ else "not ") + "(" + t[:60] + ")" for t, p_ in want["guards"])[:300]), stmt_text="rule-changed:%s#%d" % (want["key"][:50], idx))
    extra = [e for e in now if (e["function"], e["key"]) not in {(w["function"], w["key"]) for w in table}]
    for e in extra[:20]:
        ctx.note("R18f", "refusal not in the confirmed table (new rule): %s `%s`" % (e["function"], e["key"][:60]))
    ctx.require(n >= 100, "R18f: the confirmed table shrank (%d entries)" % n)


def r18h(ctx, repo):
    ctx.rule("R18h", "every databook page a quantity is placed on exists in the blank databook: _validate_compartments, _validate_characteristics and _validate_parameters each register the pages used by *their own* table (`self.comps`, `self.characs`, `self.pars`) that are missing from the 'Databook Pages' sheet - three sibling blocks that differ only in the table; a block that looks at a sibling's table leaves the pages used only by its own quantities unregistered, the blank databook then lacks those tables, and the library rejects the databook it wrote itself")
    n = 0
    for q, table in (("ProjectFramework._validate_compartments", "comps"), ("ProjectFramework._validate_characteristics", "characs"), ("ProjectFramework._validate_parameters", "pars")):
        fi = repo.func("framework", q)
        me = fi.params[0]
        mp = [s_ for s_ in own_nodes(fi.node) if isinstance(s_, ast.Assign) and isinstance(s_.targets[0], ast.Name) and s_.targets[0].id == "missing_pages"]
        if len(mp) != 1:
            ctx.fail("R18h", fi, fi.node, "%s no longer computes the databook pages missing from the 'Databook Pages' sheet" % q, stmt_text="missing-pages:absent")
            continue
        n += 1
        used = {ast.unparse(x.value) for x in ast.walk(mp[0].value) if isinstance(x, ast.Subscript) and isinstance(x.slice, ast.Constant) and x.slice.value == "databook page"}
        ok = used == {"%s.%s" % (me, table)}
        reg = [s_ for s_ in own_nodes(fi.node) if isinstance(s_, ast.Assign) and "databook pages" in ast.unparse(s_.targets[0]) and any(isinstance(x, ast.Name) and x.id == "missing_pages" for x in ast.walk(s_.value))]
        ctx.check(ok and len(reg) == 1, "R18h", fi, mp[0], "%s registers the pages of self.%s" % (q.split(".")[1], table), "%s computes the missing databook pages from %s instead of `self.%s` (or no longer appends them to the 'Databook Pages' sheet): pages used only by its own quantities are never registered" % (q, sorted(used), table), stmt_text="missing-pages:%s" % table)
    ctx.require(n == 3, "R18h: the three sibling blocks were not all found (%d)" % n)
