"""C08 - simulation is deterministic, leaves its inputs untouched, survives copying (DESIGN 4, C08)."""
import ast

from ..core.loader import AnalysisError, own_nodes, norm, enclosing_stmt
from ..core import astq
from ..core.cfg import ENTRY, EXIT
from ..core.callgraph import CallGraph
from ..core.effects import Effects
from . import common as K
from . import flowalg

EXPLANATION = (
    "R08a: Model.__init__ keeps the program set, instructions and framework only as deep copies. R08b (effect summaries over the call graph): nothing reachable "
    "from run_model / Model.__init__ / Model.process / Result.__init__ definitely mutates an object rooted at the by-reference inputs (parset, settings) or at the "
    "raw progset/instructions/framework arguments. R08c: no function reachable from run_model writes module-level state, uses `global`, or calls a clock / RNG / uuid "
    "outside the listed metadata sites. R08d: no loop over a set feeds an ordered or accumulated numeric result (string hashing differs between processes). "
    "R08e: unlink and relink rewrite the same attribute sets class by class, and __getstate__/__deepcopy__ relink after copying. Bit-identity as such is not decided."
)

_SHARED = {}


def engines(repo):
    k = id(repo)
    if k not in _SHARED:
        _SHARED.clear()
        T = K.types(repo)
        cg = CallGraph(repo, T)
        _SHARED[k] = (T, cg, Effects(repo, T, cg))
    return _SHARED[k]


def run(ctx):
    repo = ctx.repo
    T, cg, E = engines(repo)
    ctx.extra["call_graph"] = cg.stats()
    ctx.each(r08a, ctx, repo)
    ctx.each(r08b, ctx, repo, cg, E)
    ctx.each(r08c, ctx, repo, cg)
    ctx.each(r08d, ctx, repo, cg, E)
    ctx.each(flowalg.process_prologue, ctx, repo, "R08f")
    ctx.each(flowalg.stateless_step_rule, ctx, repo, "R08g")
    ctx.each(r08e, ctx, repo)
    from . import shapes

    ctx.each(shapes.copy_hook_rule, ctx, repo, "R08h")
    ctx.each(r08i, ctx, repo)
    ctx.each(r08j, ctx, repo)
    from .c01 import r01b

    ctx.each(r01b, ctx, repo, T)  # links are registered on compartments only by Link.create: a copy that re-registers them elsewhere changes their order


COPY_CALLS = {"sc.dcp", "copy.deepcopy", "dcp", "deepcopy"}


def r08a(ctx, repo):
    ctx.rule("R08a", "Model.__init__: every use of the parameters progset, program_instructions, framework is the argument of a deep copy")
    fi = repo.func("model", "Model.__init__")
    n = 0
    for p in ("progset", "program_instructions", "framework"):
        ctx.require(p in fi.params, "R08a: Model.__init__ lost its parameter `%s`" % p)
        for node in own_nodes(fi.node):
            if isinstance(node, ast.Name) and node.id == p and isinstance(node.ctx, ast.Load):
                n += 1
                par = getattr(node, "_parent", None)
                good = isinstance(par, ast.Call) and ast.unparse(par.func) in COPY_CALLS and len(par.args) == 1 and par.args[0] is node
                ctx.check(good, "R08a", fi, enclosing_stmt(node), "`%s` only deep-copied" % p, "Model.__init__ uses the caller's `%s` without a deep copy (`%s`): running the model can change, or be changed through, the caller's object" % (p, norm(enclosing_stmt(node))))
    ctx.require(n >= 3, "R08a: fewer uses of the copied inputs (%d) than confirmed (3)" % n)
    tv = repo.func("project", "ProjectSettings.tvec")
    rets = [r for r in own_nodes(tv.node) if isinstance(r, ast.Return)]
    ctx.check(bool(rets) and all(isinstance(r.value, ast.Call) for r in rets), "R08a", tv, rets[0] if rets else tv.node, "settings.tvec returns a freshly built array", "ProjectSettings.tvec returns stored state: the model's time vector would alias the project settings")


def r08b(ctx, repo, cg, E):
    ctx.rule("R08b", "effect summaries: run_model, Model.__init__, Model.build, Model.process, Result.__init__, Population.initialize_compartments do not definitely mutate anything rooted at their input arguments (other than self)")
    roots = [("model", "run_model"), ("model", "Model.__init__"), ("model", "Model.build"), ("model", "Model.process"), ("results", "Result.__init__"), ("model", "Population.initialize_compartments"), ("model", "Population.__init__"), ("model", "Population.build"), ("parameters", "ParameterSet.apply_initialization"), ("parameters", "Parameter.interpolate"), ("utils", "TimeSeries.interpolate"), ("programs", "ProgramSet.get_alloc"), ("programs", "ProgramSet.get_capacities"), ("programs", "ProgramSet.get_prop_coverage"), ("programs", "ProgramSet.get_outcomes"), ("programs", "Program.get_capacity"), ("programs", "Program.get_prop_covered"), ("programs", "Program.get_spend"), ("programs", "Covout.get_outcome")]
    inputs = {"parset", "settings", "framework", "progset", "program_instructions", "instructions", "model"}
    readonly_self = {("parameters", "ParameterSet.apply_initialization"), ("parameters", "Parameter.interpolate"), ("utils", "TimeSeries.interpolate"), ("programs", "ProgramSet.get_alloc"), ("programs", "ProgramSet.get_capacities"), ("programs", "ProgramSet.get_prop_coverage"), ("programs", "ProgramSet.get_outcomes"), ("programs", "Program.get_capacity"), ("programs", "Program.get_prop_covered"), ("programs", "Program.get_spend"), ("programs", "Covout.get_outcome")}
    n = 0
    for m, q in roots:
        fi = repo.func(m, q)
        check_params = [p for p in fi.params if p in inputs]
        if (m, q) in readonly_self:
            check_params = [fi.params[0]] + check_params
        if (m, q) == ("results", "Result.__init__"):
            check_params = [p for p in check_params if p != "model"]  # the result owns the model it is given
        for p in check_params:
            n += 1
            muts = E.mutates(fi, p)
            if muts:
                chain = E.explain(fi, p)
                ctx.fail("R08b", fi, fi.node, "`%s` mutates its input `%s`: %s: a simulation must leave the objects passed in unchanged" % (q, p, "  ->  ".join(chain)), stmt_text="mutates:%s:%s" % (p, chain[-1].split(" ", 1)[-1] if chain else ""), extra={"path": chain})
            else:
                ctx.ok("R08b", fi, "no definite mutation of `%s` along any resolved call path" % p)
    ctx.require(n >= 20, "R08b: fewer (function, input) pairs checked (%d) than confirmed (20)" % n)
    # the analysis must actually see through the calls it relies on: positive controls
    ctrl = repo.func("calibration", "_update_parset")
    ctx.require(E.mutates(ctrl, "parset"), "R08b: positive control failed: calibration._update_parset is known to mutate `parset` but the effect analysis does not see it")
    ctrl2 = repo.func("utils", "TimeSeries.insert")
    ctx.require(E.mutates(ctrl2, ctrl2.params[0]), "R08b: positive control failed: TimeSeries.insert mutates self")
    # Initialization.apply must write only its `pop` argument
    ap = repo.func("parameters", "Initialization.apply")
    bad = [p for p in ap.params if p != "pop" and E.mutates(ap, p)]
    ctx.check(not bad, "R08b", ap, ap.node, "Initialization.apply writes only the population it is given", "Initialization.apply mutates %s: applying a saved state changes the parameter set or framework it was read from" % bad)


# clock / RNG / uuid calls reachable from run_model that are allowed, with the reason
ALLOWED_NONDET = {
    ("model:Link.__init__", "sc.uuid"): "random *name* for parameter-less links; never enters a numeric value",
    ("model:Model.__init__", "sc.now"): "creation timestamp metadata",
    ("results:Result.__init__", "sc.uuid"): "result uid metadata",
    ("utils:NamedItem.__init__", "sc.now"): "created/modified timestamps metadata",
}
NONDET_PREFIXES = ("np.random.", "random.", "time.", "sc.uuid", "uuid.", "sc.now", "datetime.", "os.urandom", "sc.tic", "sc.toc", "sc.getdate", "secrets.")


def r08c(ctx, repo, cg):
    ctx.rule("R08c", "no function reachable from run_model writes module-level state, declares `global`, or calls a clock/RNG/uuid outside the listed metadata sites")
    seen = cg.reachable([repo.func("model", "run_model")])
    ctx.require(len(seen) >= 80, "R08c: only %d functions reachable from run_model (confirmed: > 100); call-graph resolution degraded" % len(seen))
    # copying and pickling a model run unlink / relink on every object: the same rule applies to them (a copy must not read state other models left behind)
    copy_roots = [f for f in repo.module("model").all_functions() if f.qualname.split(".")[-1] in ("unlink", "relink", "__getstate__", "__setstate__", "__deepcopy__")]
    seen = set(seen) | set(cg.reachable(copy_roots))
    ctx.extra["reachable_from_run_model"] = len(seen)
    n = 0
    for fq in sorted(seen):
        fi = cg.byfq[fq]
        mod_globals = fi.module.globals_assigned | set(fi.module.imports)
        local_names = set(fi.params)
        f = fi.parent
        while f is not None:
            local_names |= set(f.params)
            f = f.parent
        for s, t, k, v in astq.stores(fi.node):
            if isinstance(t, ast.Name):
                local_names.add(t.id)
        for nd in own_nodes(fi.node):
            if isinstance(nd, (ast.For, ast.comprehension)):
                local_names |= {x.id for x in ast.walk(nd.target) if isinstance(x, ast.Name)}
        declared_global = set()
        for nd in own_nodes(fi.node):
            if isinstance(nd, (ast.Global, ast.Nonlocal)) and isinstance(nd, ast.Global):
                declared_global |= set(nd.names)
                ctx.fail("R08c", fi, nd, "`global %s` in a function reachable from run_model (%s): hidden state carried between simulations" % (", ".join(nd.names), " -> ".join(cg.path_to(seen, fq)[-3:])))
        for s, t, k, v in astq.stores(fi.node):
            n += 1
            root = t
            while isinstance(root, (ast.Attribute, ast.Subscript)):
                root = root.value
            if not isinstance(root, ast.Name):
                continue
            if isinstance(t, ast.Name):
                continue
            if root.id in fi.module.globals_assigned and (root.id not in local_names or root.id in declared_global):
                ctx.fail("R08c", fi, s, "module-level object `%s` is modified (`%s`) in a function reachable from run_model: one simulation can influence the next" % (root.id, norm(s)[:80]))
        for c in own_nodes(fi.node):
            if isinstance(c, ast.Call):
                fn = ast.unparse(c.func)
                if fn.startswith(NONDET_PREFIXES):
                    key = (fq, "sc.uuid" if fn.startswith("sc.uuid") else "sc.now" if fn.startswith("sc.now") else fn)
                    if key in ALLOWED_NONDET:
                        ctx.ok("R08c", fi, "allowed metadata call %s: %s" % (fn, ALLOWED_NONDET[key]), c)
                    else:
                        ctx.fail("R08c", fi, enclosing_stmt(c), "`%s` is called in a function reachable from run_model: the result of a simulation depends on a clock / random source" % fn)
    ctx.ok("R08c", "model:run_model", "%d stores in %d reachable functions examined, none touches module-level state" % (n, len(seen)))


def _set_typed(e, fi, depth=0):
    if isinstance(e, (ast.Set, ast.SetComp)):
        return True
    if isinstance(e, ast.Call):
        fn = ast.unparse(e.func)
        if fn in ("set", "frozenset"):
            return True
        if isinstance(e.func, ast.Attribute) and e.func.attr in ("union", "intersection", "difference", "symmetric_difference") and _set_typed(e.func.value, fi, depth + 1):
            return True
        return False
    if isinstance(e, ast.BinOp) and isinstance(e.op, (ast.BitOr, ast.BitAnd, ast.Sub, ast.BitXor)):
        return _set_typed(e.left, fi, depth + 1) or _set_typed(e.right, fi, depth + 1)
    if isinstance(e, ast.Name) and depth < 3:
        binds = [s.value for s in own_nodes(fi.node) if isinstance(s, ast.Assign) and any(astq.is_name(t, e.id) for t in s.targets)]
        return bool(binds) and all(_set_typed(b, fi, depth + 1) for b in binds)
    return False


def r08d(ctx, repo, cg, E=None):
    ctx.rule("R08d", "in functions reachable from run_model no `for` over a set appends to an ordered output or accumulates a number (only stores keyed by the loop variable itself are order-independent)")
    seen = cg.reachable([repo.func("model", "run_model")])
    n = 0
    for fq in sorted(seen):
        fi = cg.byfq[fq]
        for l in own_nodes(fi.node):
            if not isinstance(l, ast.For):
                continue
            if not _set_typed(l.iter, fi):
                continue
            n += 1
            lvs = {x.id for x in ast.walk(l.target) if isinstance(x, ast.Name)}
            bad = None
            for s in ast.walk(l):
                if isinstance(s, ast.AugAssign) and not isinstance(s.op, (ast.BitOr, ast.BitAnd)):
                    bad = s
                elif isinstance(s, ast.Call) and isinstance(s.func, ast.Attribute) and s.func.attr in ("append", "extend", "insert"):
                    bad = enclosing_stmt(s)
                elif isinstance(s, ast.Call) and E is not None and isinstance(getattr(s, "_parent", None), ast.Expr):
                    # a call made for its effect: a repo callee that mutates its receiver / an argument builds something in iteration order
                    for callee, kind in cg.resolve(fi, s):
                        if kind in ("direct", "method") and any(E.mutates(callee, p_) for p_ in callee.params):
                            bad = enclosing_stmt(s)
                elif isinstance(s, ast.Assign):
                    for t in s.targets:
                        if isinstance(t, ast.Subscript):
                            keyed = False
                            x = t
                            while isinstance(x, (ast.Subscript, ast.Attribute)):
                                if isinstance(x, ast.Subscript) and isinstance(x.slice, ast.Name) and x.slice.id in lvs:
                                    keyed = True
                                x = x.value
                            if not keyed:
                                bad = s
            if bad is not None:
                ctx.fail("R08d", fi, l, "loop over a set (`%s`) feeds an order-dependent result (`%s`): string hashing differs between interpreter processes, so a fresh process can give different output" % (ast.unparse(l.iter)[:60], norm(bad)[:70]))
            else:
                ctx.ok("R08d", fi, "set iteration only stores by key", l)
    # positive example: the detector recognises the construct it looks for
    probe = ast.parse("def f(xs):\n    total = 0.0\n    for x in set(xs):\n        total += x\n    return total\n").body[0]

    class _P:
        node = probe

    ctx.require(_set_typed(probe.body[1].iter, _P), "R08d: embedded positive example not recognised")
    ctx.ok("R08d", "model:run_model", "%d set-iterations examined in the reachable functions (embedded positive example fires)" % n)


UNLINK_CLASSES = ["Variable", "Compartment", "TimedCompartment", "Characteristic", "Parameter", "Link", "Population"]


def _written_attrs(fi):
    me = K.self_name(fi)
    out = set()
    for s, t, k, v in astq.stores(fi.node):
        base = astq.strip_subs(t)
        if isinstance(base, ast.Attribute) and astq.is_name(base.value, me) and k in ("assign", "aug"):
            out.add(base.attr)
    return out


def r08e(ctx, repo):
    ctx.rule("R08e", "per class, unlink() and relink() rewrite the same attribute set and both chain to the base class; Model.__getstate__/__deepcopy__ unlink before copying and relink after")
    for cname in UNLINK_CLASSES:
        ci = repo.cls("model", cname)
        ctx.require("unlink" in ci.methods and "relink" in ci.methods, "R08e: %s lost unlink/relink" % cname)
        u, r = ci.methods["unlink"], ci.methods["relink"]
        au, ar = _written_attrs(u), _written_attrs(r)
        ctx.check(au == ar, "R08e", r, r.node, "%s: unlink and relink both rewrite %s" % (cname, sorted(au)), "%s.unlink rewrites %s but relink restores %s: after a deep copy / pickle round trip %s still hold ids instead of objects (or stale objects)" % (cname, sorted(au), sorted(ar), sorted(au ^ ar)))
        # chaining to the base
        if ci.bases:
            for fi, nm in ((u, "unlink"), (r, "relink")):
                chained = any(isinstance(c, ast.Call) and isinstance(c.func, ast.Attribute) and c.func.attr == nm and (ast.unparse(c.func.value) in [b.name for b in ci.bases] or ast.unparse(c.func.value) == "super()") for c in own_nodes(fi.node))
                ctx.check(chained, "R08e", fi, fi.node, "%s.%s chains to its base class" % (cname, nm), "%s.%s does not call the base class's %s: inherited references are not converted" % (cname, nm, nm))
    for q in ("Model.__getstate__", "Model.__deepcopy__"):
        fi = repo.func("model", q)
        me = K.self_name(fi)
        cfg = K.cfg(repo, fi)
        un = [s for s in own_nodes(fi.node) if isinstance(s, ast.Expr) and ast.unparse(s.value) == "%s.unlink()" % me]
        re_ = [s for s in own_nodes(fi.node) if isinstance(s, ast.Expr) and ast.unparse(s.value) == "%s.relink()" % me]
        cp = [s for s in own_nodes(fi.node) if isinstance(s, ast.Assign) and "%s.__dict__" % me in ast.unparse(s.value) and any(ast.unparse(c.func) in COPY_CALLS for c in ast.walk(s.value) if isinstance(c, ast.Call))]
        ctx.require(cp, "R08e: %s: deep copy of self.__dict__ not found" % q)
        ids = lambda ss: [i for s in ss for i in cfg.ids(s)]
        ctx.check(bool(un) and not cfg.path_exists([ENTRY], ids(cp), avoid_ids=ids(un)), "R08e", fi, cp[0], "unlink precedes the copy", "%s copies the model before unlinking it" % q)
        ctx.check(bool(re_) and not cfg.path_exists(ids(cp), [EXIT], avoid_ids=ids(re_)), "R08e", fi, cp[0], "the original is relinked after the copy", "%s leaves the original model unlinked after copying it: the model that was copied can no longer be run" % q)
    dc = repo.func("model", "Model.__deepcopy__")
    new_relink = [s for s in own_nodes(dc.node) if isinstance(s, ast.Expr) and isinstance(s.value, ast.Call) and isinstance(s.value.func, ast.Attribute) and s.value.func.attr == "relink" and not astq.is_name(s.value.func.value, K.self_name(dc))]
    ctx.check(bool(new_relink), "R08e", dc, dc.node, "the copy is relinked", "Model.__deepcopy__ returns an unlinked copy")
    ss = repo.func("model", "Model.__setstate__")
    ctx.check(any(isinstance(c, ast.Call) and isinstance(c.func, ast.Attribute) and c.func.attr == "relink" for c in own_nodes(ss.node)), "R08e", ss, ss.node, "unpickled model is relinked", "Model.__setstate__ does not relink the unpickled model")


def thorough(ctx):
    from . import sweeps

    T, cg, E = engines(ctx.repo)
    sweeps.effect_overview(ctx, ctx.repo, E)
    sweeps.pyflakes_crossref(ctx, ctx.repo)


# fields whose relink condition is not spelled with the field itself: field -> the condition under which relink must restore it
RELINK_WHEN = {("Parameter", "_fcn"): "self.fcn_str"}


def r08i(ctx, repo):
    from ..core import boolx as B
    from ..core.cfg import branch_guards

    ctx.rule("R08i", "unlink / relink are mirror images (every copy, pickle and optimisation evaluation goes through them): each field that a class's unlink() replaces by ids (or drops) is restored by its relink(), under an equivalent condition when both test the field itself; the base class's unlink() and relink() are both called; the parsed function of a Parameter is re-created exactly when the parameter has a function string - a field that stays unlinked makes the copy compute something else than the original (NaN for a function that is silently skipped)")
    n = 0
    for ci in repo.module("model").classes.values():
        u, r = ci.methods.get("unlink"), ci.methods.get("relink")
        if u is None or r is None or ci.name == "Model":
            continue
        n += 1

        def stores(fi):
            me = fi.params[0]
            out = {}
            for st in own_nodes(fi.node):
                if isinstance(st, ast.Assign):
                    for t in st.targets:
                        base = t
                        while isinstance(base, ast.Subscript):
                            base = base.value
                        if isinstance(base, ast.Attribute) and isinstance(base.value, ast.Name) and base.value.id == me:
                            out.setdefault(base.attr, []).append(st)
            return out

        us, rs = stores(u), stores(r)
        me_u, me_r = u.params[0], r.params[0]
        for f, sts in sorted(us.items()):
            if f in ("is_linked",):
                continue
            if ci.name == "Population" and all(isinstance(st.value, ast.Constant) and st.value.value is None for st in sts):
                # lookup tables dropped by Population.unlink are rebuilt by relink from the restored lists
                ok = f in rs
                ctx.check(ok, "R08i", r, rs[f][0] if ok else r.node, "%s.relink rebuilds `%s`" % (ci.name, f), "%s.unlink drops `%s` but relink never rebuilds it" % (ci.name, f), stmt_text="relink:%s" % f)
                continue
            if f not in rs:
                ctx.fail("R08i", r, r.node, "%s.unlink replaces `%s` (`%s`) but %s.relink never restores it: after a copy or pickle round trip the field holds ids instead of objects" % (ci.name, f, norm(sts[0])[:60], ci.name), stmt_text="relink:%s" % f)
                continue
            want = RELINK_WHEN.get((ci.name, f))
            gr = B.cond([(t, p) for st in rs[f][:1] for t, p in branch_guards(st, stop=r.node)])
            if want is not None:
                ok = B.equivalent(gr, B.parse_cond(want.replace("self", me_r)))
                ctx.check(ok, "R08i", r, rs[f][0], "%s.relink restores `%s` exactly when `%s`" % (ci.name, f, want), "%s.relink restores `%s` under `%s`, not exactly when `%s`: a %s for which the conditions differ keeps `%s` unset after every copy / pickle (its function is then skipped silently)" % (ci.name, f, " and ".join(("" if p else "not ") + ast.unparse(t) for st in rs[f][:1] for t, p in branch_guards(st, stop=r.node)) or "no condition", want, ci.name.lower(), f), stmt_text="relink:%s" % f)
                continue
            gu = B.cond([(t, p) for t, p in branch_guards(sts[0], stop=u.node)])
            if gu.atoms == gr.atoms or not gu.atoms or not gr.atoms:
                ok = B.equivalent(gu, gr) if gu.atoms == gr.atoms else (not gr.atoms)
                ctx.check(ok, "R08i", r, rs[f][0], "%s: `%s` restored under the condition it was unlinked under" % (ci.name, f), "%s.relink restores `%s` under a different condition than unlink replaced it: some objects keep ids instead of references" % (ci.name, f), stmt_text="relink:%s" % f)
            else:
                ctx.ok("R08i", r, "%s: `%s` restored (conditions over different atoms, not compared)" % (ci.name, f), rs[f][0])
        # base calls
        ub = [c for c in ast.walk(u.node) if isinstance(c, ast.Call) and isinstance(c.func, ast.Attribute) and c.func.attr == "unlink" and isinstance(c.func.value, ast.Name) and c.func.value.id[:1].isupper()]
        rb = [c for c in ast.walk(r.node) if isinstance(c, ast.Call) and isinstance(c.func, ast.Attribute) and c.func.attr == "relink" and isinstance(c.func.value, ast.Name) and c.func.value.id[:1].isupper()]
        ctx.check(sorted(ast.unparse(c.func.value) for c in ub) == sorted(ast.unparse(c.func.value) for c in rb) and not any(branch_guards(enclosing_stmt(c), stop=r.node) for c in rb), "R08i", r, enclosing_stmt(rb[0]) if rb else r.node, "%s: base unlink and relink both called, unconditionally" % ci.name, "%s.unlink calls %s.unlink but relink calls %s.relink (or only conditionally): the base class's references are not restored" % (ci.name, [ast.unparse(c.func.value) for c in ub], [ast.unparse(c.func.value) for c in rb]), stmt_text="relink-base")
    ctx.require(n >= 6, "R08i: expected >= 6 unlink/relink pairs in model.py, found %d" % n)
    # unlink / relink rebind fields, they never change a list in place: other objects hold the same list (a parameter's dependency on `comp:` flows is the
    # compartment's own outlinks list), so clearing or appending inside unlink / relink silently edits what those objects see
    MUT = {"clear", "append", "extend", "insert", "remove", "pop", "sort", "reverse", "update", "setdefault"}
    for ci in repo.module("model").classes.values():
        for name in ("unlink", "relink"):
            fi = ci.methods.get(name)
            if fi is None or ci.name == "Model":
                continue
            for c in own_nodes(fi.node):
                if isinstance(c, ast.Call) and isinstance(c.func, ast.Attribute) and c.func.attr in MUT and isinstance(c.func.value, ast.Attribute):
                    root = c.func.value
                    while isinstance(root, (ast.Attribute, ast.Subscript)):
                        root = root.value
                    if isinstance(root, ast.Name) and root.id == fi.params[0]:
                        ctx.fail("R08i", fi, enclosing_stmt(c), "%s.%s changes `%s` in place (`%s`): every other holder of that list (a dependent parameter's `deps`, a population's lookup) sees the change, and the order / content after a copy differs from the original" % (ci.name, name, ast.unparse(c.func.value), norm(enclosing_stmt(c))[:60]), stmt_text="inplace:%s" % ast.unparse(c.func.value))


def r08j(ctx, repo):
    ctx.rule("R08j", "a result in memory and the same result after pickling / saving report the same numbers: Model.process ends by dropping the characteristics' integration-time storage (`charac._vals = None` for every characteristic of every population, unconditionally), so that every later read - in memory, in a copy, after a load - goes through the one on-demand computation; and Model.__getstate__ only unlinks, deep-copies the __dict__ and relinks: it does not edit the state it hands to pickle")
    pr = repo.func("model", "Model.process")
    me = pr.params[0]
    drops = [s_ for s_ in ast.walk(pr.node) if isinstance(s_, ast.Assign) and isinstance(s_.targets[0], ast.Attribute) and s_.targets[0].attr == "_vals" and isinstance(s_.value, ast.Constant) and s_.value.value is None]
    ok = len(drops) == 1
    if ok:
        loops = [a for a in _anc(drops[0]) if isinstance(a, ast.For)]
        its = sorted(ast.unparse(l.iter) for l in loops)
        from ..core.cfg import branch_guards

        ok = len(loops) == 2 and its[0].endswith(".characs") and its[1] == "%s.pops" % me and not branch_guards(drops[0], stop=pr.node) and any(loops[-1] is b for b in pr.node.body)
    ctx.check(ok, "R08j", pr, drops[0] if drops else pr.node, "process() ends by dropping the integration-time characteristic storage", "Model.process does not (unconditionally, for every characteristic of every population) set `charac._vals = None` after the run: an in-memory result then reads the values stored during integration while a pickled / loaded one recomputes them on demand, and the two computations differ (tolerance clamp, denominators)", stmt_text="drop-charac-storage")
    gs = repo.func("model", "Model.__getstate__")
    d = [s_ for s_ in gs.node.body if not (isinstance(s_, ast.Expr) and isinstance(s_.value, ast.Constant))]
    shape = [ast.unparse(s_)[:40] for s_ in d]
    okg = len(d) == 4 and ast.unparse(d[0]).endswith(".unlink()") and isinstance(d[1], ast.Assign) and ast.unparse(d[1].value) in ("sc.dcp(%s.__dict__)" % gs.params[0], "copy.deepcopy(%s.__dict__)" % gs.params[0]) and ast.unparse(d[2]).endswith(".relink()") and isinstance(d[3], ast.Return) and ast.unparse(d[3].value) == ast.unparse(d[1].targets[0])
    ctx.check(okg, "R08j", gs, d[0] if d else gs.node, "__getstate__ = unlink, deep copy of __dict__, relink, return", "Model.__getstate__ does more than unlink / deep-copy / relink (%s): the pickled state is edited, so a saved result is not the result that was in memory" % shape, stmt_text="getstate-shape")


def _anc(n):
    p = getattr(n, "_parent", None)
    while p is not None:
        yield p
        p = getattr(p, "_parent", None)
