"""C07 - initial state matches the databook or the run is refused; characteristic sums stay consistent (DESIGN 4, C07)."""
import ast

from ..core.loader import AnalysisError, own_nodes, norm, enclosing_stmt
from ..core import astq
from ..core.cfg import guards_of, ENTRY, EXIT, EXC
from ..core.dataflow import assigned_value
from . import common as K
from . import flowalg

EXPLANATION = (
    "R07a: in Population.initialize_compartments the insertion of the solved compartment sizes is dominated by three refusal guards - global residual, negative "
    "solution, per-quantity mismatch - each compared with the one tolerance setting and each raising BadInitialization; no other exception class is raised there. "
    "R07b: a saved initialisation short-circuits the solve. R07d: Characteristic.vals (reported) and Characteristic.update (used during integration) sum exactly "
    "the includes, divide by the denominator only where it is positive, and use the same tolerance key for the 0/0 case. "
    "Soundness of the least-squares solve and the 1e-6 agreement with the databook are runtime quantities and are not decided."
)


def run(ctx):
    repo = ctx.repo
    ctx.each(r07a, ctx, repo)
    ctx.each(r07b, ctx, repo)
    ctx.each(r07d, ctx, repo)
    ctx.each(informational, ctx, repo)
    ctx.each(r07e, ctx, repo)
    ctx.each(r07g, ctx, repo)
    ctx.each(r07i, ctx, repo)
    ctx.each(r07j, ctx, repo)
    ctx.each(flowalg.share_rule, ctx, repo, "R07h")  # people placed in a junction by the databook are passed on in full by the initial flush
    ctx.each(flowalg.accumulator_rule, ctx, repo, "R07f", [("model", "Characteristic.update"), ("model", "Characteristic.vals")], 4, "the characteristic sums")
    # the solved initial size reaches a timed compartment through TimedCompartment.__setitem__ (and the flush through dest[0] +=): the rows must add up to the value
    from .c01 import r01g
    from .c04 import r04e

    ctx.each(r04e, ctx, repo)  # the initial flush uses proportions that have been evaluated at the first index
    from . import common as K_

    ctx.each(r01g, ctx, repo, K_.types(repo))


def _raised_class(r):
    e = r.exc
    if e is None:
        return None
    if isinstance(e, ast.Call):
        e = e.func
    return ast.unparse(e)


def _resolve_names(repo, fi, expr, depth=0):
    """Source text of expr with local names expanded one or two levels through their (unique) simple assignments."""
    txt = ast.unparse(expr)
    if depth >= 3:
        return txt
    for n in ast.walk(expr):
        if isinstance(n, ast.Name):
            defs = [s for s in own_nodes(fi.node) if isinstance(s, ast.Assign) and any(astq.is_name(t, n.id) for t in s.targets)]
            for d in defs:
                txt += " <- " + _resolve_names(repo, fi, d.value, depth + 1) if not isinstance(d.value, ast.Constant) else ""
    return txt


def r07a(ctx, repo):
    ctx.rule("R07a", "initialize_compartments: residual, negativity and per-quantity mismatch guards (same tolerance key) each raise BadInitialization and dominate the insertion of compartment sizes; no other class is raised")
    fi = repo.func("model", "Population.initialize_compartments")
    cfg = K.cfg(repo, fi)
    # solution vector: name bound from an expression containing np.linalg.lstsq
    sol = [s for s in own_nodes(fi.node) if isinstance(s, ast.Assign) and "lstsq" in ast.unparse(s.value) and isinstance(s.targets[0], ast.Name)]
    ctx.require(len(sol) == 1, "R07a: least-squares solve not found in initialize_compartments")
    X = sol[0].targets[0].id
    # insertion: stores c[0] = f(X) in a loop after the solve
    ins = [s for s, t, k, v in astq.stores(fi.node) if k == "assign" and isinstance(t, ast.Subscript) and isinstance(t.value, ast.Name) and isinstance(t.slice, ast.Constant) and t.slice.value == 0 and X in {n.id for n in ast.walk(v) if isinstance(n, ast.Name)}]
    ctx.require(ins, "R07a: insertion of the solved sizes (`c[0] = ... x[i]`) not found")
    raises = [r for r in own_nodes(fi.node) if isinstance(r, ast.Raise) and r.lineno > sol[0].lineno]
    for r in raises:
        cls = _raised_class(r)
        ctx.check(cls == "BadInitialization", "R07a", fi, r, "refusal uses the dedicated error", "initialize_compartments raises `%s` instead of BadInitialization: calibration and sampling, which catch BadInitialization to reject the proposal, would crash or accept it" % cls)
    # tolerance key agreement
    keys = {ast.unparse(n.slice) for n in own_nodes(fi.node) if isinstance(n, ast.Subscript) and astq.is_name(n.value, "model_settings")}
    ctx.check(len(keys) == 1, "R07a", fi, sol[0], "one tolerance setting used by all guards", "the refusal guards use different settings keys %s" % sorted(keys), )
    # classify guards
    cats = {"residual": None, "negativity": None, "mismatch": None}
    for r in raises:
        if _raised_class(r) != "BadInitialization":
            continue
        gs = [(t, pol) for t, pol in guards_of(r) if pol]
        if not gs:
            continue
        test = gs[0][0]
        full = _resolve_names(repo, fi, test)
        uses_tol = "model_settings[" in full
        if isinstance(test, ast.Name):
            # a flag: set True under a tolerance comparison of proposed vs requested
            sets = [s for s in own_nodes(fi.node) if isinstance(s, ast.Assign) and astq.is_name(s.targets[0], test.id) and isinstance(s.value, ast.Constant) and s.value.value is True]
            cond = " ".join(ast.unparse(t) for s in sets for t, pol in guards_of(s) if pol)
            if "model_settings[" in cond and "abs(" in cond and ">" in cond:
                cats["mismatch"] = _if_of(r)
            continue
        ttxt = ast.unparse(test)
        if not uses_tol:
            continue
        if X in {n.id for n in ast.walk(test) if isinstance(n, ast.Name)} and ("-model_settings" in ttxt or "< 0" in ttxt):
            cats["negativity"] = _if_of(r)
        elif isinstance(test, ast.Compare) and isinstance(test.ops[0], (ast.Gt, ast.GtE)) and "**" in full and "-" in full:
            cats["residual"] = _if_of(r)
    for name, g in cats.items():
        if g is None:
            ctx.fail("R07a", fi, sol[0], "no %s guard raising BadInitialization before the compartment sizes are inserted: a run can start from numbers that do not reproduce the databook" % name, stmt_text="guard:" + name)
            continue
        for s in ins:
            # the guard's test dominates the insertion (the raising branch never reaches it)
            dom = cfg.dominates(g, s)
            ctx.check(dom, "R07a", fi, g, "%s guard dominates the insertion" % name, "the compartment sizes can be inserted without passing the %s guard" % name)
    # every insertion clamps tiny negatives (within tolerance) to zero: value is max(0, .) - keeps C02 non-negativity at t0
    for s in ins:
        v = s.value
        ctx.check(isinstance(v, ast.Call) and ast.unparse(v.func) in ("max", "np.maximum") and any(isinstance(a, ast.Constant) and a.value in (0, 0.0) for a in v.args), "R07a", fi, s, "inserted size is max(0, solution)", "the inserted size `%s` is not clipped at 0: a solution within tolerance below zero starts the run with a negative compartment" % ast.unparse(v))


def _if_of(r):
    p = getattr(r, "_parent", None)
    while p is not None and not isinstance(p, ast.If):
        p = getattr(p, "_parent", None)
    return p


def r07b(ctx, repo):
    ctx.rule("R07b", "a saved initialisation is applied and returns before the characteristic system is solved")
    fi = repo.func("model", "Population.initialize_compartments")
    cfg = K.cfg(repo, fi)
    ap = [enclosing_stmt(c) for c in own_nodes(fi.node) if isinstance(c, ast.Call) and isinstance(c.func, ast.Attribute) and c.func.attr == "apply_initialization"]
    sol = [s for s in own_nodes(fi.node) if isinstance(s, ast.Assign) and "lstsq" in ast.unparse(s.value)]
    ctx.require(ap and sol, "R07b: apply_initialization call / solve not found")
    a = ap[0]
    guarded = any(pol and "initialization is not None" in ast.unparse(t) for t, pol in guards_of(a)) or any((not pol) and "initialization is None" in ast.unparse(t) for t, pol in guards_of(a))
    ctx.check(guarded, "R07b", fi, a, "saved state applied only when present", "apply_initialization is not guarded by `parset.initialization is not None`")
    ins = [s for s, t, k, v in astq.stores(fi.node) if k == "assign" and isinstance(t, ast.Subscript) and isinstance(t.slice, ast.Constant) and t.slice.value == 0 and isinstance(t.value, ast.Name)]
    after = cfg.path_exists(cfg.ids(a), [i for s in sol + ins for i in cfg.ids(s)])
    before = cfg.path_exists([i for s in sol for i in cfg.ids(s)], cfg.ids(a))
    ctx.check(not after and not before, "R07b", fi, a, "saved state short-circuits the solve", "the characteristic system is solved %s the saved initialisation is applied: the saved state does not win" % ("after" if after else "before"))
    # nothing decides the initial state before the saved state had its chance: the only exit in front of it is "this population has no compartments"
    from ..core import boolx as B

    me = K.self_name(fi)
    test_if = getattr(a, "_parent", None)
    early = [r for r in own_nodes(fi.node) if isinstance(r, ast.Return) and r.lineno < (test_if.lineno if test_if is not None else a.lineno)]
    for r in early:
        ok = B.equivalent(B.cond(guards_of(r, asserts=False)), B.parse_cond("not %s.comps" % me))
        ctx.check(ok, "R07b", fi, r, "the only exit in front of the saved state is 'no compartments'", "initialize_compartments can return under `%s` before a saved initialisation is looked at: a run restarted from a saved state then starts from something else (all compartments empty)" % " and ".join(("" if p_ else "not ") + ast.unparse(t)[:60] for t, p_ in guards_of(r, asserts=False)), stmt_text="early-return-before-saved-state")
    pre = [s_ for s_ in ins if s_.lineno < a.lineno and cfg.path_exists(cfg.ids(s_), cfg.ids(a)) is not None and s_.lineno < (test_if.lineno if test_if is not None else a.lineno)]
    ctx.check(not pre, "R07b", fi, pre[0] if pre else a, "no compartment is written before the saved state is considered", "`%s` sets an initial compartment size before the saved initialisation is considered" % (norm(pre[0]) if pre else ""), stmt_text="store-before-saved-state")


def r07d(ctx, repo):
    ctx.rule("R07d", "Characteristic.vals and Characteristic.update: sum exactly self.includes, divide by the denominator only where it is positive, same tolerance key for the zero-numerator case")
    sites = [repo.func("model", "Characteristic.vals"), repo.func("model", "Characteristic.update")]
    keysets = []
    for fi in sites:
        me = K.self_name(fi)
        loops = [l for l in own_nodes(fi.node) if isinstance(l, ast.For) and "includes" in ast.unparse(l.iter)]
        good = len(loops) == 1 and ast.unparse(loops[0].iter) == "%s.includes" % me
        if good:
            lv = loops[0].target.id if isinstance(loops[0].target, ast.Name) else None
            adds = [s for s in loops[0].body if isinstance(s, ast.AugAssign)]
            good = len(adds) == 1 and isinstance(adds[0].op, ast.Add) and len(loops[0].body) == 1 and isinstance(adds[0].value, (ast.Subscript, ast.Attribute)) and lv in ast.unparse(adds[0].value)
        ctx.check(good, "R07d", fi, loops[0] if loops else fi.node, "sums every member of self.includes once", "%s does not add every element of self.includes exactly once: the reported characteristic differs from the sum of its compartments" % fi.qualname)
        # divisions by the denominator are guarded by denom > 0
        divs = [s for s in own_nodes(fi.node) if isinstance(s, ast.AugAssign) and isinstance(s.op, ast.Div)]
        ctx.require(divs, "R07d: %s: division by the denominator not found" % fi.fq)
        for d in divs:
            dn = ast.unparse(astq.strip_subs(d.value))
            masked = isinstance(d.target, ast.Subscript) and ast.unparse(d.target.slice) == "%s > 0" % dn and isinstance(d.value, ast.Subscript) and ast.unparse(d.value.slice) == "%s > 0" % dn
            guarded = any(pol and ast.unparse(t) == "%s > 0" % dn for t, pol in guards_of(d))
            ctx.check(masked or guarded, "R07d", fi, d, "division only where the denominator is positive", "`%s` divides by the denominator where it may be zero or negative" % norm(d))
        keysets.append({ast.unparse(n.slice) for n in own_nodes(fi.node) if isinstance(n, ast.Subscript) and astq.is_name(n.value, "model_settings")})
        # the "numerator is zero" test looks at the numerator (people), never at the quotient: no division of the tested variable can precede it
        cfg = K.cfg(repo, fi)
        tests = [c for c in own_nodes(fi.node) if isinstance(c, ast.Compare) and any(isinstance(x, ast.Subscript) and astq.is_name(x.value, "model_settings") for x in ast.walk(c))]
        ctx.require(tests, "R07d: %s: comparison with the tolerance not found" % fi.fq)
        for c in tests:
            tested = ast.unparse(astq.strip_subs(c.left))
            st = enclosing_stmt(c)
            for d in divs:
                if ast.unparse(astq.strip_subs(d.target)) != tested:
                    continue
                reach = cfg.path_exists(cfg.ids(d), cfg.ids(st))
                ctx.check(not reach, "R07d", fi, st, "`%s` tests the numerator (no division of `%s` can precede it)" % (ast.unparse(c), tested), "`%s` can run after `%s`: the zero test is applied to the quotient, not to the number of people, so a characteristic whose numerator is at least the tolerance but whose ratio is below it is reported as exactly 0" % (ast.unparse(c), norm(d)))
    ctx.check(keysets[0] == keysets[1] and len(keysets[0]) == 1, "R07d", sites[1], sites[1].node, "both forms use the same tolerance key", "Characteristic.vals and .update use different tolerance settings %s / %s" % (sorted(keysets[0]), sorted(keysets[1])))
    ctx.note("R07d", "vector form zeroes any numerator below tolerance even over a positive denominator; scalar form only in the 0/0 case. Only the vector form is reported, so the difference is not alarmed.")


def informational(ctx, repo):
    """Callers treat BadInitialization as 'reject these parameters' (listed among the anchors; not a necessary condition of the statement)."""
    for m, q in (("calibration", "_calculate_objective"), ("project", "_run_sampled_sim")):
        fi = repo.func(m, q)
        hs = [h for h in own_nodes(fi.node) if isinstance(h, ast.ExceptHandler) and h.type is not None and "BadInitialization" in ast.unparse(h.type)]
        ctx.note("R07c", "%s:%s %s BadInitialization (%d handler)" % (m, q, "catches" if hs else "does NOT catch", len(hs)))


def r07e(ctx, repo):
    """Initial-size data are scaled by both calibration factors (the clause of C07 about 'times its calibration factors'; same rule as R06c, restricted to the initialisation)."""
    from . import c06

    ctx.rule("R07e", "every databook value read for initialisation (quantity and its denominator) is multiplied by the population y_factor and the meta_y_factor")
    fi = repo.func("model", "Population.initialize_compartments")
    n = 0
    for c in own_nodes(fi.node):
        if isinstance(c, ast.Call) and isinstance(c.func, ast.Attribute) and c.func.attr == "interpolate":
            recv = ast.unparse(c.func.value)
            top = c
            while True:
                p_ = getattr(top, "_parent", None)
                if isinstance(p_, ast.BinOp) and isinstance(p_.op, ast.Mult):
                    top = p_
                elif isinstance(p_, ast.Subscript) and p_.value is top:
                    top = p_
                else:
                    break
            facs = c06._mult_factors(top) if isinstance(top, ast.BinOp) else []
            n += 1
            ok = any(f.startswith("%s.y_factor[" % recv) for f in facs) and ("%s.meta_y_factor" % recv) in facs
            ctx.check(ok, "R07e", fi, enclosing_stmt(c), "`%s` scaled by y_factor and meta_y_factor" % ast.unparse(c)[:50], "the initialisation value `%s` is not multiplied by both calibration factors of `%s`: the initial state does not reproduce the calibrated databook quantity" % (ast.unparse(c)[:60], recv))
    ctx.require(n >= 2, "R07e: fewer interpolate() sites in initialize_compartments (%d) than confirmed (2)" % n)


def _expand_local(text, name, env):
    import re

    if name in env:
        return re.sub(r"\b%s\b" % name, ast.unparse(env[name]), text)
    return text


def r07g(ctx, repo):
    from ..core import algebra as A
    from ..core import boolx as B

    ctx.rule("R07g", "the initial linear system of Population.initialize_compartments: one row per databook quantity with setup weight > 0 of this population type; right-hand side = value at the start year x population factor x all-population factor (x the same product of the denominator for a fraction); row entries 1 for exactly the member compartments (the quantity's own column for a compartment); unknowns = all compartments except sources and sinks, indexed by one enumeration that is also used to write the solution back; residual = sum((A x - b)^2); per-row mismatch |A x - b| > tolerance; solution component i goes to compartment i as max(0, x_i)")
    fi = repo.func("model", "Population.initialize_compartments")
    me = K.self_name(fi)
    ps, fw, t0 = fi.params[1], fi.params[2], fi.params[3]

    def one(name):
        a = [s for s in own_nodes(fi.node) if isinstance(s, ast.Assign) and len(s.targets) == 1 and ast.unparse(s.targets[0]) == name]
        return a[0] if len(a) == 1 else None

    for nm, tab in (("characs_to_use", "characs"), ("comps_to_use", "comps")):
        a = one(nm)
        want = "%s.%s.index[(%s.%s['setup weight'] > 0) & (%s.%s['population type'] == %s.type)]" % (fw, tab, fw, tab, fw, tab, me)
        alt = "%s.%s.index[(%s.%s['population type'] == %s.type) & (%s.%s['setup weight'] > 0)]" % (fw, tab, fw, tab, me, fw, tab)
        ctx.check(a is not None and ast.unparse(a.value) in (want, alt), "R07g", fi, a if a is not None else fi.node, "%s = entries with setup weight > 0 of this population type" % nm, "`%s` does not select exactly the %s with setup weight > 0 and this population's type: a databook quantity meant for initialisation is ignored (or one of another type is used), so the initial state does not reproduce the databook" % (norm(a)[:90] if a is not None else nm, tab), stmt_text="select:%s" % nm)
    bo = one("b_objs")
    ok = bo is not None and ast.unparse(bo.value) == "[%s.charac_lookup[x] for x in characs_to_use] + [%s.comp_lookup[x] for x in comps_to_use]" % (me, me)
    ctx.check(ok, "R07g", fi, bo if bo is not None else fi.node, "rows = the selected characteristics and compartments", "b_objs is not the selected characteristics followed by the selected compartments", stmt_text="rows")
    cs = one("comps")
    ok = cs is not None and isinstance(cs.value, ast.ListComp) and ast.unparse(cs.value.generators[0].iter) == "%s.comps" % me and len(cs.value.generators[0].ifs) == 1 and B.equivalent(B.of(cs.value.generators[0].ifs[0]), B.parse_cond("not (isinstance(c, SourceCompartment) or isinstance(c, SinkCompartment))".replace("c,", ast.unparse(cs.value.generators[0].target) + ",")))
    ctx.check(ok, "R07g", fi, cs if cs is not None else fi.node, "unknowns = every compartment except sources and sinks", "the unknowns of the initial system are not all compartments except sources and sinks", stmt_text="unknowns")
    ci = one("comp_indices")
    ok = ci is not None and ast.unparse(ci.value) == "{c.name: i for i, c in enumerate(comps)}"
    ctx.check(ok, "R07g", fi, ci if ci is not None else fi.node, "column index = position in the list of unknowns", "comp_indices is not the position of each compartment in `comps`: the solution is written back to other compartments than the ones the rows referred to", stmt_text="columns")
    lp = [l for l in own_nodes(fi.node) if isinstance(l, ast.For) and ast.unparse(l.iter) == "enumerate(b_objs)" and isinstance(l.target, ast.Tuple)]
    ctx.require(len(lp) == 1, "R07g: the loop over enumerate(b_objs) was not found")
    i, obj = (ast.unparse(x) for x in lp[0].target.elts)
    env = A.single_assign_env(fi.node, own_nodes)
    bset = [s for s in ast.walk(lp[0]) if isinstance(s, ast.Assign) and ast.unparse(s.targets[0]) == "b[%s]" % i]
    want = "%s.pars[%s.name].interpolate(%s, pop_name=%s.name)[0] * %s.pars[%s.name].y_factor[%s.name] * %s.pars[%s.name].meta_y_factor" % (ps, obj, t0, me, ps, obj, me, ps, obj)
    ok = len(bset) == 1 and not guards_of(bset[0], stop=lp[0])
    if ok:
        try:
            ok = A.poly(A.parse(_expand_local(ast.unparse(bset[0].value), "par", env))) == A.poly(A.parse(want))
        except A.NotPolynomial:
            ok = False
    ctx.check(ok, "R07g", fi, bset[0] if bset else lp[0], "b[i] = databook value x population factor x all-population factor", "`%s` is not the databook value at the start year times y_factor[pop] times meta_y_factor" % (norm(bset[0])[:90] if bset else "b[i]"), stmt_text="rhs")
    bmul = [s for s in ast.walk(lp[0]) if isinstance(s, ast.AugAssign) and ast.unparse(s.target) == "b[%s]" % i]
    want = want.replace("%s.name" % obj, "%s.denominator.name" % obj)
    ok = len(bmul) == 1 and isinstance(bmul[0].op, ast.Mult) and B.equivalent(B.cond(guards_of(bmul[0], stop=lp[0])), B.parse_cond("isinstance(%s, Characteristic) and not (%s.denominator is None)" % (obj, obj)))
    if ok:
        try:
            ok = A.poly(A.parse(_expand_local(ast.unparse(bmul[0].value), "denom_par", env))) == A.poly(A.parse(want))
        except A.NotPolynomial:
            ok = False
    ctx.check(ok, "R07g", fi, bmul[0] if bmul else lp[0], "fractions are multiplied by their denominator's value and factors", "the right-hand side of a fraction is not multiplied (exactly when the characteristic has a denominator) by the denominator's databook value times its calibration factors", stmt_text="rhs-denominator")
    ones = [s for s in ast.walk(lp[0]) if isinstance(s, ast.Assign) and isinstance(s.targets[0], ast.Subscript) and ast.unparse(s.targets[0].value) == "A"]
    kinds = {}
    for s in ones:
        idx = ast.unparse(s.targets[0].slice)
        g = B.cond(guards_of(s, stop=lp[0]))
        inner = [l for l in K.enclosing_loops(s) if l is not lp[0] and any(x is l for x in ast.walk(lp[0]))]
        if inner and ast.unparse(inner[0].iter) == "%s.get_included_comps()" % obj and idx == "(%s, comp_indices[%s.name])" % (i, ast.unparse(inner[0].target)):
            kinds["charac"] = ast.unparse(s.value) in ("1.0", "1") and B.equivalent(g, B.parse_cond("isinstance(%s, Characteristic)" % obj))
        elif idx == "(%s, comp_indices[%s.name])" % (i, obj):
            kinds["comp"] = ast.unparse(s.value) in ("1.0", "1") and B.equivalent(g, B.parse_cond("not isinstance(%s, Characteristic)" % obj))
        else:
            kinds["other:" + idx] = False
    ctx.check(kinds == {"charac": True, "comp": True}, "R07g", fi, ones[0] if ones else lp[0], "row entries: 1 for each member compartment / the compartment's own column", "the rows of the initial system are not filled with 1 for exactly the member compartments of a characteristic (get_included_comps) or the own column of a compartment: %s" % kinds, stmt_text="matrix")
    x = one("x")
    ok = x is not None and ast.unparse(x.value).startswith("np.linalg.lstsq(A, b.ravel()") and "[0]" in ast.unparse(x.value)
    ctx.check(ok, "R07g", fi, x if x is not None else fi.node, "x = least-squares solution of A x = b", "x is not the least-squares solution of A x = b", stmt_text="solve")
    pr, rs = one("proposed"), one("residual")
    ok = pr is not None and ast.unparse(pr.value) in ("np.matmul(A, x)", "A @ x", "A.dot(x)") and rs is not None
    if ok:
        try:
            ok = isinstance(rs.value, ast.Call) and ast.unparse(rs.value.func) in ("np.sum", "sum") and A.poly(rs.value.args[0]) == A.poly(A.parse("(proposed - b) ** 2"))
        except A.NotPolynomial:
            ok = False
    ctx.check(ok, "R07g", fi, rs if rs is not None else fi.node, "residual = sum((A x - b)^2)", "the global residual is not sum((A x - b)**2)", stmt_text="residual")
    flag = [s for s in own_nodes(fi.node) if isinstance(s, ast.Assign) and ast.unparse(s.targets[0]) == "characteristic_tolerence_failed" and ast.unparse(s.value) == "True"]
    ok = len(flag) == 1
    if ok:
        g = guards_of(flag[0], stop=K.enclosing_loops(flag[0])[0] if K.enclosing_loops(flag[0]) else None)
        ok = len(g) == 1 and g[0][1] and isinstance(g[0][0], ast.Compare) and isinstance(g[0][0].ops[0], ast.Gt) and ast.unparse(g[0][0].comparators[0]) == "model_settings['tolerance']"
        if ok:
            try:
                j = ast.unparse(K.enclosing_loops(flag[0])[0].target)
                inner = g[0][0].left
                ok = isinstance(inner, ast.Call) and ast.unparse(inner.func) in ("abs", "np.abs") and (A.poly(inner.args[0]) == A.poly(A.parse("proposed[%s] - b[%s]" % (j, j))) or A.poly(inner.args[0]) == A.poly(A.parse("b[%s] - proposed[%s]" % (j, j))))
            except A.NotPolynomial:
                ok = False
    ctx.check(ok, "R07g", fi, flag[0] if flag else fi.node, "per-quantity mismatch: |A x - b|_i > tolerance", "the per-quantity mismatch flag is not set exactly when abs(proposed[i] - b[i]) > model_settings['tolerance']", stmt_text="mismatch")
    wb = [s for s in own_nodes(fi.node) if isinstance(s, ast.Assign) and isinstance(s.targets[0], ast.Subscript) and ast.unparse(s.targets[0].slice) == "0" and K.enclosing_loops(s) and ast.unparse(K.enclosing_loops(s)[0].iter) == "enumerate(comps)"]
    ok = len(wb) == 1
    if ok:
        l = K.enclosing_loops(wb[0])[0]
        j, c = (ast.unparse(e) for e in l.target.elts)
        ok = ast.unparse(wb[0].targets[0].value) == c and ast.unparse(wb[0].value) in ("max(0.0, x[%s])" % j, "max(0, x[%s])" % j, "max(x[%s], 0.0)" % j, "max(x[%s], 0)" % j) and not guards_of(wb[0], stop=l)
    ctx.check(ok, "R07g", fi, wb[0] if wb else fi.node, "compartment i starts at max(0, x_i)", "the solution is not written back as `c[0] = max(0.0, x[i])` for (i, c) in enumerate(comps): compartments receive another compartment's size", stmt_text="write-back")


def r07i(ctx, repo):
    ctx.rule("R07i", "the compartments a characteristic stands for are derived from its members when asked, not remembered: Characteristic.get_included_comps reads nothing of self but `includes`, walks every member, descends into member characteristics and collects the others - a flattened copy kept on the object would depend on the order in which characteristics were wired up (a characteristic listed before one of its members would silently miss that member's compartments in the initialisation matrix)")
    fi = repo.func("model", "Characteristic.get_included_comps")
    me = K.self_name(fi)
    reads = {n.attr for n in own_nodes(fi.node) if isinstance(n, ast.Attribute) and astq.is_name(n.value, me)}
    ok = reads <= {"includes", "get_included_comps"}
    ctx.check(ok, "R07i", fi, fi.node, "get_included_comps depends on self.includes only", "Characteristic.get_included_comps reads `self.%s`: the expansion is taken from state kept on the object instead of from the current members" % ", self.".join(sorted(reads - {"includes", "get_included_comps"})), stmt_text="reads")
    lp = [l for l in own_nodes(fi.node) if isinstance(l, ast.For) and ast.unparse(l.iter) == "%s.includes" % me]
    ok = len(lp) == 1 and isinstance(lp[0].target, ast.Name)
    if ok:
        v = lp[0].target.id
        rec = [c for c in ast.walk(lp[0]) if isinstance(c, ast.Call) and ast.unparse(c.func) == "%s.get_included_comps" % v]
        app = [c for c in ast.walk(lp[0]) if isinstance(c, ast.Call) and isinstance(c.func, ast.Attribute) and c.func.attr == "append" and c.args and ast.unparse(c.args[0]) == v]
        ok = len(rec) == 1 and len(app) == 1 and any(pol and ast.unparse(t) == "isinstance(%s, Characteristic)" % v for t, pol in guards_of(enclosing_stmt(rec[0]), stop=lp[0])) and any((not pol) and ast.unparse(t) == "isinstance(%s, Characteristic)" % v for t, pol in guards_of(enclosing_stmt(app[0]), stop=lp[0]))
    ctx.check(ok, "R07i", fi, lp[0] if lp else fi.node, "every member is expanded (characteristics recursively) or collected", "Characteristic.get_included_comps does not walk self.includes, descending into member characteristics and collecting compartments", stmt_text="walk")
    ai = repo.func("model", "Characteristic.add_include")
    me2 = K.self_name(ai)
    stores = [s for s, t, k, v in astq.stores(ai.node) if k in ("assign", "aug") and isinstance(astq.strip_subs(t), ast.Attribute) and astq.is_name(astq.strip_subs(t).value, me2)]
    muts = [c for c in own_nodes(ai.node) if isinstance(c, ast.Call) and isinstance(c.func, ast.Attribute) and c.func.attr in ("append", "extend", "insert", "add", "update") and ast.unparse(c.func.value).startswith(me2 + ".")]
    ok = not stores and len(muts) == 1 and ast.unparse(muts[0].func.value) == "%s.includes" % me2
    ctx.check(ok, "R07i", ai, ai.node, "add_include only records the member", "Characteristic.add_include maintains more than the list of members (%s): derived data kept at wiring time depend on the wiring order" % ", ".join([norm(s)[:40] for s in stores] + [ast.unparse(c)[:40] for c in muts[1:]]), stmt_text="add_include")


def r07j(ctx, repo):
    from ..core import boolx as B

    ctx.rule("R07j", "which quantities take part in the initialisation does not depend on how the framework spells it: for compartments and for characteristics, the default setup weight given when the sheet has no 'setup weight' column at all (`X['setup weight'] = (<condition>).astype(float)`) and the default given to blank cells when the column exists (`fill_ones = X['setup weight'].isna() & <condition>`) use the same condition - in the databook or has a default value (and, for compartments, neither source nor sink); a quantity that has a default value but gets weight 0 in one spelling drops its row from the initial linear system, which then no longer determines the compartments it pins")
    n = 0
    for fi in repo.module("framework").all_functions():
        whole, blank = [], []
        for s_ in own_nodes(fi.node):
            if isinstance(s_, ast.Assign) and isinstance(s_.targets[0], ast.Subscript) and isinstance(s_.targets[0].slice, ast.Constant) and s_.targets[0].slice.value == "setup weight" and isinstance(s_.value, ast.Call) and isinstance(s_.value.func, ast.Attribute) and s_.value.func.attr == "astype" and ast.unparse(s_.value.func.value) != ast.unparse(s_.targets[0]):
                whole.append((ast.unparse(s_.targets[0].value), s_.value.func.value, s_))
            if isinstance(s_, ast.Assign) and astq.is_name(s_.targets[0], "fill_ones") and isinstance(s_.value, ast.BinOp):
                blank.append((s_.value, s_))
        for frame, cond, st in whole:
            mine = [(c, b) for c, b in blank if frame in ast.unparse(c)]
            if len(mine) != 1:
                continue
            n += 1
            isna = "%s['setup weight'].isna()" % frame

            def as_cond(e):
                t = ast.unparse(e).replace("~", " not ").replace("|", " or ").replace("&", " and ").strip()
                return B.parse_cond(t)

            try:
                a = as_cond(cond)
                b = as_cond(mine[0][0])
                ok = B.equivalent(B.Cond(lambda env, a=a: a(env) and env[isna], a.atoms | {isna}), b)
            except (SyntaxError, ValueError, KeyError):
                ok = False
            ctx.check(ok, "R07j", fi, st, "%s: default setup weight is the same with and without the column" % frame, "the default setup weight of `%s` when the column is missing (`%s`) is not the condition used for blank cells when it exists (`%s`): whether a quantity with a default value constrains the initial state depends on whether the sheet has an (empty) 'setup weight' column" % (frame, ast.unparse(cond)[:110], ast.unparse(mine[0][0])[:130]), stmt_text="setup-weight-default:%s" % frame)
    ctx.require(n >= 2, "R07j: the two setup-weight defaults (compartments, characteristics) were not both found (%d)" % n)
