"""C06 - parameter values follow data x calibration -> function -> program -> limits (DESIGN 4, C06)."""
import ast

from ..core.loader import AnalysisError, own_nodes, norm, enclosing_stmt, ancestors
from ..core import astq, regions as R
from ..core.cfg import guards_of, ENTRY, EXIT
from . import common as K
from . import flowalg

EXPLANATION = (
    "Ordering and data-flow necessary conditions: R06a per parameter and step, function evaluation precedes the program overwrite, which precedes the population "
    "aggregation, and every path through the step's parameter loop passes constrain(); characteristics are updated before the parameter loop. "
    "R06b at build time the scale factor (meta x population y-factor) is set before any value is stored, databook values are interpolate() x scale factor, and "
    "constrain() follows. R06c every parameter-set interpolate() in model.py is multiplied by both calibration factors. R06d execution order is a topological sort "
    "with edges dependency -> dependent; the dynamic list is an order-preserving filter; post-compute pairs update() with constrain(). R06e the three "
    "implementations of the function-suspension window agree on all five order regions, and a parameter scenario partitions the time axis with one threshold. "
    "R06f: the program set is forwarded through the recursive dynamic-flag propagation, so a function parameter whose (indirect) dependency is overwritten by a program is re-evaluated every step. R06g: the interpolation contract of the databook series (sorted insertion, linear = np.interp with constant extrapolation, stepped = hold with constant extrapolation, assumption-only and single-point shortcuts, Parameter.interpolate uses the stored method, default linear). R06h: Parameter.constrain clips on both sides in its vector and per-step forms and limits are built from the framework's minimum / maximum. The numeric result of np.interp / np.clip themselves is trusted (numpy), not decided."
)


def run(ctx):
    repo = ctx.repo
    ctx.each(r06a, ctx, repo)
    ctx.each(r06b, ctx, repo)
    ctx.each(r06c, ctx, repo)
    ctx.each(r06d, ctx, repo)
    ctx.each(r06e, ctx, repo)
    ctx.each(r06f, ctx, repo)
    ctx.each(r06g, ctx, repo)
    ctx.each(r06h, ctx, repo)
    ctx.each(r06i, ctx, repo)
    ctx.each(r06k, ctx, repo)
    ctx.each(r06l, ctx, repo)
    ctx.each(r06m, ctx, repo)
    ctx.each(r06o, ctx, repo)
    ctx.each(r06n, ctx, repo)
    from . import c03 as _c03

    ctx.each(_c03.r03d, ctx, repo)  # an in-place operation on a view of the model's stored arrays changes what the next evaluation in the same step reads
    from . import c04

    ctx.each(c04.r04e, ctx, repo)  # parameters at the first index are functions of the post-flush sizes
    ctx.each(flowalg.accumulator_rule, ctx, repo, "R06j", [("model", "Parameter.update")], 4, "the dependency sums of a parameter function")


def _ids(cfg, stmts):
    return [i for s in stmts for i in cfg.ids(s)]


def _dyn_loop(fi):
    for l in own_nodes(fi.node):
        if isinstance(l, ast.For) and "_exec_order['dynamic_pars']" in ast.unparse(l.iter):
            return l
    raise AnalysisError("loop over _exec_order['dynamic_pars'] not found in %s" % fi.fq)


def stage_sets(fi, loop):
    """Classify the statements of one iteration of the dynamic-parameter loop into stages A (function), B (program), C (aggregation), D (constrain)."""
    A, B, Cc, Dd = [], [], [], []
    inside = [s for s in ast.walk(loop) if isinstance(s, ast.stmt) and s is not loop]
    for s in inside:
        if isinstance(s, ast.Expr) and isinstance(s.value, ast.Call) and isinstance(s.value.func, ast.Attribute):
            if s.value.func.attr == "update":
                A.append(s)
            elif s.value.func.attr == "constrain":
                Dd.append(s)
        if isinstance(s, (ast.Assign, ast.AugAssign)):
            gs = guards_of(s, stop=loop)
            gtxt = [(ast.unparse(t), pol) for t, pol in gs]
            tgt = s.targets[0] if isinstance(s, ast.Assign) else s.target
            is_par_store = isinstance(tgt, (ast.Subscript, ast.Attribute)) and not isinstance(astq.strip_subs(tgt), ast.Name) or (isinstance(tgt, ast.Subscript) and isinstance(tgt.value, ast.Name))
            if not is_par_store:
                continue
            if isinstance(tgt, ast.Subscript) and isinstance(tgt.value, ast.Name) and tgt.value.id in ("weights", "norm", "par_vals", "vals"):
                continue
            if any(pol and "do_program_overwrite" in t for t, pol in gtxt):
                B.append(s)
            elif any(pol and "pop_aggregation" in t and "[" not in t.split("pop_aggregation")[1][:1] for t, pol in gtxt):
                if isinstance(tgt, ast.Subscript) and isinstance(tgt.value, ast.Name) and any(isinstance(a, ast.For) for a in ancestors(s) if a is not loop):
                    Cc.append(s)
    return A, B, Cc, Dd


def r06a(ctx, repo):
    ctx.rule("R06a", "update_pars, per parameter name: function (par.update) before program stores before the aggregation store; every path through the closing per-parameter loop passes constrain(); characteristics updated before the parameter loop")
    fi = repo.func("model", "Model.update_pars")
    cfg = K.cfg(repo, fi)
    loop = _dyn_loop(fi)
    head = cfg.ids(loop)
    A, B, Cc, Dd = stage_sets(fi, loop)
    ctx.require(A, "R06a: function evaluation `par.update(ti)` not found in the dynamic-parameter loop")
    ctx.require(len(B) >= 3, "R06a: fewer program stores (%d) than confirmed (4) in update_pars" % len(B))
    ctx.require(Cc, "R06a: population-aggregation store not found in update_pars")
    if not Dd:
        ctx.fail("R06a", fi, loop, "no constrain() call in the dynamic-parameter loop: values from functions, programs and aggregations drive flows unclipped", stmt_text="constrain-missing")
        return
    for b in B:
        ctx.check(not cfg.path_exists(cfg.ids(b), _ids(cfg, A), avoid_ids=head), "R06a", fi, b, "program store after the function evaluation", "the program overwrite `%s` can be followed by the function evaluation in the same step: the function replaces the program value" % norm(b))
    for c in Cc:
        ctx.check(not cfg.path_exists(cfg.ids(c), _ids(cfg, A + B), avoid_ids=head), "R06a", fi, c, "aggregation store after function and program stages", "the aggregation store can be followed by the function or program stage in the same step")
    for d in Dd:
        ctx.check(not cfg.path_exists(cfg.ids(d), _ids(cfg, A + B + Cc), avoid_ids=head), "R06a", fi, d, "constrain is the last stage", "a value store can follow constrain() within the same step: the stored value is not clipped before it drives flows")
    # every path through the constrain loop body passes a constrain call, and that loop ranges over all parameters of the name
    dloops = {}
    for d in Dd:
        for a in ancestors(d):
            if isinstance(a, ast.For) and a is not loop:
                dloops[id(a)] = a
                break
    ctx.require(len(dloops) == 1, "R06a: constrain() calls are not inside one per-parameter loop (unrecognised shape)")
    dl = next(iter(dloops.values()))
    store_loops = set()
    for s in B + Cc:
        for a in ancestors(s):
            if isinstance(a, ast.For) and a is not loop:
                store_loops.add(ast.unparse(K.iter_base(a.iter)[0]))
                break
    ctx.check(ast.unparse(dl.iter) in store_loops, "R06a", fi, dl, "constrain loop ranges over the same parameters as the stores", "constrain() is applied to `%s`, not to the parameters that were just written (%s)" % (ast.unparse(dl.iter), sorted(store_loops)))
    dh = cfg.ids(dl)
    body_first = cfg.ids(dl.body[0])
    skip = any(dl.body[0] is d for d in Dd)
    leak = (not skip) and cfg.path_exists(body_first, dh, avoid_ids=_ids(cfg, Dd)) or (isinstance(dl.body[0], ast.If) and cfg.path_exists(body_first, dh, avoid_ids=_ids(cfg, Dd)))
    ctx.check(not leak, "R06a", fi, dl, "every parameter of the name is constrained on every path", "a parameter can leave the step without constrain(): a value outside the framework's limits drives flows and dependent parameters")
    # the constrain loop is reached from every stage on the way out of the iteration
    out_leak = cfg.path_exists(_ids(cfg, A + B + Cc), head, avoid_ids=dh)
    ctx.check(not out_leak, "R06a", fi, dl, "the iteration cannot end without reaching the constrain loop", "the parameter iteration can end without reaching the constrain loop")
    # characteristics first
    cl = [l for l in own_nodes(fi.node) if isinstance(l, ast.For) and "_exec_order['characs']" in ast.unparse(l.iter)]
    ctx.check(bool(cl) and not cfg.path_exists([ENTRY], head, avoid_ids=_ids(cfg, cl)), "R06a", fi, cl[0] if cl else loop, "dependent characteristics are updated before the parameter loop", "parameters can be evaluated before the characteristics they depend on are updated for this step")


def r06b(ctx, repo):
    ctx.rule("R06b", "Model.build initialisation: scale_factor := meta_y_factor (* y_factor[pop]) before any value store; databook values stored as interpolate(...) * scale_factor or via par.update(); constrain() follows on every path")
    fi = repo.func("model", "Model.build")
    cfg = K.cfg(repo, fi)
    outer = [l for l in own_nodes(fi.node) if isinstance(l, ast.For) and "_exec_order['all_pars']" in ast.unparse(l.iter)]
    ctx.require(len(outer) == 1, "R06b: loop over _exec_order['all_pars'] not found in Model.build")
    inner = [l for l in outer[0].body if isinstance(l, ast.For)]
    ctx.require(len(inner) == 1 and isinstance(inner[0].target, ast.Name), "R06b: per-population parameter loop not found in Model.build")
    l = inner[0]
    pv = l.target.id
    head = cfg.ids(l)
    S1 = [s for s in ast.walk(l) if isinstance(s, ast.Assign) and ast.unparse(s.targets[0]) == "%s.scale_factor" % pv]
    S2 = [s for s in ast.walk(l) if isinstance(s, ast.AugAssign) and ast.unparse(s.target) == "%s.scale_factor" % pv and isinstance(s.op, ast.Mult)]
    V = [s for s in ast.walk(l) if isinstance(s, ast.Assign) and ast.unparse(s.targets[0]) in ("%s.vals" % pv, "%s[:]" % pv, "%s.vals[:]" % pv)]
    U = [s for s in ast.walk(l) if isinstance(s, ast.Expr) and isinstance(s.value, ast.Call) and ast.unparse(s.value.func) == "%s.update" % pv]
    Dd = [s for s in ast.walk(l) if isinstance(s, ast.Expr) and isinstance(s.value, ast.Call) and ast.unparse(s.value.func) == "%s.constrain" % pv]
    ctx.require(V and U, "R06b: value store / precompute call not found in the initialisation loop")
    ok1 = bool(S1) and all("meta_y_factor" in ast.unparse(s.value) for s in S1)
    ctx.check(ok1, "R06b", fi, S1[0] if S1 else l, "scale factor starts from the all-population calibration factor", "par.scale_factor is not initialised from meta_y_factor")
    ok2 = bool(S2) and all("y_factor[" in ast.unparse(s.value) for s in S2)
    ctx.check(ok2, "R06b", fi, S2[0] if S2 else l, "scale factor multiplied by the population's calibration factor", "par.scale_factor is not multiplied by the population's y_factor")
    for v in V + U:
        ctx.check(bool(S1) and not cfg.path_exists(head, cfg.ids(v), avoid_ids=_ids(cfg, S1)) and not cfg.path_exists(cfg.ids(v), _ids(cfg, S1 + S2), avoid_ids=head), "R06b", fi, v, "scale factor is final before the value is stored", "`%s` can execute before the scale factor is complete" % norm(v))
    for v in V:
        val = ast.unparse(v.value)
        ctx.check(".interpolate(" in val and "%s.scale_factor" % pv in _mult_factors(v.value), "R06b", fi, v, "stored value = interpolate(...) * scale_factor", "databook values are stored as `%s`: not the interpolated series times the calibration scale factor" % val)
    # the function takes precedence over databook values whenever one is defined and can be precomputed; the suspension window of a
    # parameter scenario is applied *inside* Parameter.update (R06e), so the choice of branch must not depend on it
    for u in U:
        conj = [ast.unparse(c_) for t_, pol in guards_of(u, stop=l) if pol for c_ in R.split_conjuncts(t_)]
        extra = [c_ for c_ in conj if c_ not in ("%s.fcn_str" % pv, "%s._precompute" % pv, "%s.fcn_str is not None" % pv)]
        ctx.check(("%s._precompute" % pv) in conj and not extra, "R06b", fi, u, "precomputable functions are always evaluated at build time", "the build-time function evaluation is additionally conditional on `%s`: where that fails the databook/scenario series is used for *all* times, including those outside the suspension window, so a scenario changes values before its first overwrite year" % " and ".join(extra or ["?"]))
    for v in V:
        # databook / scenario values are inserted whenever the parameter set has them: a function that a scenario suspends for part of the run
        # (Parameter.update leaves those years untouched) needs them inside the window, precomputed or not
        gs = [(ast.unparse(c_), pol) for t_, pol in guards_of(v, stop=l) for c_ in (R.split_conjuncts(t_) if pol else [t_])]
        extra = [(t_, pol) for t_, pol in gs if not (pol and ".has_values(" in t_)]
        ctx.check(not extra, "R06b", fi, v, "databook values are inserted whenever the parameter set has values", "the databook/scenario values are only inserted when `%s` is %s: for a precomputed function parameter that a scenario overwrites, the years inside the suspension window are written by nobody and stay NaN (and so does everything that depends on them)" % (extra[0][0][:60] if extra else "", extra[0][1] if extra else ""), stmt_text="databook-values-guard")
        for u in U:
            ctx.check(not cfg.path_exists(cfg.ids(u), cfg.ids(v), avoid_ids=head), "R06b", fi, v, "databook values never overwrite the precomputed function", "`%s` can run after `%s` in the same iteration: databook values overwrite the values of the function" % (norm(v)[:50], norm(u)), stmt_text="databook-after-function")
    if not Dd:
        ctx.fail("R06b", fi, l, "initial parameter values are never constrained to the framework limits", stmt_text="build-constrain-missing")
    else:
        for v in V + U:
            ctx.check(not cfg.path_exists(cfg.ids(v), head + [EXIT], avoid_ids=_ids(cfg, Dd)), "R06b", fi, v, "constrain() follows the store on every path", "`%s` can complete the iteration without constrain()" % norm(v))


def _mult_factors(e):
    out = []

    def rec(x):
        if isinstance(x, ast.BinOp) and isinstance(x.op, ast.Mult):
            rec(x.left)
            rec(x.right)
        else:
            out.append(ast.unparse(x))

    rec(e)
    return out


def r06c(ctx, repo):
    ctx.rule("R06c", "every <parset parameter>.interpolate(...) in model.py is multiplied by both calibration factors, directly or through a scale_factor that is the product of both")
    n = 0
    for fi in repo.module("model").all_functions():
        for c in own_nodes(fi.node):
            if not (isinstance(c, ast.Call) and isinstance(c.func, ast.Attribute) and c.func.attr == "interpolate"):
                continue
            recv = ast.unparse(c.func.value)
            n += 1
            ctx.examine()
            # climb to the top of the enclosing product
            top = c
            while True:
                p = getattr(top, "_parent", None)
                if isinstance(p, ast.BinOp) and isinstance(p.op, ast.Mult):
                    top = p
                elif isinstance(p, ast.Subscript) and p.value is top:
                    top = p
                else:
                    break
            facs = _mult_factors(top) if isinstance(top, ast.BinOp) else []
            stmt = enclosing_stmt(c)
            direct = any(f.startswith("%s.y_factor[" % recv) for f in facs) and ("%s.meta_y_factor" % recv) in facs
            via = [f for f in facs if f.endswith(".scale_factor")]
            ok = direct
            if not ok and via:
                obj = via[0][: -len(".scale_factor")]
                defs = [s for s in own_nodes(fi.node) if isinstance(s, (ast.Assign, ast.AugAssign)) and ast.unparse(s.targets[0] if isinstance(s, ast.Assign) else s.target) == via[0] and s.lineno <= stmt.lineno]
                txt = " ".join(ast.unparse(s.value) for s in defs)
                ok = ("%s.meta_y_factor" % recv) in txt and ("%s.y_factor[" % recv) in txt
                # ... and it *is* the product: every definition is `=`/`*=` of a product of the two factors (no quotient, sum or power)
                from ..core import algebra as _A

                for s_ in defs:
                    m_ = _A.mono(s_.value)
                    if m_ is None or m_[0] != 1 or any(x != 1 for x in m_[1].values()) or (isinstance(s_, ast.AugAssign) and not isinstance(s_.op, ast.Mult)):
                        ok = False
            ctx.check(ok, "R06c", fi, stmt, "interpolated %s scaled by y_factor and meta_y_factor" % recv, "`%s` is not multiplied by both calibration factors of `%s` (population y_factor and meta_y_factor): calibration has no (or half an) effect on this quantity" % (ast.unparse(c), recv))
    ctx.require(n >= 5, "R06c: fewer interpolate() sites in model.py (%d) than confirmed (5)" % n)
    # Parameter.update and the aggregation store multiply by scale_factor
    pu = repo.func("model", "Parameter.update")
    me = K.self_name(pu)
    calls = [s for s in own_nodes(pu.node) if isinstance(s, ast.Assign) and "%s._fcn(" % me in ast.unparse(s.value)]
    ctx.require(calls, "R06c: function evaluation `self._fcn(...)` not found in Parameter.update")
    for s in calls:
        ctx.check("%s.scale_factor" % me in _mult_factors(s.value), "R06c", pu, s, "function value scaled by scale_factor", "the function value `%s` is not multiplied by the parameter's scale factor" % ast.unparse(s.value))
    up = repo.func("model", "Model.update_pars")
    A, B, Cc, Dd = stage_sets(up, _dyn_loop(up))
    for s in Cc:
        ctx.check(any(f.endswith(".scale_factor") for f in _mult_factors(s.value)), "R06c", up, s, "aggregated value scaled by scale_factor", "the aggregated value `%s` is not multiplied by the parameter's scale factor" % ast.unparse(s.value))


def r06d(ctx, repo):
    ctx.rule("R06d", "all_pars = topological sort with edges dependency -> dependent; dynamic_pars is an order-preserving filter of it; post-compute loop iterates all_pars pairing update() with constrain()")
    so = repo.func("model", "Model._set_exec_order")
    assign = [s for s in own_nodes(so.node) if isinstance(s, ast.Assign) and "['all_pars']" in ast.unparse(s.targets[0])]
    ctx.require(len(assign) == 1, "R06d: assignment of exec_order['all_pars'] not found")
    a = assign[0]
    vt = ast.unparse(a.value)
    ctx.require("topological_sort" in vt, "R06d: exec_order['all_pars'] is not built from topological_sort: %s" % vt)
    rev = "reversed(" in vt or "[::-1]" in vt
    gname = None
    for c in ast.walk(a.value):
        if isinstance(c, ast.Call) and ast.unparse(c.func).endswith("topological_sort") and c.args and isinstance(c.args[0], ast.Name):
            gname = c.args[0].id
    gdefs = [s for s in own_nodes(so.node) if isinstance(s, ast.Assign) and astq.is_name(s.targets[0], gname) and s.lineno < a.lineno]
    ctx.require(gdefs, "R06d: parameter dependency graph not found")
    start = max(s.lineno for s in gdefs)
    edges = [c for c in own_nodes(so.node) if isinstance(c, ast.Call) and isinstance(c.func, ast.Attribute) and c.func.attr == "add_edge" and astq.is_name(c.func.value, gname) and start < c.lineno < a.lineno]
    ctx.require(len(edges) >= 2, "R06d: fewer dependency edges (%d) than confirmed (2)" % len(edges))
    for c in edges:
        x, y = (ast.unparse(z) for z in c.args[:2])
        # the dependent is the parameter that owns the deps / aggregation; the dependency is the loop variable over deps or pop_aggregation[1]
        dependent = y.endswith(".name") and not "pop_aggregation" in y
        dependency_first = (not x.endswith(".name")) or "pop_aggregation" in x
        fwd = dependent and dependency_first
        bwd = (x.endswith(".name") and "pop_aggregation" not in x) and ((not y.endswith(".name")) or "pop_aggregation" in y)
        ctx.require(fwd or bwd, "R06d: cannot tell the direction of add_edge(%s, %s)" % (x, y))
        ctx.check((fwd and not rev) or (bwd and rev), "R06d", so, enclosing_stmt(c), "edge dependency -> dependent", "dependency edge %s -> %s orders a parameter before the quantity it depends on" % (x, y))
    dyn = [s for s in own_nodes(so.node) if isinstance(s, ast.Assign) and "['dynamic_pars']" in ast.unparse(s.targets[0])]
    ctx.require(len(dyn) == 1, "R06d: exec_order['dynamic_pars'] assignment not found")
    v = dyn[0].value
    ok = isinstance(v, ast.ListComp) and len(v.generators) == 1 and "['all_pars']" in ast.unparse(v.generators[0].iter) and not isinstance(v.generators[0].iter, ast.Call) and isinstance(v.elt, ast.Name) and ast.unparse(v.elt) == ast.unparse(v.generators[0].target)
    ctx.check(ok, "R06d", so, dyn[0], "dynamic_pars is an order-preserving filter of all_pars", "exec_order['dynamic_pars'] is not an order-preserving filter of the dependency-sorted list")
    pr = repo.func("model", "Model.process")
    loops = [l for l in own_nodes(pr.node) if isinstance(l, ast.For) and "_exec_order['all_pars']" in ast.unparse(l.iter) and not isinstance(l.iter, ast.Call)]
    ctx.require(loops, "R06d: post-compute loop over _exec_order['all_pars'] not found in Model.process")
    cfg = K.cfg(repo, pr)
    for l in loops:
        ups = [s for s in ast.walk(l) if isinstance(s, ast.Expr) and isinstance(s.value, ast.Call) and isinstance(s.value.func, ast.Attribute) and s.value.func.attr == "update"]
        cons = [s for s in ast.walk(l) if isinstance(s, ast.Expr) and isinstance(s.value, ast.Call) and isinstance(s.value.func, ast.Attribute) and s.value.func.attr == "constrain"]
        ctx.require(ups, "R06d: post-compute loop does not call update()")
        good = bool(cons) and all(not cfg.path_exists(cfg.ids(u), cfg.ids(l) + [EXIT] + [i for ll in ast.walk(l) if isinstance(ll, ast.For) and ll is not l for i in cfg.ids(ll)], avoid_ids=_ids(cfg, cons)) for u in ups)
        ctx.check(good, "R06d", pr, ups[0], "post-computed values are constrained", "post-computed parameter values are not clipped to the framework limits before they are reported / feed later parameters")


# ---------------------------------------------------------------------------------------------- R06e
def _window_names(fi, owner):
    lo = "%s.skip_function[0]" % owner
    hi = "%s.skip_function[1]" % owner
    return lo, hi


def skip_tables(ctx, repo):
    """Return {site: set of regions where the function IS evaluated} for the three implementations."""
    tables = {}
    pu = repo.func("model", "Parameter.update")
    me = K.self_name(pu)
    lo, hi = _window_names(pu, me)
    # the time value compared is self.t[ti]
    found = 0
    for node in own_nodes(pu.node):
        if isinstance(node, ast.Call) and ast.unparse(node.func) == "np.where" and len(node.args) == 1 and lo in ast.unparse(node):
            tv = "%s.t[%s]" % (me, pu.params[1])
            tables["Parameter.update (vector)"] = (R.two_threshold_truth(node.args[0], tv, lo, hi), enclosing_stmt(node), pu)
            found += 1
        if isinstance(node, ast.If) and lo in ast.unparse(node.test) and node.body and isinstance(node.body[-1], ast.Return):
            tv = "%s.t[%s]" % (me, pu.params[1])
            skipped = R.two_threshold_truth(node.test, tv, lo, hi)
            tables["Parameter.update (scalar)"] = (frozenset({"<lo", "=lo", "mid", "=hi", ">hi"}) - skipped, node, pu)
            found += 1
    if found != 2:
        # another spelling of the two branches (no np.where, window unpacked into locals, chained comparison): R06n decides them by truth table
        tables.pop("Parameter.update (vector)", None)
        tables.pop("Parameter.update (scalar)", None)
        ctx.note("R06e", "Parameter.update: skip-window branches not in the np.where / if-return spelling; decided by R06n")
    up = repo.func("model", "Model.update_pars")
    ume = K.self_name(up)
    for node in own_nodes(up.node):
        if isinstance(node, ast.If) and "skip_function[0]" in ast.unparse(node.test):
            # if par.skip_function is None or (t < lo) or (t > hi): store
            owner = None
            for n in ast.walk(node.test):
                if isinstance(n, ast.Subscript) and ast.unparse(n).endswith(".skip_function[0]"):
                    owner = ast.unparse(n.value.value)
            lo2, hi2 = "%s.skip_function[0]" % owner, "%s.skip_function[1]" % owner
            parts = node.test.values if isinstance(node.test, ast.BoolOp) and isinstance(node.test.op, ast.Or) else [node.test]
            parts = [p for p in parts if "is None" not in ast.unparse(p)]
            t = ast.BoolOp(op=ast.Or(), values=parts) if len(parts) > 1 else parts[0]
            tv = None
            for n in ast.walk(t):
                if isinstance(n, ast.Subscript) and ast.unparse(n.value) == "%s.t" % ume:
                    tv = ast.unparse(n)
            tables["Model.update_pars (aggregation)"] = (R.two_threshold_truth(t, tv, lo2, hi2), node, up)
    if "Model.update_pars (aggregation)" not in tables:
        raise AnalysisError("R06e: skip-window test of the aggregation branch not found in update_pars")
    return tables


def r06e(ctx, repo):
    ctx.rule("R06e", "function-suspension window: vector and scalar branches of Parameter.update and the aggregation branch of update_pars evaluate the function in the same order regions (t<lo, t>hi); ParameterScenario splits the time axis at one threshold into complementary masks and suspends the function from that threshold on")
    try:
        tables = skip_tables(ctx, repo)
    except R.Unrecognised as e:
        raise AnalysisError("R06e: unrecognised skip-window test `%s`" % e)
    want = frozenset({"<lo", ">hi"})
    for site, (regs, node, fi) in tables.items():
        ctx.check(regs == want, "R06e", fi, node, "%s evaluates the function exactly outside [lo, hi]" % site, "%s evaluates the parameter function in regions %s of the suspension window (expected t<lo and t>hi only): at a window edge one code path uses the function and another the scenario value" % (site, sorted(regs)))
    scenario_partition(ctx, repo, "R06e")


def scenario_partition(ctx, repo, rule):
    gp = repo.func("scenarios", "ParameterScenario.get_parset")
    masks = []
    for n in own_nodes(gp.node):
        if isinstance(n, ast.Subscript) and isinstance(n.slice, ast.Compare) and isinstance(n.value, ast.Name) and astq.is_name(n.slice.left, n.value.id) and len(n.slice.ops) == 1 and isinstance(n.slice.comparators[0], ast.Name):
            masks.append(n)
    odd = [n for n in own_nodes(gp.node) if isinstance(n, ast.Subscript) and isinstance(n.value, ast.Name) and n.value.id == "tvec" and not isinstance(n.slice, (ast.Constant, ast.Slice)) and not any(n is m for m in masks)]
    if len(masks) >= 2 and odd:
        ctx.fail(rule, gp, enclosing_stmt(odd[0]), "simulation times are also selected with `tvec[%s]`, which is not a plain comparison with the first overwrite year: the times that keep their baseline value and the times that are listed as keeping it no longer coincide" % ast.unparse(odd[0].slice)[:80], stmt_text="scenario-time-split")
    if len(masks) < 2:
        # the times that keep the baseline / receive the overwrite are selected by something other than a plain comparison of the time vector with the
        # first overwrite year (a mask variable, isclose, an index range ...): report what is used instead
        sel = [n for n in own_nodes(gp.node) if isinstance(n, ast.Subscript) and isinstance(n.value, ast.Name) and n.value.id == "tvec" and not isinstance(n.slice, (ast.Constant, ast.Slice))]
        how = sorted({ast.unparse(n.slice) for n in sel})
        defs = [norm(s) for s in own_nodes(gp.node) if isinstance(s, ast.Assign) and isinstance(s.targets[0], ast.Name) and any(s.targets[0].id in h for h in how)]
        ctx.fail(rule, gp, enclosing_stmt(sel[0]) if sel else gp.node, "the scenario no longer splits the simulation times by comparing them with the first overwrite year (`tvec < S` keeps the baseline, `tvec >= S` takes the overwrite); it selects them with %s%s: any time strictly before the first overwrite year that this selection does not keep at its baseline value changes an output before the intervention starts" % (how or "nothing recognisable", (" where " + "; ".join(defs)[:200]) if defs else ""), stmt_text="scenario-time-split")
        return
    thr = {n.slice.comparators[0].id for n in masks}
    ctx.check(len(thr) == 1, rule, gp, enclosing_stmt(masks[0]), "one threshold splits the time axis", "baseline and overwrite masks use different thresholds %s" % sorted(thr))
    if len(thr) != 1:
        return
    S = next(iter(thr))
    base, over = frozenset(), frozenset()
    base_nodes, over_nodes = [], []
    for n in masks:
        ops = {ast.Lt: {"lt"}, ast.LtE: {"lt", "eq"}, ast.Gt: {"gt"}, ast.GtE: {"gt", "eq"}}
        regs = frozenset(ops.get(type(n.slice.ops[0]), set()))
        st = enclosing_stmt(n)
        # the mask handed to interpolate / stored as the series' time points pins the baseline; the one handed to smooth covers the overwrites
        if "smooth" in ast.unparse(st):
            over = over | regs
            over_nodes.append(st)
        else:
            base = base | regs
            base_nodes.append(st)
    ctx.require(base_nodes and over_nodes, "%s: baseline / overwrite masks not both recognised" % rule)
    ctx.check(base == {"lt"}, rule, gp, base_nodes[0], "baseline pinned strictly before the first overwrite", "baseline values are pinned on regions %s relative to the first overwrite year (expected strictly before): the scenario changes the value at or before its start, or leaves the start year unpinned" % sorted(base))
    ctx.check(over == {"eq", "gt"} and not (base & over), rule, gp, over_nodes[0], "overwrites cover the start year onward; masks are complementary", "the overwrite mask covers regions %s: baseline and overwrite masks are not complementary" % sorted(over))
    sk = [s for s in own_nodes(gp.node) if isinstance(s, ast.Assign) and "skip_function" in ast.unparse(s.targets[0])]
    ctx.require(sk, "%s: skip_function assignment not found in get_parset" % rule)
    for s in sk:
        v = s.value
        good = isinstance(v, ast.Tuple) and len(v.elts) == 2 and astq.is_name(v.elts[0], S) and ast.unparse(v.elts[1]) in ("np.inf", "math.inf", "float('inf')")
        ctx.check(good, rule, gp, s, "function suspended on [S, inf) with the same S", "the function is suspended on `%s`, not from the first overwrite year `%s` onward" % (ast.unparse(v), S))
    # pin uses the default interpolation onto the baseline mask and stores both t and vals from the same mask
    st = [s for s in own_nodes(gp.node) if isinstance(s, ast.Assign) and ast.unparse(s.targets[0]).endswith(".t") and "tvec[" in ast.unparse(s.value)]
    ctx.check(bool(st), rule, gp, st[0] if st else gp.node, "baseline time points stored from the same mask", "baseline time points are not stored from the `tvec < S` mask")
    # ... and the values stored next to them are the parameter interpolated onto exactly those times (same series, same mask)
    if st:
        series = ast.unparse(st[0].targets[0])[: -len(".t")]
        vs = [s for s in own_nodes(gp.node) if isinstance(s, ast.Assign) and ast.unparse(s.targets[0]) == series + ".vals"]
        okv = len(vs) == 1
        if okv:
            v = vs[0].value
            src = v
            while isinstance(src, ast.Call) and isinstance(src.func, ast.Attribute) and src.func.attr in ("tolist", "copy"):
                src = src.func.value
            if isinstance(src, ast.Name):
                ds = [d for d in own_nodes(gp.node) if isinstance(d, ast.Assign) and astq.is_name(d.targets[0], src.id)]
                src = ds[-1].value if len(ds) == 1 else None
            mask_txt = ast.unparse(st[0].value.func.value) if isinstance(st[0].value, ast.Call) and isinstance(st[0].value.func, ast.Attribute) else ast.unparse(st[0].value)
            okv = isinstance(src, ast.Call) and isinstance(src.func, ast.Attribute) and src.func.attr == "interpolate" and bool(src.args) and ast.unparse(src.args[0]) == mask_txt
        ctx.check(okv, rule, gp, vs[0] if vs else st[0], "baseline values = the parameter interpolated onto the pinned times", "the values stored with the pinned baseline times are not `par.interpolate(<the same times>, pop)`: times and values of the series before the scenario start no longer belong together", stmt_text="baseline-vals")
    # the threshold is the first overwrite year
    sdef = [d for d in own_nodes(gp.node) if isinstance(d, ast.Assign) and astq.is_name(d.targets[0], S)]
    oks = len(sdef) == 1 and isinstance(sdef[0].value, ast.Call) and ast.unparse(sdef[0].value.func) in ("min", "np.min", "np.nanmin") and len(sdef[0].value.args) == 1 and ast.unparse(sdef[0].value.args[0]).endswith('["t"]'.replace('"', "'"))
    ctx.check(oks, rule, gp, sdef[0] if sdef else gp.node, "the threshold is the first overwrite year", "`%s` is not the smallest overwrite year (`%s`): the baseline is pinned up to another year than the one the overwrites start at" % (S, norm(sdef[0])[:70] if sdef else "not found"), stmt_text="threshold-def")
    # every (t, y) pair of the overwrite is inserted into the same series
    ins = [c for c in ast.walk(gp.node) if isinstance(c, ast.Call) and isinstance(c.func, ast.Attribute) and c.func.attr == "insert" and st and ast.unparse(c.func.value) == series]
    oki = len(ins) == 1
    if oki:
        lp = enclosing_stmt(ins[0])
        while lp is not None and not isinstance(lp, ast.For):
            lp = getattr(lp, "_parent", None)
        oki = lp is not None and isinstance(lp.iter, ast.Call) and ast.unparse(lp.iter.func) == "zip" and [ast.unparse(a)[-5:] for a in lp.iter.args] == ["['t']", "['y']"] and [ast.unparse(a) for a in ins[0].args] == [ast.unparse(e) for e in lp.target.elts] and not guards_of(enclosing_stmt(ins[0]), stop=lp)
    ctx.check(oki, rule, gp, enclosing_stmt(ins[0]) if ins else gp.node, "every overwrite pair (t, y) is inserted", "the overwrite values are not inserted pair by pair (`for t, y in zip(overwrite['t'], overwrite['y']): series.insert(t, y)`, unconditionally): some scenario values never reach the parameter, or reach it at another year", stmt_text="insert-pairs")


def r06f(ctx, repo):
    ctx.rule("R06f", "dynamic-flag propagation: every recursive set_dynamic() call made by Parameter.set_dynamic forwards `progset`, the decision uses `dep._is_dynamic or dep.name in progset.pars`, and the builders pass the model's program set")
    sd = repo.func("model", "Parameter.set_dynamic")
    ctx.require("progset" in sd.params, "R06f: Parameter.set_dynamic lost its progset parameter")
    calls = [c for c in own_nodes(sd.node) if isinstance(c, ast.Call) and isinstance(c.func, ast.Attribute) and c.func.attr == "set_dynamic"]
    ctx.require(calls, "R06f: no recursive set_dynamic() call in Parameter.set_dynamic")
    for c in calls:
        passed = any(k.arg == "progset" and astq.is_name(k.value, "progset") for k in c.keywords) or (c.args and astq.is_name(c.args[0], "progset"))
        # a call on something that is definitely not a Parameter (guarded by isinstance Compartment/Characteristic only) needs nothing
        gs = [ast.unparse(t) for t, pol in guards_of(c) if pol]
        only_nonpar = any("isinstance(" in g and "Parameter" not in g and ("Compartment" in g or "Characteristic" in g) for g in gs)
        ctx.check(passed or only_nonpar, "R06f", sd, enclosing_stmt(c), "recursive call forwards progset", "`%s` does not forward `progset`: a parameter reached only through this call cannot see that one of *its* dependencies is overwritten by a program, is precomputed once, and keeps its stale value while programs change the dependency" % ast.unparse(c))
    txt = " ".join(ast.unparse(x) for x in own_nodes(sd.node) if isinstance(x, (ast.BoolOp, ast.Compare)))
    ctx.check("in progset.pars" in txt and "_is_dynamic" in txt, "R06f", sd, sd.node, "a dependency overwritten by programs makes the dependent dynamic", "Parameter.set_dynamic no longer treats a dependency that is overwritten by programs as dynamic")
    pb = repo.func("model", "Population.build")
    pc = [c for c in own_nodes(pb.node) if isinstance(c, ast.Call) and isinstance(c.func, ast.Attribute) and c.func.attr == "set_dynamic"]
    ctx.check(bool(pc) and all((c.args and astq.is_name(c.args[0], "progset")) or any(k.arg == "progset" for k in c.keywords) for c in pc), "R06f", pb, enclosing_stmt(pc[0]) if pc else pb.node, "Population.build passes the program set", "Population.build calls set_dynamic() without the program set")
    so = repo.func("model", "Model._set_exec_order")
    keep = [s_ for s_ in own_nodes(so.node) if isinstance(s_, ast.If) and "_is_dynamic" in ast.unparse(s_.test)]
    ctx.check(bool(keep) and any("progset.pars" in ast.unparse(k.test) for k in keep), "R06f", so, keep[0] if keep else so.node, "program-targeted parameters are kept in the per-step update list", "parameters targeted by programs are no longer kept in dynamic_pars: the program overwrite and constrain are skipped for them")


def _kw(call, name):
    for k in call.keywords:
        if k.arg == name:
            return k.value
    return None


def r06g(ctx, repo):
    ctx.rule("R06g", "interpolation contract of the databook series: TimeSeries.insert keeps the time list sorted (bisect position, both lists at the same index, overwrite on an equal year); 'linear' is np.interp over (t1, v1) with left=v1[0], right=v1[-1]; 'previous' holds the value with fill (v1[0], v1[-1]); assumption-only and single-point series return that value; Parameter.interpolate uses the parameter's stored method, which defaults to 'linear'")
    fi = repo.func("utils", "TimeSeries.insert")
    me = fi.params[0]
    tins = [c for c in own_nodes(fi.node) if isinstance(c, ast.Call) and isinstance(c.func, ast.Attribute) and c.func.attr == "insert" and ast.unparse(c.func.value) == "%s.t" % me and len(c.args) == 2]
    ctx.require(len(tins) == 1, "R06g: `self.t.insert(<position>, t)` not found in TimeSeries.insert")
    idx = ast.unparse(tins[0].args[0])
    defs = [s for s in own_nodes(fi.node) if isinstance(s, ast.Assign) and len(s.targets) == 1 and ast.unparse(s.targets[0]) == idx]
    ok = len(defs) == 1 and isinstance(defs[0].value, ast.Call) and ast.unparse(defs[0].value.func) in ("bisect_left", "bisect.bisect_left") and [ast.unparse(a) for a in defs[0].value.args] == ["%s.t" % me, fi.params[1]]
    ctx.check(ok, "R06g", fi, defs[0] if defs else enclosing_stmt(tins[0]), "insertion position = bisect_left(self.t, t)", "the insertion position `%s` is not bisect_left(self.t, t): the time list stops being sorted and interpolation (which assumes sorted years) returns values of the wrong years" % idx, stmt_text="insert-position")
    ins = [c for c in own_nodes(fi.node) if isinstance(c, ast.Call) and isinstance(c.func, ast.Attribute) and c.func.attr == "insert" and ast.unparse(c.func.value) in ("%s.t" % me, "%s.vals" % me)]
    both = {ast.unparse(c.func.value) for c in ins if len(c.args) == 2 and isinstance(c.args[0], ast.Name) and c.args[0].id == idx}
    ctx.check(both == {"%s.t" % me, "%s.vals" % me}, "R06g", fi, ins[0] if ins else fi.node, "year and value inserted at the same position", "year and value are not both inserted at the bisect position `%s` (years and values would no longer correspond)" % idx, stmt_text="insert-both-lists")
    for c in ins:
        if ast.unparse(c.func.value) == "%s.t" % me:
            ctx.check(ast.unparse(c.args[1]) == fi.params[1], "R06g", fi, enclosing_stmt(c), "the year list receives the year", "`%s` does not insert the year argument" % norm(enclosing_stmt(c)))
        else:
            ctx.check(ast.unparse(c.args[1]) == fi.params[2], "R06g", fi, enclosing_stmt(c), "the value list receives the value", "`%s` does not insert the value argument" % norm(enclosing_stmt(c)))
    ow = [s for s in own_nodes(fi.node) if isinstance(s, ast.Assign) and isinstance(s.targets[0], ast.Subscript) and ast.unparse(s.targets[0].value) == "%s.vals" % me]
    ok = len(ow) == 1 and ast.unparse(ow[0].targets[0].slice) == idx and any(pol and "%s.t[%s] == %s" % (me, idx, fi.params[1]) in ast.unparse(t) for t, pol in guards_of(ow[0]))
    ctx.check(ok, "R06g", fi, ow[0] if ow else fi.node, "an existing year is overwritten in place", "the overwrite of an existing year is not `self.vals[idx] = v` under `self.t[idx] == t` (a year would be entered twice or the wrong entry replaced)", stmt_text="overwrite-existing-year")

    fi = repo.func("utils", "TimeSeries.interpolate")
    me = fi.params[0]
    t2 = fi.params[1]
    # t1, v1 = self.get_arrays() ... filtered by one common mask
    ga = [s for s in own_nodes(fi.node) if isinstance(s, ast.Assign) and isinstance(s.value, ast.Call) and ast.unparse(s.value.func) == "%s.get_arrays" % me and isinstance(s.targets[0], ast.Tuple)]
    ctx.require(len(ga) == 1 and len(ga[0].targets[0].elts) == 2, "R06g: `t1, v1 = self.get_arrays()` not found in TimeSeries.interpolate")
    t1, v1 = [e.id for e in ga[0].targets[0].elts]
    left, right = "%s[0]" % v1, "%s[-1]" % v1
    branches = {}
    for s in own_nodes(fi.node):
        if isinstance(s, ast.If) and isinstance(s.test, ast.Compare) and len(s.test.ops) == 1 and isinstance(s.test.ops[0], ast.Eq) and ast.unparse(s.test.left) == "method" and isinstance(s.test.comparators[0], ast.Constant):
            branches[s.test.comparators[0].value] = s
    ctx.require({"linear", "previous"} <= set(branches), "R06g: method branches 'linear' / 'previous' not found in TimeSeries.interpolate")
    lin = [c for st in branches["linear"].body for c in ast.walk(st) if isinstance(c, ast.Call) and ast.unparse(c.func) == "np.interp"]
    rets = [st for st in branches["linear"].body if isinstance(st, ast.Return)]
    direct = len(lin) == 1 and len(rets) == 1 and (rets[0].value is lin[0] or (isinstance(rets[0].value, ast.Name) and any(isinstance(st, ast.Assign) and st.value is lin[0] and ast.unparse(st.targets[0]) == rets[0].value.id for st in branches["linear"].body) and sum(1 for st in branches["linear"].body for x in ast.walk(st) if isinstance(x, ast.Name) and x.id == rets[0].value.id) == 2))
    ok = direct and [ast.unparse(a) for a in lin[0].args[:3]] == [t2, t1, v1] and _kw(lin[0], "left") is not None and ast.unparse(_kw(lin[0], "left")) == left and _kw(lin[0], "right") is not None and ast.unparse(_kw(lin[0], "right")) == right and _kw(lin[0], "period") is None
    ctx.check(ok, "R06g", fi, rets[0] if rets else branches["linear"], "linear: np.interp(t2, t1, v1, left=v1[0], right=v1[-1]) returned as is", "the 'linear' branch does not return np.interp(%s, %s, %s, left=%s, right=%s): parameter values are no longer exact at entered years / linear between / constant outside the data range" % (t2, t1, v1, left, right), stmt_text="linear-branch")
    prev = [c for st in branches["previous"].body for c in ast.walk(st) if isinstance(c, ast.Call) and ast.unparse(c.func).endswith("interp1d")]
    ok = len(prev) == 1 and [ast.unparse(a) for a in prev[0].args[:2]] == [t1, v1] and isinstance(_kw(prev[0], "kind"), ast.Constant) and _kw(prev[0], "kind").value == "previous" and _kw(prev[0], "fill_value") is not None and ast.unparse(_kw(prev[0], "fill_value")) == "(%s, %s)" % (left, right) and isinstance(_kw(prev[0], "bounds_error"), ast.Constant) and _kw(prev[0], "bounds_error").value is False
    ctx.check(ok, "R06g", fi, branches["previous"].body[0], "previous: interp1d(kind='previous', fill_value=(v1[0], v1[-1]), bounds_error=False)", "the 'previous' branch is not interp1d(%s, %s, kind='previous', bounds_error=False, fill_value=(%s, %s))" % (t1, v1, left, right), stmt_text="previous-branch")
    # the shortcuts
    short = []
    for r in own_nodes(fi.node):
        if isinstance(r, ast.Return) and isinstance(r.value, ast.Call) and ast.unparse(r.value.func) == "np.full" and len(r.value.args) == 2:
            conds = [(ast.unparse(t), pol) for t, pol in guards_of(r)]
            short.append((r, ast.unparse(r.value.args[1]), conds))
    want = {"np.nan": "not %s.has_data" % me, "%s.assumption" % me: "not %s.has_time_data" % me, "%s[0]" % v1: "%s.size == 1" % t1}
    seen = {}
    for r, val, conds in short:
        seen[val] = r
        w = want.get(val)
        ok = w is not None and any(pol and t == w for t, pol in conds)
        ctx.check(ok, "R06g", fi, r, "`%s` returned exactly when %s" % (val, w), "`%s` is returned under %s, expected under `%s`" % (norm(r)[:50], [t for t, p in conds if p][:2], w))
    ctx.check(set(want) <= set(seen), "R06g", fi, fi.node, "all three shortcuts present", "a shortcut of TimeSeries.interpolate is missing (no data -> NaN, assumption only -> the assumption, one point -> that value): %s" % sorted(set(want) - set(seen)), stmt_text="shortcuts")
    # the NaN mask is applied to both arrays together
    masks = [s for s in own_nodes(fi.node) if isinstance(s, ast.Assign) and isinstance(s.targets[0], ast.Tuple) and [ast.unparse(e) for e in s.targets[0].elts] == [t1, v1] and s is not ga[0]]
    ok = len(masks) == 1 and isinstance(masks[0].value, ast.Tuple) and len(masks[0].value.elts) == 2 and all(isinstance(e, ast.Subscript) for e in masks[0].value.elts) and [ast.unparse(e.value) for e in masks[0].value.elts] == [t1, v1] and len({ast.unparse(e.slice) for e in masks[0].value.elts}) == 1
    ctx.check(ok, "R06g", fi, masks[0] if masks else fi.node, "years and values filtered by one mask", "years and values are not filtered by the same mask before interpolation", stmt_text="common-mask")

    fi = repo.func("parameters", "Parameter.interpolate")
    me = fi.params[0]
    rets = [r for r in own_nodes(fi.node) if isinstance(r, ast.Return)]
    ok = len(rets) == 1 and isinstance(rets[0].value, ast.Call) and ast.unparse(rets[0].value.func) == "%s.ts[%s].interpolate" % (me, fi.params[2]) and ast.unparse(rets[0].value.args[0]) == fi.params[1] and _kw(rets[0].value, "method") is not None and ast.unparse(_kw(rets[0].value, "method")) == "%s._interpolation_method" % me
    ctx.check(ok, "R06g", fi, rets[0] if rets else fi.node, "Parameter.interpolate = the population's series at tvec with the stored method", "Parameter.interpolate does not return self.ts[pop_name].interpolate(tvec, method=self._interpolation_method)")
    init = repo.func("parameters", "Parameter.__init__")
    st = [s for s in own_nodes(init.node) if isinstance(s, ast.Assign) and ast.unparse(s.targets[0]) == "%s._interpolation_method" % init.params[0]]
    ok = len(st) == 1 and isinstance(st[0].value, ast.Constant) and st[0].value.value == "linear"
    ctx.check(ok, "R06g", init, st[0] if st else init.node, "default interpolation method is 'linear'", "the default interpolation method of a Parameter is not 'linear'")


def r06h(ctx, repo):
    ctx.rule("R06h", "Parameter.constrain clips to [limits[0], limits[1]] in both of its forms: the vector form is np.clip(self.vals, self.limits[0], self.limits[1]) stored back, the per-step form replaces a value below limits[0] by limits[0] and a value above limits[1] by limits[1] at the same index; both are guarded only by `self.limits is not None`")
    fi = repo.func("model", "Parameter.constrain")
    me, ti = fi.params[0], fi.params[1]
    lo, hi = "%s.limits[0]" % me, "%s.limits[1]" % me
    stores = [s for s in own_nodes(fi.node) if isinstance(s, ast.Assign)]
    vec = [s for s in stores if ast.unparse(s.targets[0]) == "%s.vals" % me]
    ok = len(vec) == 1 and isinstance(vec[0].value, ast.Call) and ast.unparse(vec[0].value.func) == "np.clip" and [ast.unparse(a) for a in vec[0].value.args] == ["%s.vals" % me, lo, hi] and not vec[0].value.keywords
    ctx.check(ok, "R06h", fi, vec[0] if vec else fi.node, "vector form: np.clip(self.vals, lo, hi)", "the vector form is not `self.vals = np.clip(self.vals, %s, %s)`: data parameters are no longer clipped into the framework's limits before they drive flows" % (lo, hi), stmt_text="vector-clip")
    if vec:
        g = [(ast.unparse(t), pol) for t, pol in guards_of(vec[0])]
        ctx.check(sorted(g) == sorted([("%s.limits is not None" % me, True), ("%s is None" % ti, True)]), "R06h", fi, vec[0], "vector form runs iff limits exist and no index is given", "the vector clip is guarded by %s" % g, stmt_text="vector-guard")
    sc_ = [s for s in stores if ast.unparse(s.targets[0]) == "%s.vals[%s]" % (me, ti)]
    table = set()
    for s in sc_:
        g = [(ast.unparse(t), pol) for t, pol in guards_of(s)]
        inner = [t for t, pol in g if pol and t not in ("%s.limits is not None" % me,)]
        outer_ok = ("%s.limits is not None" % me, True) in g and ("%s is None" % ti, False) in g
        table.add((tuple(sorted(inner)), ast.unparse(s.value), outer_ok))
    cur = "%s.vals[%s]" % (me, ti)
    def below(t):
        return t in ("%s < %s" % (cur, lo), "%s > %s" % (lo, cur))
    def above(t):
        return t in ("%s > %s" % (cur, hi), "%s < %s" % (hi, cur))
    got_lo = any(len(i) == 1 and below(i[0]) and v == lo and o for i, v, o in table)
    got_hi = any(len(i) == 1 and above(i[0]) and v == hi and o for i, v, o in table)
    extra = [x for x in table if not ((len(x[0]) == 1 and below(x[0][0]) and x[1] == lo) or (len(x[0]) == 1 and above(x[0][0]) and x[1] == hi))]
    ctx.check(got_lo, "R06h", fi, fi.node, "per-step form: below the lower limit -> the lower limit", "the per-step form of Parameter.constrain does not set `%s = %s` exactly when `%s < %s`: a dependency or program-driven value below the minimum drives flows unclipped" % (cur, lo, cur, lo), stmt_text="scalar-lower")
    ctx.check(got_hi, "R06h", fi, fi.node, "per-step form: above the upper limit -> the upper limit", "the per-step form of Parameter.constrain does not set `%s = %s` exactly when `%s > %s`: a dependency or program-driven value above the maximum drives flows unclipped" % (cur, hi, cur, hi), stmt_text="scalar-upper")
    ctx.check(not extra, "R06h", fi, sc_[0] if sc_ else fi.node, "no other store in constrain", "Parameter.constrain also stores %s" % extra[:1], stmt_text="scalar-extra")
    # limits come from the framework's min/max columns
    n = 0
    for f in repo.all_functions():
        if f.module.name.endswith("model"):
            for s in own_nodes(f.node):
                if isinstance(s, ast.Assign) and isinstance(s.targets[0], ast.Attribute) and s.targets[0].attr == "limits" and not (isinstance(s.value, ast.Constant) and s.value.value is None):
                    n += 1
                    once = {}
                    for a in own_nodes(f.node):
                        if isinstance(a, ast.Assign) and len(a.targets) == 1 and isinstance(a.targets[0], ast.Name):
                            once.setdefault(a.targets[0].id, []).append(ast.unparse(a.value))

                    def expand(e):
                        t = ast.unparse(e)
                        for nm in {x.id for x in ast.walk(e) if isinstance(x, ast.Name)}:
                            if len(once.get(nm, [])) == 1:
                                t = t.replace(nm, "(" + once[nm][0] + ")")
                        return t

                    ok = isinstance(s.value, ast.List) and len(s.value.elts) == 2
                    if ok:
                        a, b = expand(s.value.elts[0]), expand(s.value.elts[1])
                        from_fw = "'minimum value'" in a and "'maximum value'" not in a and "'maximum value'" in b and "'minimum value'" not in b and a.startswith("max(-np.inf") and b.startswith("min(np.inf")
                        fixed = b == "np.inf" and "inf" not in a and "-" not in a
                        ok = from_fw or fixed
                    ctx.check(ok, "R06h", f, s, "limits = [minimum value or -inf, maximum value or +inf] (or a fixed lower bound with no upper bound)", "`%s` does not build limits as [lower, upper] from the framework's minimum / maximum value (or a fixed non-negative lower bound and +inf)" % norm(s)[:80])
    ctx.require(n >= 1, "R06h: no assignment of Parameter.limits from the framework found in model.py")


def _conj(t):
    return [ast.unparse(v) for v in (t.values if isinstance(t, ast.BoolOp) and isinstance(t.op, ast.And) else [t])]


def r06i(ctx, repo):
    ctx.rule("R06i", "which parameters are stepped, and after what: (a) a dependency edge is added for every non-derivative dependency (guard: dep is a framework parameter and not a derivative) and for the aggregated quantity of a population aggregation; (b) a parameter is kept for the per-step update iff it is dynamic or targeted by the program set, and dynamic_pars filters on that flag; (c) transition_pars holds every parameter that has links and is not in proportion units; (d) characteristics are stepped in dependency order (included characteristics and the denominator first)")
    so = repo.func("model", "Model._set_exec_order")
    me = K.self_name(so)
    # (a)
    edges = [c for c in own_nodes(so.node) if isinstance(c, ast.Call) and isinstance(c.func, ast.Attribute) and c.func.attr == "add_edge"]
    dep_edges = [c for c in edges if len(c.args) >= 2 and ast.unparse(c.args[1]).endswith("par.name")]
    ctx.require(len(dep_edges) >= 2, "R06i: parameter dependency edges not found")
    for c in dep_edges:
        x = ast.unparse(c.args[0])
        lp = [l for l in K.enclosing_loops(c) if ast.unparse(l.iter).endswith(".pars")]
        g = sorted(cj for t, pol in guards_of(c, stop=lp[0] if lp else None) if pol for cj in _conj(t))
        gneg = [ast.unparse(t) for t, pol in guards_of(c, stop=lp[0] if lp else None) if not pol]
        want = sorted(["%s in par_derivative" % x, "par_derivative[%s] != 'y'" % x] + (["par.pop_aggregation"] if "pop_aggregation" in x else []))
        ctx.check(g == want and not gneg, "R06i", so, enclosing_stmt(c), "edge %s -> par for every non-derivative parameter dependency" % x, "the dependency edge `%s` is added under %s (negated: %s), expected exactly %s: a dependency without an edge may be evaluated after the parameter that uses it, which then sees last step's value" % (ast.unparse(c), g, gneg, want))
    # (b)
    keep = [s for s in own_nodes(so.node) if isinstance(s, ast.Assign) and isinstance(s.targets[0], ast.Subscript) and ast.unparse(s.targets[0]).endswith("['keep']")]
    ctx.require(len(keep) == 1, "R06i: the `keep` flag store was not found in _set_exec_order")
    lp = [l for l in K.enclosing_loops(keep[0]) if ast.unparse(l.iter).endswith(".pars")]
    gs = guards_of(keep[0], stop=lp[0] if lp else None)
    ok = len(gs) == 1 and gs[0][1] and isinstance(gs[0][0], ast.BoolOp) and isinstance(gs[0][0].op, ast.Or) and sorted(ast.unparse(v) for v in gs[0][0].values) == sorted(["par._is_dynamic", "%s.progset and par.name in %s.progset.pars" % (me, me)]) and isinstance(keep[0].value, ast.Constant) and keep[0].value.value is True and ast.unparse(keep[0].targets[0]).startswith("G.nodes[par.name]")
    ctx.check(ok, "R06i", so, keep[0], "kept iff dynamic or targeted by a program", "`%s` is executed under %s, expected `par._is_dynamic or (self.progset and par.name in self.progset.pars)`: dynamic or program-targeted parameters missing from the per-step list are never re-evaluated (or overwritten by programs) during the run" % (norm(keep[0]), [(ast.unparse(t)[:80], p) for t, p in gs]))
    dyn = [s for s in own_nodes(so.node) if isinstance(s, ast.Assign) and "['dynamic_pars']" in ast.unparse(s.targets[0])]
    if dyn and isinstance(dyn[0].value, ast.ListComp):
        ifs = [ast.unparse(i) for i in dyn[0].value.generators[0].ifs]
        x = ast.unparse(dyn[0].value.generators[0].target)
        ctx.check(ifs == ["G.nodes[%s]['keep']" % x], "R06i", so, dyn[0], "dynamic_pars filters on the keep flag", "exec_order['dynamic_pars'] filters on %s, expected the keep flag of each node" % ifs)
    # (c)
    tp = [c for c in own_nodes(so.node) if isinstance(c, ast.Call) and isinstance(c.func, ast.Attribute) and c.func.attr == "append" and "['transition_pars']" in ast.unparse(c.func.value)]
    ctx.require(len(tp) == 1, "R06i: transition_pars.append not found")
    lp = [l for l in K.enclosing_loops(tp[0]) if ast.unparse(l.iter).endswith(".pars")]
    g = sorted(cj for t, pol in guards_of(tp[0], stop=lp[0] if lp else None) if pol for cj in _conj(t))
    gneg = [ast.unparse(t) for t, pol in guards_of(tp[0], stop=lp[0] if lp else None) if not pol]
    ok = g == sorted(["par.links", "par.units != FS.QUANTITY_TYPE_PROPORTION"]) and not gneg and ast.unparse(tp[0].args[0]) == "par" and bool(lp) and ast.unparse(lp[0].iter) == "pop.pars"
    ctx.check(ok, "R06i", so, enclosing_stmt(tp[0]), "transition_pars = every parameter with links, except proportions", "transition_pars receives a parameter under %s (negated %s), expected `par.links and par.units != FS.QUANTITY_TYPE_PROPORTION`: a transition parameter missing from the list never gets its flow computed" % (g, gneg))
    # (d)
    ch = [s for s in own_nodes(so.node) if isinstance(s, ast.Assign) and "['characs']" in ast.unparse(s.targets[0])]
    ctx.require(len(ch) == 1 and "topological_sort" in ast.unparse(ch[0].value), "R06i: exec_order['characs'] is not a topological sort")
    cedges = [c for c in edges if len(c.args) >= 2 and ast.unparse(c.args[1]) == "charac"]
    have = {ast.unparse(c.args[0]) for c in cedges}
    ok = {"include", "charac.denominator"} <= have
    for c in cedges:
        x = ast.unparse(c.args[0])
        lp = [l for l in K.enclosing_loops(c) if ast.unparse(l.iter).endswith(".characs")]
        g = [(ast.unparse(t), pol) for t, pol in guards_of(c, stop=lp[0] if lp else None)]
        ok = ok and g == [("isinstance(%s, Characteristic)" % x, True)]
    ctx.check(ok, "R06i", so, ch[0], "characteristic order: includes and denominator before the characteristic", "the characteristic ordering graph lacks an edge (included characteristic -> characteristic, denominator -> characteristic, each under its isinstance test): a characteristic built from another one can be summed before its member is updated, so it reports last step's value")


def r06k(ctx, repo):
    from ..core import boolx as B

    ctx.rule("R06k", "interaction weights and transfers are laid out as the databook gives them: the interaction array of Model.build has one row per population of the interaction's 'from' type and one column per population of its 'to' type (in model order), each entered value goes to [row of its from-population, column of its to-population, all times]; each transfer creates one parameter per (source, target) pair whose links connect every ordinary compartment of the source population with the compartment of the same name in the target population")
    fi = repo.func("model", "Model.build")
    me = K.self_name(fi)
    env = {}
    for s in own_nodes(fi.node):
        if isinstance(s, ast.Assign) and isinstance(s.targets[0], ast.Name) and s.targets[0].id in ("from_pops", "to_pops"):
            env[s.targets[0].id] = s
    for nm, col in (("from_pops", "from population type"), ("to_pops", "to population type")):
        s = env.get(nm)
        ok = s is not None and isinstance(s.value, ast.ListComp) and ast.unparse(s.value.generators[0].iter) == "%s.pops" % me and ast.unparse(s.value.elt) == "%s.name" % ast.unparse(s.value.generators[0].target) and len(s.value.generators[0].ifs) == 1 and B.equivalent(B.of(s.value.generators[0].ifs[0]), B.parse_cond("%s.type == %s.framework.interactions.at[name, '%s']" % (ast.unparse(s.value.generators[0].target), me, col)))
        ctx.check(ok, "R06k", fi, s if s is not None else fi.node, "%s = populations of the interaction's %s" % (nm, col), "`%s` is not the list of populations whose type equals the interaction's '%s': weights are stored against the wrong populations" % (norm(s)[:80] if s is not None else nm, col), stmt_text="interaction-axis:%s" % nm)
    alloc = [s for s in own_nodes(fi.node) if isinstance(s, ast.Assign) and ast.unparse(s.targets[0]) == "%s.interactions[name]" % me]
    ok = len(alloc) == 1 and ast.unparse(alloc[0].value) == "np.zeros((len(from_pops), len(to_pops), len(%s.t)))" % me
    ctx.check(ok, "R06k", fi, alloc[0] if alloc else fi.node, "array shape = (from, to, time), zero where nothing was entered", "the interaction array is not np.zeros((len(from_pops), len(to_pops), len(self.t)))", stmt_text="interaction-shape")
    st = [s for s in own_nodes(fi.node) if isinstance(s, ast.Assign) and isinstance(s.targets[0], ast.Subscript) and ast.unparse(s.targets[0].value) == "%s.interactions[name]" % me]
    ok = len(st) == 1 and ast.unparse(st[0].targets[0].slice) == "(from_pops.index(from_pop), to_pops.index(to_pop), slice(None, None, None))".replace("slice(None, None, None)", ":") or (len(st) == 1 and [ast.unparse(e) for e in st[0].targets[0].slice.elts[:2]] == ["from_pops.index(from_pop)", "to_pops.index(to_pop)"] and isinstance(st[0].targets[0].slice.elts[2], ast.Slice))
    if ok:
        ok = "interpolate(%s.t, to_pop)" % me in ast.unparse(st[0].value) and "y_factor[to_pop]" in ast.unparse(st[0].value)
    ctx.check(ok, "R06k", fi, st[0] if st else fi.node, "value stored at [from, to, :] from the series of that pair", "the interaction value is not stored at [from_pops.index(from_pop), to_pops.index(to_pop), :] from the series and factors of the same (from, to) pair", stmt_text="interaction-store")
    # transfers
    conn = [c for c in own_nodes(fi.node) if isinstance(c, ast.Call) and isinstance(c.func, ast.Attribute) and c.func.attr == "connect" and ast.unparse(c.func.value) == "src"]
    ok = len(conn) == 1 and [ast.unparse(a) for a in conn[0].args] == ["dest", "par"]
    if ok:
        lp = K.enclosing_loops(conn[0])[0]
        ok = ast.unparse(lp.iter) == "pop.comps" and B.equivalent(B.cond(guards_of(enclosing_stmt(conn[0]), stop=lp)), B.parse_cond("not (isinstance(src, SourceCompartment) or isinstance(src, SinkCompartment) or isinstance(src, JunctionCompartment))"))
        d = [s for s in lp.body[0].body if isinstance(s, ast.Assign) and astq.is_name(s.targets[0], "dest")] if isinstance(lp.body[0], ast.If) else []
        ok = ok and len(d) == 1 and ast.unparse(d[0].value) == "target_pop_obj.get_comp(src.name)"
    ctx.check(ok, "R06k", fi, enclosing_stmt(conn[0]) if conn else fi.node, "transfer links: every ordinary compartment -> same compartment in the target population", "a transfer does not connect every ordinary (non-source, non-sink, non-junction) compartment of the source population to the compartment of the same name in the target population with the transfer's parameter", stmt_text="transfer-links")
    tp = [s for s in own_nodes(fi.node) if isinstance(s, ast.Assign) and astq.is_name(s.targets[0], "target_pop_obj")]
    pp = [s for s in own_nodes(fi.node) if isinstance(s, ast.Assign) and astq.is_name(s.targets[0], "pop") and "get_pop(" in ast.unparse(s.value)]
    ok = len(tp) == 1 and ast.unparse(tp[0].value) == "%s.get_pop(pop_target)" % me and len(pp) == 1 and ast.unparse(pp[0].value) == "%s.get_pop(pop_source)" % me
    ctx.check(ok, "R06k", fi, tp[0] if tp else fi.node, "source and target populations looked up by their own names", "the transfer's source / target population objects are not looked up as get_pop(pop_source) / get_pop(pop_target)", stmt_text="transfer-pops")


def r06l(ctx, repo):
    ctx.rule("R06l", "ParameterSet.__init__ gives every population its own series: each value stored under a population key in a dict that becomes a Parameter is created by that very statement - a `.copy()` / `sc.dcp(...)` of the databook series or a `TimeSeries(...)` constructor call - so that a scenario, calibration factor or sample applied to one population cannot reach another population or the databook")
    fi = repo.func("parameters", "ParameterSet.__init__")
    dicts = set()
    for c in ast.walk(fi.node):
        if isinstance(c, ast.Call) and ast.unparse(c.func) == "Parameter" and len(c.args) >= 2:
            for x in ast.walk(c.args[1]):
                if isinstance(x, ast.Name):
                    dicts.add(x.id)
    n = 0
    for s_ in own_nodes(fi.node):
        if not (isinstance(s_, ast.Assign) and len(s_.targets) == 1 and isinstance(s_.targets[0], ast.Subscript)):
            continue
        base = s_.targets[0].value
        while isinstance(base, ast.Subscript):
            base = base.value
        if not (isinstance(base, ast.Name) and base.id in dicts):
            continue
        v = s_.value
        if isinstance(v, ast.Name):
            # a local bound in the same loop body by a fresh-making statement
            loop = s_
            while loop is not None and not isinstance(loop, ast.For):
                loop = getattr(loop, "_parent", None)
            if loop is not None:
                ds = [d for d in ast.walk(loop) if isinstance(d, ast.Assign) and any(isinstance(t, ast.Name) and t.id == v.id for t in d.targets)]
                if len(ds) == 1 and ds[0].lineno < s_.lineno:
                    v = ds[0].value
        fresh = isinstance(v, ast.Call) and ((isinstance(v.func, ast.Attribute) and v.func.attr in ("copy", "deepcopy")) or ast.unparse(v.func) in ("sc.dcp", "dcp", "copy.deepcopy", "TimeSeries", "sc.odict", "dict", "defaultdict"))
        n += 1
        ctx.check(fresh, "R06l", fi, s_, "`%s` stores a fresh series" % ast.unparse(s_)[:70], "`%s` stores an object that was not created by this statement: populations (or the parameter set and the databook) share one series, so editing one of them changes the others" % ast.unparse(s_)[:90])
    ctx.require(n >= 5, "R06l: expected >= 5 per-population stores in ParameterSet.__init__, found %d" % n)


def r06m(ctx, repo):
    from ..core import boolx as B
    from ..core.cfg import branch_guards

    ctx.rule("R06m", "every function parameter that drives a transition is evaluated before it is used: Parameter.set_dynamic leaves with exactly one of the two flags set - `_is_dynamic` (evaluated every step) or `_precompute` (evaluated before the run) - whenever the parameter has a function: the final `if not self._is_dynamic: self._precompute = True` is reached on every path that does not return early (it is not nested under the dependency test, so a function of time alone is precomputed too), and the early return fires only for parameters without a function or already flagged")
    sd = repo.func("model", "Parameter.set_dynamic")
    me = sd.params[0]
    pre = [s_ for s_ in own_nodes(sd.node) if isinstance(s_, ast.Assign) and ast.unparse(s_.targets[0]) == "%s._precompute" % me]
    ok = len(pre) == 1 and isinstance(pre[0].value, ast.Constant) and pre[0].value.value is True
    if ok:
        g = B.cond(branch_guards(pre[0], stop=sd.node))
        ok = B.equivalent(g, B.parse_cond("not %s._is_dynamic" % me))
        cfg = K.cfg(repo, sd)
        # the enclosing if is a top-level statement of the function, after the dependency loop
        top = pre[0]
        while getattr(top, "_parent", None) is not sd.node:
            top = top._parent
        ok = ok and isinstance(top, ast.If) and top is sd.node.body[-1]
    ctx.check(ok, "R06m", sd, pre[0] if pre else sd.node, "not dynamic => precomputed, decided last and unconditionally", "Parameter.set_dynamic does not end with `if not %s._is_dynamic: %s._precompute = True` at the top level of the function: a function parameter that is neither dynamic nor precomputed (e.g. a function of `t` only when the flag is set under `if self.deps`) is only evaluated after the run, while junctions and links read it during the run (NaN, or the stale databook value)" % (me, me), stmt_text="precompute-decision")
    # every Parameter dependency is descended into, whatever else is known about it (the descent is what flags intermediate function parameters)
    rec = [c for c in own_nodes(sd.node) if isinstance(c, ast.Call) and isinstance(c.func, ast.Attribute) and c.func.attr == "set_dynamic" and any("Parameter" in ast.unparse(t) and p for t, p in branch_guards(enclosing_stmt(c), stop=sd.node))]
    okd = len(rec) == 1
    if okd:
        g = branch_guards(enclosing_stmt(rec[0]), stop=sd.node)
        okd = not any(("progset" in ast.unparse(t)) or ("_is_dynamic" in ast.unparse(t)) for t, p in g if "isinstance" not in ast.unparse(t) and ast.unparse(t) != "%s.deps" % me)
    ctx.check(okd, "R06m", sd, enclosing_stmt(rec[0]) if rec else sd.node, "every Parameter dependency is descended into", "the recursive `dep.set_dynamic(...)` on a Parameter dependency is skipped under a further condition (%s): an intermediate function parameter that is only reached through this call is then neither dynamic nor precomputed and stays NaN during the run" % ([ast.unparse(t)[:60] for t, p in branch_guards(enclosing_stmt(rec[0]), stop=sd.node)] if rec else "call not found"), stmt_text="descent-unconditional")
    rets = [r for r in own_nodes(sd.node) if isinstance(r, ast.Return)]
    okr = len(rets) == 1 and B.equivalent(B.cond(branch_guards(rets[0], stop=sd.node)), B.parse_cond("%s.fcn_str is None or %s._is_dynamic or %s._precompute" % (me, me, me)))
    ctx.check(okr, "R06m", sd, rets[0] if rets else sd.node, "early return only without a function or when already flagged", "Parameter.set_dynamic returns early under another condition than `fcn_str is None or _is_dynamic or _precompute`: some function parameters are never flagged", stmt_text="early-return")


def r06n(ctx, repo):
    from ..core import boolx as B
    from ..core.cfg import branch_guards

    ctx.rule("R06n", "a suspended function stays suspended on the whole closed window: in Parameter.update the vector branch keeps exactly the indices with t < skip_function[0] or t > skip_function[1], and the scalar branch returns exactly when skip_function[0] <= t <= skip_function[1] - the two are complements of each other, so a step-by-step evaluation and a vector evaluation skip the same years (the first overwrite year included)")
    fi = repo.func("model", "Parameter.update")
    me = fi.params[0]
    env = {}
    for s_ in own_nodes(fi.node):
        if isinstance(s_, ast.Assign) and isinstance(s_.targets[0], ast.Tuple) and ast.unparse(s_.value) == "%s.skip_function" % me and len(s_.targets[0].elts) == 2:
            env[s_.targets[0].elts[0].id] = "%s.skip_function[0]" % me
            env[s_.targets[0].elts[1].id] = "%s.skip_function[1]" % me

    def canon(e):
        t = ast.unparse(e)
        import re

        for k, v in env.items():
            t = re.sub(r"\b%s\b" % k, v, t)
        return t

    t_ = "%s.t[ti]" % me
    lo, hi = "%s.skip_function[0]" % me, "%s.skip_function[1]" % me
    # scalar branch: the return that is guarded by comparisons of self.t[ti] with the window (not the `ti.size == 0` return)
    rets = [r for r in own_nodes(fi.node) if isinstance(r, ast.Return) and any("skip" in canon(t) and "size" not in canon(t) and t_ in canon(t) for t, p in branch_guards(r, stop=fi.node))]
    ok = len(rets) == 1
    if ok:
        gs = [(ast.parse(canon(t), mode="eval").body, p) for t, p in branch_guards(rets[0], stop=fi.node) if t_ in canon(t)]
        got = B.cond(gs)
        want = B.parse_cond("not (%s < %s) and not (%s > %s)" % (t_, lo, t_, hi))
        # express >= as not <, <= as not >
        ok = B.equivalent(got, want)
    ctx.check(ok, "R06n", fi, rets[0] if rets else fi.node, "scalar evaluation skipped exactly on [start, stop]", "the scalar branch of Parameter.update does not return exactly when skip_function[0] <= t <= skip_function[1]: the function is evaluated again at a boundary year of the window and overwrites the scenario value for that step", stmt_text="skip-scalar")
    masks = [s_ for s_ in own_nodes(fi.node) if isinstance(s_, ast.Assign) and astq.is_name(s_.targets[0], "ti") and isinstance(s_.value, ast.Subscript) and "skip" in canon(s_.value)]
    okv = len(masks) == 1
    if okv:
        m = masks[0].value.slice
        if isinstance(m, ast.Call) and ast.unparse(m.func) == "np.where" and m.args:
            m = m.args[0]
        mt = canon(m).replace("|", " or ").replace("&", " and ")
        try:
            got = B.parse_cond(mt)
            okv = B.equivalent(got, B.parse_cond("(%s < %s) or (%s > %s)" % (t_, lo, t_, hi)))
        except SyntaxError:
            okv = False
    ctx.check(okv, "R06n", fi, masks[0] if masks else fi.node, "vector evaluation keeps exactly the years outside [start, stop]", "the vector branch of Parameter.update does not keep exactly the indices with t < skip_function[0] or t > skip_function[1]", stmt_text="skip-vector")


def r06o(ctx, repo):
    from ..core import boolx as B
    from ..core.cfg import branch_guards

    ctx.rule("R06o", "which function parameters are evaluated in time for the run: Population.build calls set_dynamic(progset=progset) exactly for the parameters that have a function and drive a transition (links), are derivatives, are *timed* (their value sizes the keyring before the run), or are overwritten by a program in this population; every one of the four reasons is needed - a timed duration given by a function would otherwise be sized from the databook value, a program-overwritten function parameter evaluated after the run")
    fi = repo.func("model", "Population.build")
    me = fi.params[0]
    calls = [c for c in own_nodes(fi.node) if isinstance(c, ast.Call) and isinstance(c.func, ast.Attribute) and c.func.attr == "set_dynamic" and isinstance(c.func.value, ast.Name)]
    cand = []
    for c in calls:
        lp = enclosing_stmt(c)
        while lp is not None and not isinstance(lp, ast.For):
            lp = getattr(lp, "_parent", None)
        if lp is not None and ast.unparse(lp.iter) == "%s.pars" % me and isinstance(lp.target, ast.Name) and lp.target.id == c.func.value.id:
            cand.append((c, lp))
    ctx.require(len(cand) == 1, "R06o: the loop over self.pars that calls par.set_dynamic was not found exactly once in Population.build (%d)" % len(cand))
    c, lp = cand[0]
    p = lp.target.id
    g = B.cond(branch_guards(enclosing_stmt(c), stop=lp))
    want = B.parse_cond("%s.fcn_str and (%s.links or %s.derivative or framework.pars.at[%s.name, 'timed'] == 'y' or (not (progset is None) and (%s.name, %s.name) in progset.covouts))" % (p, p, p, p, p, me))
    ok = B.equivalent(g, want)
    ctx.check(ok, "R06o", fi, enclosing_stmt(c), "set_dynamic for function parameters with links / derivative / timed / program overwrite", "Population.build calls `%s.set_dynamic` under `%s`, not exactly for function parameters that have links, are derivatives, are timed, or are overwritten by a program in this population%s" % (p, " and ".join(("" if pol else "not ") + ast.unparse(t)[:120] for t, pol in branch_guards(enclosing_stmt(c), stop=lp)), ("; differing case: %s" % B.counterexample(g, want)) if not ok else ""), stmt_text="set_dynamic-decision")
