"""C11 - program coverage is a bounded, monotone function of spending (DESIGN 4, C11)."""
import ast

from ..core.loader import AnalysisError, own_nodes, norm, enclosing_stmt
from ..core import astq
from ..core import dims as D
from ..core import mono as Mo
from ..core.cfg import guards_of, EXIT
from . import common as K

EXPLANATION = (
    "R11a: the final clamp to 1 post-dominates every assignment of a program's fractional coverage (ProgramSet.get_prop_coverage), and both branches of "
    "Program.get_prop_covered end in a form bounded by 1. R11b: when a capacity constraint has data the returned capacity is np.minimum(constraint, capacity). "
    "R11c: an overwrite branch never reads the upstream quantity, so later-stage overwrites win. R11d (dimension algebra, all four combinations of program kind and "
    "constraint unit): get_capacity returns people; capacity and coverage overwrites become people / dimensionless after their dt factor. R11e: 'one-off' is decided "
    "only by Program.is_one_off; any other test of '/year' in a program field's units is a sibling disagreement. R11f: monotonicity lattice - capacity is non-decreasing in "
    "spending and non-increasing in unit cost, coverage is non-decreasing in capacity, under positive unit cost / saturation / dt.  The saturation curve's values are not decided."
)


def run(ctx):
    repo = ctx.repo
    ctx.each(r11a, ctx, repo)
    ctx.each(r11b, ctx, repo)
    ctx.each(r11c, ctx, repo)
    ctx.each(r11d, ctx, repo)
    ctx.each(r11e, ctx, repo, "R11e")
    ctx.each(r11f, ctx, repo)
    ctx.each(r11g, ctx, repo)
    ctx.each(r11h, ctx, repo)
    ctx.each(r11i, ctx, repo)
    ctx.each(r11j, ctx, repo)
    # the coverage the run uses is the one get_prop_covered defines (also for zero capacity / nobody eligible): no path of its own in update_pars
    from .c13 import r13a

    ctx.each(r13a, ctx, repo)
    from . import c09 as _c09

    ctx.each(_c09.r09b, ctx, repo, K.types(repo))  # spending in force at a time is the last value entered at or before it (stepped), for the program book and for overwrites alike
    from . import c20 as _c20

    ctx.each(_c20.r20e, ctx, repo)  # the number eligible that coverage is reported against is summed into a fresh array, never into the result's stored compartment sizes


def _is_one(e):
    return isinstance(e, ast.Constant) and e.value in (1, 1.0) and not isinstance(e.value, bool)


def bounded_by_one(v):
    """Value expression is bounded above by 1 by construction (idiom table)."""
    if isinstance(v, ast.Call):
        fn = ast.unparse(v.func)
        if fn in ("np.minimum", "min") and len(v.args) == 2 and any(_is_one(a) for a in v.args):
            return "np.minimum(., 1)"
        if fn == "np.clip" and len(v.args) == 3 and _is_one(v.args[2]):
            return "np.clip(., ., 1)"
        if fn == "np.clip" and any(k.arg in ("a_max", "max") and _is_one(k.value) for k in v.keywords):
            return "np.clip(a_max=1)"
        if fn == "np.divide" and len(v.args) == 2:
            where, out = astq.kwarg(v, "where"), astq.kwarg(v, "out")
            a, b = ast.unparse(v.args[0]), ast.unparse(v.args[1])
            if where is not None and out is not None and ast.unparse(where) in ("%s > %s" % (b, a), "%s < %s" % (a, b)) and isinstance(out, ast.Call) and ast.unparse(out.func) in ("np.ones_like", "np.ones"):
                return "np.divide(a, b, out=ones, where=b > a)"
    return None


def r11a(ctx, repo):
    ctx.rule("R11a", "coverage is clamped to 1: np.minimum(.,1) post-dominates every store of an entry of the returned dict in get_prop_coverage; every value returned by get_prop_covered is last defined by a bounded-by-1 idiom")
    fi = repo.func("programs", "ProgramSet.get_prop_coverage")
    cfg = K.cfg(repo, fi)
    rets = [r for r in own_nodes(fi.node) if isinstance(r, ast.Return) and isinstance(r.value, ast.Name)]
    ctx.require(len(rets) == 1, "R11a: get_prop_coverage: single `return <dict>` not found")
    dname = rets[0].value.id
    st = [(s, t, k, v) for s, t, k, v in astq.stores(fi.node) if isinstance(t, ast.Subscript) and astq.is_name(t.value, dname) and k in ("assign", "aug")]
    clamps = [s for s, t, k, v in st if k == "assign" and bounded_by_one(v) and ast.unparse(t) in ast.unparse(v)]
    others = [s for s, t, k, v in st if s not in clamps]
    ctx.require(others, "R11a: no coverage stores found in get_prop_coverage")
    if not clamps:
        ctx.fail("R11a", fi, others[0], "coverage entries are never clamped to 1 before being returned: fractional coverage above 100% reaches the outcome calculation", stmt_text="clamp-missing")
    else:
        cids = [i for c in clamps for i in cfg.ids(c)]
        loops = K.enclosing_loops(others[0])
        head = cfg.ids(loops[0]) if loops else []
        for s in others:
            ctx.check(not cfg.path_exists(cfg.ids(s), head + [EXIT], avoid_ids=cids), "R11a", fi, s, "clamp to 1 follows `%s` on every path" % norm(s)[:50], "coverage stored by `%s` can be returned without passing the clamp to 1" % norm(s)[:70])
    fi = repo.func("programs", "Program.get_prop_covered")
    rd = K.rdefs(repo, fi)
    rets = [r for r in own_nodes(fi.node) if isinstance(r, ast.Return) and r.value is not None]
    ctx.require(rets, "R11a: get_prop_covered has no return")
    n = 0
    for r in rets:
        if isinstance(r.value, ast.Name):
            for d in rd.reaching_at_stmt(r, r.value.id):
                ds = rd.def_stmt(d)
                ctx.require(ds is not None and isinstance(ds, ast.Assign), "R11a: returned name `%s` has a non-assignment definition" % r.value.id)
                n += 1
                idiom = bounded_by_one(ds.value)
                ctx.check(bool(idiom), "R11a", fi, ds, "returned coverage last defined by %s" % idiom, "the returned coverage is last defined by `%s`, which is not bounded by 1" % ast.unparse(ds.value)[:90])
        else:
            n += 1
            idiom = bounded_by_one(r.value)
            ctx.check(bool(idiom), "R11a", fi, r, "returned coverage is %s" % idiom, "the returned coverage `%s` is not bounded by 1" % ast.unparse(r.value)[:90])
    ctx.require(n >= 2, "R11a: fewer returned-coverage definitions (%d) than confirmed (2)" % n)


def r11b(ctx, repo):
    ctx.rule("R11b", "get_capacity: if the capacity constraint has data, the returned value is np.minimum(constraint, capacity) on every path")
    fi = repo.func("programs", "Program.get_capacity")
    me = K.self_name(fi)
    cfg = K.cfg(repo, fi)
    guard = [s for s in own_nodes(fi.node) if isinstance(s, ast.If) and ast.unparse(s.test) == "%s.capacity_constraint.has_data" % me]
    ctx.require(len(guard) == 1, "R11b: `if self.capacity_constraint.has_data` not found in get_capacity")
    g = guard[0]
    rets = [r for r in own_nodes(fi.node) if isinstance(r, ast.Return) and isinstance(r.value, ast.Name)]
    ctx.require(rets, "R11b: get_capacity does not return a name")
    rname = rets[0].value.id
    caps = [s for s in ast.walk(g) if isinstance(s, ast.Assign) and astq.is_name(s.targets[0], rname) and isinstance(s.value, ast.Call) and ast.unparse(s.value.func) in ("np.minimum", "min") and rname in [ast.unparse(a) for a in s.value.args]]
    if not caps:
        ctx.fail("R11b", fi, g, "with a capacity constraint present the returned capacity is not np.minimum(constraint, capacity): coverage can exceed what the constraint allows", stmt_text="cap-missing")
        return
    cap = caps[0]
    other = [a for a in cap.value.args if ast.unparse(a) != rname]
    cons_ok = other and isinstance(other[0], ast.Name) and any(isinstance(s, ast.Assign) and astq.is_name(s.targets[0], other[0].id) and "capacity_constraint.interpolate" in ast.unparse(s.value) for s in ast.walk(g))
    ctx.check(bool(cons_ok), "R11b", fi, cap, "cap uses the interpolated capacity constraint", "the cap `%s` does not use the program's capacity constraint" % norm(cap))
    starts = cfg.ids(g.body[0])
    leak = cfg.path_exists(starts, [i for r in rets for i in cfg.ids(r)], avoid_ids=cfg.ids(cap)) and g.body[0] is not cap
    ctx.check(not leak, "R11b", fi, cap, "cap is applied on every path through the constraint branch", "a path through the constraint branch returns without applying the cap")
    later = [s for s in own_nodes(fi.node) if isinstance(s, (ast.Assign, ast.AugAssign)) and astq.is_name(s.targets[0] if isinstance(s, ast.Assign) else s.target, rname) and s.lineno > cap.lineno]
    ctx.check(not later, "R11b", fi, later[0] if later else cap, "nothing redefines the capacity after the cap", "`%s` redefines the capacity after the cap" % (norm(later[0]) if later else ""))


def r11c(ctx, repo):
    ctx.rule("R11c", "overwrite precedence: the overwrite branch of get_alloc / get_capacities / get_prop_coverage does not read the upstream quantity")
    specs = [("ProgramSet.get_alloc", "alloc", ["get_spend", "spend_data"]), ("ProgramSet.get_capacities", "capacity", ["alloc", "spending", "get_capacity"]), ("ProgramSet.get_prop_coverage", "coverage", ["capacities", "num_eligible", "get_prop_covered"])]
    for q, field, upstream in specs:
        fi = repo.func("programs", q)
        branches = [s for s in own_nodes(fi.node) if isinstance(s, ast.If) and ("instructions.%s" % field) in ast.unparse(s.test)]
        ctx.require(len(branches) >= 1, "R11c: %s: test on instructions.%s not found" % (q, field))
        b = branches[0]
        t = ast.unparse(b.test)
        # the branch that uses the overwrite is the one containing instructions.<field>[...]
        over = b.orelse if any(("instructions.%s[" % field) in ast.unparse(s) for s in b.orelse) else b.body
        ctx.require(any(("instructions.%s[" % field) in ast.unparse(s) for s in over), "R11c: %s: overwrite branch not recognised" % q)
        txt = " ".join(ast.unparse(s) for s in over)
        import re

        reads = [u for u in upstream if re.search(r"\b%s\b" % re.escape(u), txt)]
        ctx.check(not reads, "R11c", fi, over[0], "%s overwrite ignores %s" % (field, "/".join(upstream)), "the %s overwrite branch reads %s: an explicit %s overwrite no longer takes precedence over the upstream stage" % (field, reads, field))
        # the default branch is taken exactly when there is no overwrite for this program
        ok_test = ("instructions is None" in t and "not in instructions.%s" % field in t) or ("in instructions.%s" % field in t)
        ctx.check(ok_test, "R11c", fi, b, "overwrite used exactly when present for the program", "unrecognised overwrite test `%s`" % t)


def _run_dims(fi, env, refine, want, ctx, rule, label, store_pred=None, call_hook=None):
    seen = [0]

    def on_return(s, d, env_):
        seen[0] += 1
        _judge(ctx, rule, fi, s, d, want, "%s: returned value" % label)

    def on_store(t, d, s, env_):
        if store_pred is not None and store_pred(t):
            seen[0] += 1
            env_["__last_store__"] = (d, s)

    def on_error(s, ex):
        ctx.fail(rule, fi, s, "%s: dimensionally inconsistent arithmetic: %s" % (label, ex.msg))

    w = D.DimWalker(refine=refine, on_store=on_store, on_error=on_error, on_return=None if store_pred else on_return, call_hook=call_hook)
    return w, seen


def _judge(ctx, rule, fi, s, d, want, label):
    if isinstance(d, D.Unknown):
        if any(f.rule == rule and f.function == fi.qualname for f in ctx.findings):
            return  # an inconsistency upstream was already reported; the value derived from it has no dimension
        raise AnalysisError("%s: %s: cannot compute the dimension of `%s`: %s" % (rule, fi.fq, norm(s)[:80], d.msg))
    if isinstance(d, D.DimError):
        return
    good = isinstance(d, D.Poly) or d == want
    ctx.check(good, rule, fi, s, "%s has dimension %r" % (label, want), "%s has dimension %r, expected %r (a dt factor is missing, duplicated or applied under the wrong program kind)" % (label, d, want))


def r11d(ctx, repo):
    ctx.rule("R11d", "dimension algebra over {one-off, continuous} x {constraint per year, absolute}: get_capacity returns people; capacity / coverage overwrites are people / dimensionless after their dt factor")
    fi = repo.func("programs", "Program.get_capacity")
    me = K.self_name(fi)
    ps = fi.params
    ctx.require("spending" in ps and "dt" in ps, "R11d: get_capacity lost its spending/dt parameters")
    n = 0
    for one_off in (True, False):
        for per_year in (True, False):
            env = {"spending": D.USD / D.Y, "dt": D.Y, "%s.unit_cost" % me: (D.USD / D.N) if one_off else (D.USD / D.N / D.Y), "%s.capacity_constraint" % me: (D.N / D.Y) if per_year else D.N}

            def refine(test, env_, one_off=one_off, per_year=per_year):
                t = ast.unparse(test)
                if t == "%s.is_one_off" % me:
                    return (dict(env_), None) if one_off else (None, dict(env_))
                if t == "not %s.is_one_off" % me:
                    return (None, dict(env_)) if one_off else (dict(env_), None)
                if t.replace('"', "'") == "'/year' in %s.capacity_constraint.units" % me:
                    return (dict(env_), None) if per_year else (None, dict(env_))
                return dict(env_), dict(env_)

            def hook(call, ev):
                if isinstance(call.func, ast.Attribute) and call.func.attr == "interpolate":
                    return ev.ev(call.func.value)
                return None

            label = "%s program, %s constraint" % ("one-off" if one_off else "continuous", "per-year" if per_year else "absolute")

            def on_return(s, d, env_, label=label):
                _judge(ctx, "R11d", fi, s, d, D.N, "get_capacity (%s): returned capacity" % label)

            def on_error(s, ex, label=label):
                ctx.fail("R11d", fi, s, "get_capacity (%s): %s" % (label, ex.msg))

            D.DimWalker(refine=refine, on_return=on_return, on_error=on_error, call_hook=hook).run(fi.node.body, env)
            n += 1
    # overwrites
    for q, field, raw_one_off, raw_cont, want in (("ProgramSet.get_capacities", "capacity", D.N / D.Y, D.N / D.Y, D.N), ("ProgramSet.get_prop_coverage", "coverage", D.ONE / D.Y, D.ONE, D.ONE)):
        f2 = repo.func("programs", q)
        ret = [r for r in own_nodes(f2.node) if isinstance(r, ast.Return) and isinstance(r.value, ast.Name)]
        ctx.require(ret, "R11d: %s does not return a dict name" % q)
        dname = ret[0].value.id
        for one_off in (True, False):
            # capacity overwrites are people/year for every program kind (ProgramInstructions docstring): continuous programs keep people/year == people-per-step-equivalent
            raw = raw_one_off if one_off else raw_cont
            want_here = want if (one_off or field == "coverage") else raw_cont
            finals = {}

            def refine(test, env_, one_off=one_off):
                t = ast.unparse(test)
                if t.endswith(".is_one_off") and not t.startswith("not "):
                    return (dict(env_), None) if one_off else (None, dict(env_))
                if t.startswith("not ") and t.endswith(".is_one_off"):
                    return (None, dict(env_)) if one_off else (dict(env_), None)
                if ("instructions.%s" % field) in t:
                    # take the overwrite branch: the test is "no overwrite" in the repo's phrasing
                    if "not in instructions" in t or "is None" in t:
                        return None, dict(env_)
                    return dict(env_), None
                return dict(env_), dict(env_)

            def hook(call, ev, raw=raw):
                if isinstance(call.func, ast.Attribute) and call.func.attr == "interpolate" and ("instructions.%s[" % field) in ast.unparse(call.func.value):
                    return raw
                if ast.unparse(call.func) in ("sc.odict", "dict"):
                    return D.ANY
                return None

            def on_store(t, d, s, env_):
                pass

            def on_error(s, ex, q=q):
                ctx.fail("R11d", f2, s, "%s: %s" % (q, ex.msg))

            env = {"dt": D.Y, "tvec": D.Y}
            loops = [l for l in own_nodes(f2.node) if isinstance(l, ast.For) and ast.unparse(l.iter).endswith(".programs.values()")]
            ctx.require(len(loops) == 1, "R11d: %s: loop over programs not found" % q)
            w = D.DimWalker(refine=refine, on_error=on_error, call_hook=hook)
            out_env = w.run(loops[0].body, env)
            d = None
            for k, v in out_env.items():
                if k.startswith(dname + "["):
                    d = v
            if d is None:
                d = out_env.get(dname)
            n += 1
            label = "%s (%s program)" % (q, "one-off" if one_off else "continuous")
            if d is None:
                if any(f.rule == "R11d" and f.function == f2.qualname for f in ctx.findings):
                    continue
                raise AnalysisError("R11d: %s: dimension of the %s overwrite could not be computed" % (label, field))
            ctx.check(isinstance(d, D.Poly) or d == want_here, "R11d", f2, loops[0], "%s: %s overwrite ends as %r" % (label, field, want_here), "%s: the %s overwrite ends with dimension %r, expected %r: its dt factor is applied under the wrong program kind (or missing)" % (label, field, d, want_here))
    ctx.require(n >= 8, "R11d: fewer dimension scenarios (%d) than planned (8)" % n)


ALLOWED_YEAR_TESTS = {
    ("programs", "Program.is_one_off"): "the definition of one-off (unit cost units)",
    ("programs", "Program.get_capacity"): "unit of the capacity constraint, not the program kind",
    ("programs", "ProgramSet._read_spending"): "consistency warning only; no decision depends on it",
}


def r11e(ctx, repo, rule):
    ctx.rule(rule, "one source of truth for the program kind: only Program.is_one_off tests '/year' in a program field's units (plus the capacity-constraint unit test in get_capacity)")
    n = 0
    for fi in repo.all_functions():
        if fi.module.name == "migration":
            continue
        for c in own_nodes(fi.node):
            if isinstance(c, ast.Compare) and len(c.ops) == 1 and isinstance(c.ops[0], (ast.In, ast.NotIn)) and isinstance(c.left, ast.Constant) and c.left.value == "/year" and ast.unparse(c.comparators[0]).endswith(".units"):
                n += 1
                key = (fi.module.name, fi.qualname)
                if key in ALLOWED_YEAR_TESTS:
                    if key == ("programs", "Program.get_capacity"):
                        ctx.check("capacity_constraint.units" in ast.unparse(c.comparators[0]), rule, fi, enclosing_stmt(c), "unit test of the capacity constraint", "get_capacity decides the program kind from `%s` instead of is_one_off" % ast.unparse(c.comparators[0]))
                    elif key == ("programs", "Program.is_one_off"):
                        ctx.check("unit_cost.units" in ast.unparse(c.comparators[0]), rule, fi, enclosing_stmt(c), "is_one_off is defined by the unit cost's units", "is_one_off is decided from `%s`, not from the unit cost" % ast.unparse(c.comparators[0]))
                    else:
                        ctx.ok(rule, fi, "allowed: %s" % ALLOWED_YEAR_TESTS[key], c)
                else:
                    ctx.fail(rule, fi, enclosing_stmt(c), "program kind decided by `%s` instead of Program.is_one_off: a program whose `%s` units contain '/year' is treated as one-off here and as continuous by the simulation (or vice versa)" % (ast.unparse(c), ast.unparse(c.comparators[0]).split(".")[-2]))
    ctx.require(n >= 2, "%s: fewer '/year' unit tests (%d) than confirmed (2)" % (rule, n))
    # every dt decision in programs.py goes through is_one_off
    for q in ("Program.get_capacity", "ProgramSet.get_capacities", "ProgramSet.get_prop_coverage"):
        fi = repo.func("programs", q)
        dts = [s for s in own_nodes(fi.node) if isinstance(s, ast.AugAssign) and astq.is_name(s.value, "dt")]
        for s in dts:
            gs = [ast.unparse(t) for t, pol in guards_of(s) if pol]
            ok = any(g.endswith(".is_one_off") for g in gs) or any("capacity_constraint.units" in g for g in gs)
            ctx.check(ok, rule, fi, s, "dt factor applied under is_one_off (or the constraint's unit)", "`%s` is not conditional on is_one_off" % norm(s))


def r11f(ctx, repo):
    ctx.rule("R11f", "monotonicity lattice: capacity non-decreasing in spending and non-increasing in unit cost; coverage non-decreasing in capacity (unit cost, saturation, dt > 0; eligible, spending, capacity >= 0)")
    fi = repo.func("programs", "Program.get_capacity")
    me = K.self_name(fi)
    base = {"dt": (Mo.CONST, Mo.POS), "tvec": (Mo.CONST, Mo.ANYS)}

    def run_capacity(var, one_off, has_cc, per_year):
        env = dict(base)
        env["spending"] = (Mo.INC if var == "spending" else Mo.CONST, Mo.NONNEG)
        uc = (Mo.INC if var == "unit_cost" else Mo.CONST, Mo.POS)
        cc = (Mo.CONST, Mo.NONNEG)

        def decide(test):
            t = ast.unparse(test).replace('"', "'")
            if t == "%s.is_one_off" % me:
                return one_off
            if t == "%s.capacity_constraint.has_data" % me:
                return has_cc
            if t == "'/year' in %s.capacity_constraint.units" % me:
                return per_year
            return None

        env["%s.unit_cost.interpolate(tvec, method='previous')" % me] = uc
        env["%s.capacity_constraint.interpolate(tvec, method='previous')" % me] = cc
        # generic: any interpolate on those series
        w = Mo.MonoWalker(decide)
        body = _rewrite_interpolates(fi.node.body, {"unit_cost": "__uc__", "capacity_constraint": "__cc__"})
        env["__uc__"] = uc
        env["__cc__"] = cc
        w.run(body, env)
        return w.returns

    n = 0
    for var, want in (("spending", {Mo.INC, Mo.CONST}), ("unit_cost", {Mo.DEC, Mo.CONST})):
        for one_off in (True, False):
            for has_cc in (True, False):
                rets = run_capacity(var, one_off, has_cc, True)
                ctx.require(rets, "R11f: get_capacity has no return under the scenario")
                for s, val in rets:
                    n += 1
                    if isinstance(val, Mo.MonoUnknown):
                        raise AnalysisError("R11f: get_capacity: unrecognised arithmetic shape: %s" % val)
                    ctx.check(val[0] in want, "R11f", fi, s, "capacity is %s in %s (%s, %s constraint)" % (val[0], var, "one-off" if one_off else "continuous", "with" if has_cc else "no"), "capacity is `%s` in %s (%s program, %s capacity constraint): coverage can fall when spending rises or unit cost falls" % (val[0], var, "one-off" if one_off else "continuous", "with" if has_cc else "without"))
    fi2 = repo.func("programs", "Program.get_prop_covered")
    me2 = K.self_name(fi2)
    for has_sat in (True, False):
        env = {"capacity": (Mo.INC, Mo.NONNEG), "eligible": (Mo.CONST, Mo.NONNEG), "tvec": (Mo.CONST, Mo.ANYS), "__sat__": (Mo.CONST, Mo.POS)}

        def decide(test, has_sat=has_sat):
            if ast.unparse(test) == "%s.saturation.has_data" % me2:
                return has_sat
            return None

        w = Mo.MonoWalker(decide)
        w.run(_rewrite_interpolates(fi2.node.body, {"saturation": "__sat__"}), env)
        ctx.require(w.returns, "R11f: get_prop_covered has no return")
        for s, val in w.returns:
            n += 1
            if isinstance(val, Mo.MonoUnknown):
                raise AnalysisError("R11f: get_prop_covered: unrecognised arithmetic shape: %s" % val)
            ctx.check(val[0] in (Mo.INC, Mo.CONST), "R11f", fi2, s, "coverage is %s in capacity (%s saturation)" % (val[0], "with" if has_sat else "no"), "coverage is `%s` in capacity (%s saturation): more capacity can mean less coverage" % (val[0], "with" if has_sat else "without"))
    ctx.require(n >= 10, "R11f: fewer monotonicity scenarios (%d) than planned (10)" % n)


def _rewrite_interpolates(body, mapping):
    """Copy of the statements with `<x>.<series>.interpolate(...)` replaced by a placeholder name (the series is a free, sign-constrained input)."""
    import copy

    class Tr(ast.NodeTransformer):
        def visit_Call(self, node):
            self.generic_visit(node)
            if isinstance(node.func, ast.Attribute) and node.func.attr == "interpolate" and isinstance(node.func.value, ast.Attribute) and node.func.value.attr in mapping:
                return ast.copy_location(ast.Name(id=mapping[node.func.value.attr], ctx=ast.Load()), node)
            return node

    out = []
    for s in body:
        fresh = ast.parse(ast.unparse(s)).body[0]  # a detached copy (the originals carry parent links into the whole module)
        ast.copy_location(fresh, s)
        for sub in ast.walk(fresh):
            if not hasattr(sub, "lineno") or True:
                sub.lineno = getattr(s, "lineno", 0)
        s2 = Tr().visit(fresh)
        ast.fix_missing_locations(s2)
        out.append(s2)
    return out


def _truth_uses(fn_node, name):
    """Places where the value of ``name`` is used as a bare truth value (if x / not x / x and .. / x or .. / while x / ternary)."""
    out = []
    for n in own_nodes(fn_node):
        tests = []
        if isinstance(n, (ast.If, ast.While, ast.IfExp)):
            tests.append(n.test)
        elif isinstance(n, ast.Assert):
            tests.append(n.test)
        elif isinstance(n, ast.comprehension):
            tests += n.ifs
        for t in tests:
            stack = [t]
            while stack:
                e = stack.pop()
                if isinstance(e, ast.BoolOp):
                    stack += e.values
                elif isinstance(e, ast.UnaryOp) and isinstance(e.op, ast.Not):
                    stack.append(e.operand)
                elif isinstance(e, ast.Name) and e.id == name:
                    out.append((n, t))
    return out


def r11g(ctx, repo):
    ctx.rule("R11g", "an overwrite of zero is an overwrite: in ProgramInstructions the value of a spending / capacity / coverage overwrite (the item of alloc.items(), capacity.items(), coverage.items()) is tested for presence with `is None` / `is not None` / isinstance only, never by truthiness (0 and 0.0 are falsy)")
    n = 0
    for fi in repo.module("programs").all_functions():
        if not fi.qualname.startswith("ProgramInstructions."):
            continue
        for l in own_nodes(fi.node):
            if isinstance(l, ast.For) and isinstance(l.iter, ast.Call) and isinstance(l.iter.func, ast.Attribute) and l.iter.func.attr == "items" and isinstance(l.target, ast.Tuple) and len(l.target.elts) == 2 and isinstance(l.target.elts[1], ast.Name):
                src = ast.unparse(l.iter.func.value)
                if not any(k in src for k in ("alloc", "capacity", "coverage")):
                    continue
                v = l.target.elts[1].id
                n += 1
                uses = [(st, t) for st, t in _truth_uses(fi.node, v) if any(x is st for x in ast.walk(l))]
                ctx.check(not uses, "R11g", fi, uses[0][0] if uses else l, "`%s` from %s.items() is never used as a truth value" % (v, src), "`%s` tests the overwrite value `%s` for truth: an overwrite of exactly 0 (defund the program, zero capacity, zero coverage) is dropped and the program-book value is used instead, so the explicit overwrite does not take precedence" % (ast.unparse(uses[0][1])[:60] if uses else "", v))
    ctx.require(n >= 3, "R11g: fewer overwrite loops in ProgramInstructions (%d) than confirmed (3)" % n)


def r11h(ctx, repo):
    from ..core import algebra as A

    ctx.rule("R11h", "saturation: Program.get_prop_covered applies the documented saturating curve 2*s/(1+exp(-2*c/s)) - s (c = capacity / eligible, s = saturation at the step, stepped interpolation) exactly when the program has saturation data, and capacity / eligible (1 where eligible <= capacity) otherwise")
    fi = repo.func("programs", "Program.get_prop_covered")
    me = K.self_name(fi)
    sat = [s for s in own_nodes(fi.node) if isinstance(s, ast.If) and ast.unparse(s.test) in ("%s.saturation.has_data" % me, "not %s.saturation.has_data" % me)]
    ctx.require(len(sat) == 1, "R11h: the saturation branch of get_prop_covered was not found")
    pos = ast.unparse(sat[0].test) == "%s.saturation.has_data" % me
    with_sat, without = (sat[0].body, sat[0].orelse) if pos else (sat[0].orelse, sat[0].body)
    # inside the saturated branch: c := capacity / eligible ; s := self.saturation.interpolate(tvec, 'previous') ; p := 2*s/(1+exp(-2*c/s)) - s
    assigns = [s for s in with_sat if isinstance(s, ast.Assign) and isinstance(s.targets[0], ast.Name)]
    svar = [s.targets[0].id for s in assigns if isinstance(s.value, ast.Call) and ast.unparse(s.value.func) == "%s.saturation.interpolate" % me]
    cvar = [s.targets[0].id for s in assigns if isinstance(s.value, ast.Call) and ast.unparse(s.value.func) == "np.divide" and [ast.unparse(a) for a in s.value.args[:2]] == [fi.params[2], fi.params[3]]]
    curve = [s for s in assigns if any(isinstance(c, ast.Call) and ast.unparse(c.func) in ("exp", "np.exp") for c in ast.walk(s.value))]
    ok = len(svar) == 1 and len(cvar) >= 1 and len(curve) == 1
    if ok:
        s_, c_ = svar[0], cvar[0]
        try:
            ok = A.poly(curve[0].value) == A.poly(A.parse("2 * %s / (1 + exp(-2 * %s / %s)) - %s" % (s_, c_, s_, s_)))
        except A.NotPolynomial:
            ok = False
        # the curve is applied to the quotient, after the quotient and the saturation are available
        ok = ok and curve[0].lineno > max(a.lineno for a in assigns if a.targets[0].id in (s_,)) and ast.unparse(curve[0].targets[0]) == c_
    ctx.check(ok, "R11h", fi, curve[0] if curve else sat[0], "saturated coverage = 2*s/(1+exp(-2*c/s)) - s", "`%s` is not the saturating curve 2*s/(1+exp(-2*c/s)) - s of the quotient capacity/eligible: coverage can exceed the saturation level (or is no longer capacity/eligible for small coverage)" % (norm(curve[0])[:90] if curve else "the saturated branch"))
    ctx.check(bool(with_sat) and bool(without) and any(isinstance(s, ast.Assign) and isinstance(s.value, ast.Call) and ast.unparse(s.value.func) == "np.divide" for s in without), "R11h", fi, sat[0], "without saturation data the coverage is the masked quotient", "the branch without saturation data does not compute capacity / eligible", stmt_text="no-saturation-branch")


def _selection(ctx, rule, fi, kind, default_pred, overwrite_pred):
    """The two stores into the returned mapping are selected by `instructions is None or prog.name not in instructions.<kind>` and its negation."""
    from ..core import boolx as B

    stores = [s for s in own_nodes(fi.node) if isinstance(s, ast.Assign) and isinstance(s.targets[0], ast.Subscript) and ast.unparse(s.targets[0].slice) == "prog.name"]
    d = [s for s in stores if default_pred(s)]
    o = [s for s in stores if overwrite_pred(s)]
    if len(d) != 1 or len(o) != 1:
        ctx.fail(rule, fi, fi.node, "%s: the default store and the overwrite store were not both found (default %d, overwrite %d)" % (fi.qualname, len(d), len(o)), stmt_text="selection-shape:%s" % kind)
        return
    lp = [l for l in K.enclosing_loops(d[0]) if ".programs" in ast.unparse(l.iter)]
    want_o = B.parse_cond("not (instructions is None) and prog.name in instructions.%s" % kind)
    want_d = B.parse_cond("instructions is None or not (prog.name in instructions.%s)" % kind)
    for st, want, name in ((d[0], want_d, "program-book value"), (o[0], want_o, "overwrite")):
        try:
            got = B.cond(guards_of(st, stop=lp[0] if lp else None))
            ok = B.equivalent(got, want)
            cx = B.counterexample(got, want)
        except ValueError:
            ok, cx = False, None
        ctx.check(ok, rule, fi, st, "%s used exactly when %s" % (name, "an overwrite exists" if st is o[0] else "no overwrite exists"), "`%s` (the %s) is selected under a condition that differs from `%s` (e.g. when %s): an explicit %s overwrite does not take precedence, or is applied to programs that have none" % (norm(st)[:60], name, "instructions has a %s entry for the program" % kind if st is o[0] else "instructions is None or has no %s entry" % kind, cx, kind))


def r11i(ctx, repo):
    ctx.rule("R11i", "overwrite selection: in ProgramSet.get_alloc / get_capacities / get_prop_coverage the instruction overwrite is used exactly when instructions exist and contain an entry for the program, the program-book computation exactly otherwise (truth table over the two atoms)")
    _selection(ctx, "R11i", repo.func("programs", "ProgramSet.get_alloc"), "alloc", lambda s: ".get_spend(" in ast.unparse(s.value), lambda s: "instructions.alloc[" in ast.unparse(s.value))
    _selection(ctx, "R11i", repo.func("programs", "ProgramSet.get_capacities"), "capacity", lambda s: ".get_capacity(" in ast.unparse(s.value), lambda s: "instructions.capacity[" in ast.unparse(s.value))
    _selection(ctx, "R11i", repo.func("programs", "ProgramSet.get_prop_coverage"), "coverage", lambda s: ".get_prop_covered(" in ast.unparse(s.value), lambda s: "instructions.coverage[" in ast.unparse(s.value))


def r11j(ctx, repo):
    from ..core import boolx as B

    ctx.rule("R11j", "ProgramInstructions keeps every overwrite it is given: for each (program, value) of alloc / capacity / coverage a TimeSeries value is stored as a deep copy and any other value as TimeSeries(t=start_year, vals=value), under the program's own name; an alloc value of None (and an empty TimeSeries) is the only thing skipped")
    fi = repo.func("programs", "ProgramInstructions.__init__")
    me = K.self_name(fi)
    n = 0
    for kind in ("alloc", "capacity", "coverage"):
        loops = [l for l in own_nodes(fi.node) if isinstance(l, ast.For) and ast.unparse(l.iter) == "%s.items()" % kind and isinstance(l.target, ast.Tuple)]
        if len(loops) != 1:
            ctx.fail("R11j", fi, fi.node, "the loop over %s.items() was not found in ProgramInstructions.__init__" % kind, stmt_text="pi-loop:%s" % kind)
            continue
        l = loops[0]
        k, v = (ast.unparse(x) for x in l.target.elts)
        # the loop runs whenever the argument is given
        g = B.cond(guards_of(l))
        want = B.parse_cond(kind if kind != "alloc" else "not isinstance(alloc, ProgramSet) and alloc")
        ctx.check(B.equivalent(g, want), "R11j", fi, l, "%s overwrites are read whenever the argument is given" % kind, "the loop over %s.items() runs under a condition other than `%s`: overwrites handed to the constructor are ignored" % (kind, "alloc given and not a ProgramSet" if kind == "alloc" else kind), stmt_text="pi-loop-guard:%s" % kind)
        stores = [s for s in ast.walk(l) if isinstance(s, ast.Assign) and ast.unparse(s.targets[0]) == "%s.%s[%s]" % (me, kind, k)]
        copy = [s for s in stores if ast.unparse(s.value) in ("sc.dcp(%s)" % v, "copy.deepcopy(%s)" % v, "%s.copy()" % v)]
        wrap = [s for s in stores if isinstance(s.value, ast.Call) and ast.unparse(s.value.func) == "TimeSeries" and astq.kwarg(s.value, "vals", pos=1) is not None and ast.unparse(astq.kwarg(s.value, "vals", pos=1)) == v and astq.kwarg(s.value, "t", pos=0) is not None and ast.unparse(astq.kwarg(s.value, "t", pos=0)) == "%s.start_year" % me]
        n += 1
        if len(copy) != 1 or len(wrap) != 1 or len(stores) != 2:
            ctx.fail("R11j", fi, l, "%s overwrites are not stored as exactly {deep copy of a TimeSeries, TimeSeries(t=start_year, vals=value)} under the program's name (stores: %s)" % (kind, [norm(s)[:50] for s in stores]), stmt_text="pi-stores:%s" % kind)
            continue
        is_ts = "isinstance(%s, TimeSeries)" % v
        if kind == "alloc":
            want_copy = B.parse_cond("%s and %s.has_data" % (is_ts, v))
            want_wrap = B.parse_cond("not (%s and %s.has_data) and not (%s is None)" % (is_ts, v, v))
        else:
            want_copy = B.parse_cond(is_ts)
            want_wrap = B.parse_cond("not %s" % is_ts)
        for st, want, what in ((copy[0], want_copy, "copied"), (wrap[0], want_wrap, "wrapped at the start year")):
            got = B.cond(guards_of(st, stop=l))
            ctx.check(B.equivalent(got, want), "R11j", fi, st, "%s value %s under the right test" % (kind, what), "`%s` is executed under a condition that differs from the expected one (differs e.g. when %s): a %s overwrite is dropped, stored in the wrong form, or shared with the caller's object" % (norm(st)[:60], B.counterexample(got, want), kind))
    ctx.require(n >= 3, "R11j: fewer overwrite kinds handled (%d) than confirmed (3)" % n)
