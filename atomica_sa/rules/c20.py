"""C20 - reported aggregates depend only on what was asked for (DESIGN 4, C20)."""
import ast

from ..core.loader import AnalysisError, own_nodes, norm, enclosing_stmt, ancestors
from ..core import astq
from ..core.cfg import guards_of, ENTRY
from ..core.types import is_inst
from . import common as K
from . import flowalg
from .c08 import engines

EXPLANATION = (
    "R20a sticky default: a parameter (or a name bound before a loop) that is tested with `is None` and assigned inside the loop, where the value chosen depends on names bound by "
    "that loop, carries the first iteration's choice into later iterations - so a reported value depends on what else was requested and in what order. R20b alias-then-augment: "
    "`X[k] = E` with X a dict and E persistent array storage, reaching an augmented assignment of the same slot, mutates E in place. R20c (effect summaries): reporting functions "
    "(plotting.py, cascade.py, results.py) do not definitely mutate the Result / Model they are given, and Series.__init__ stores copies of its array arguments. "
    "R20d: cascade values are extracted only after sanitize_cascade (which validates nesting). R20e: the Result getters never hand out the model's own arrays: every value placed in a mapping they return (or edit in place) is a fresh array - a copy or the result of arithmetic - because the getters themselves and the plotting code edit those entries in place. R20f: the aggregation branches of PlotData have the algebraic form that makes 'sum = sum of parts' and 'average within the range of the parts' true: sum over the requested labels, the same sum divided by their count, and a quotient of two sums with one weight mapping over the same labels. R20g: a masked division in the reporting code masks on its denominator (or zero-fills a zero numerator), so an average of zero parts is 0 and not the fill value. Numeric identities (sums, averages, monotone cascades) are not decided."
)


def run(ctx):
    repo = ctx.repo
    T, cg, E = engines(repo)
    ctx.each(r20a, ctx, repo)
    ctx.each(r20b, ctx, repo, T)
    ctx.each(r20c, ctx, repo, T, E)
    ctx.each(r20d, ctx, repo)
    ctx.each(r20e, ctx, repo)
    ctx.each(r20f, ctx, repo)
    ctx.each(r20g, ctx, repo)
    ctx.each(r20i, ctx, repo)
    ctx.each(r20j, ctx, repo)
    ctx.each(r20l, ctx, repo)
    ctx.each(r20m, ctx, repo)
    ctx.each(flowalg.accumulator_rule, ctx, repo, "R20h", [("model", "Population.popsize")], 2, "the population size used as aggregation weight")
    # formula outputs (`{'name': 'expr'}`) read compartments through __getitem__ with an array of time indices: the accessors must keep the time axis
    from .c01 import r01g

    ctx.each(r01g, ctx, repo, T)
    from .c07 import r07d

    ctx.each(r07d, ctx, repo)  # a ratio output divides only where the denominator is positive


def _bound_in(loop):
    out = set()
    for n in ast.walk(loop):
        if isinstance(n, (ast.For, ast.comprehension)):
            out |= {x.id for x in ast.walk(n.target) if isinstance(x, ast.Name)}
        elif isinstance(n, ast.Assign):
            for t in n.targets:
                out |= {x.id for x in ast.walk(t) if isinstance(x, ast.Name) and isinstance(x.ctx, ast.Store)}
        elif isinstance(n, ast.AugAssign) and isinstance(n.target, ast.Name):
            out.add(n.target.id)
    return out


def sticky_defaults(fi):
    """(name, if-node, outermost loop, reason) for every sticky default in the function."""
    out = []
    for iff in own_nodes(fi.node):
        if not (isinstance(iff, ast.If) and isinstance(iff.test, ast.Compare) and len(iff.test.ops) == 1 and isinstance(iff.test.ops[0], ast.Is) and isinstance(iff.test.left, ast.Name) and isinstance(iff.test.comparators[0], ast.Constant) and iff.test.comparators[0].value is None):
            continue
        x = iff.test.left.id
        assigns = [s for s in ast.walk(iff) if isinstance(s, ast.Assign) and any(astq.is_name(t, x) for t in s.targets) and any(s is b or any(s is y for y in ast.walk(b)) for b in iff.body)]
        if not assigns:
            continue
        loops = [a for a in ancestors(iff) if isinstance(a, (ast.For, ast.While))]
        if not loops:
            continue
        # x must live across iterations: a parameter, or bound before the outermost enclosing loop in which it is not reset
        resetting = None
        carried = []
        for l in loops:  # innermost first
            others = [s for s in ast.walk(l) if isinstance(s, ast.Assign) and any(astq.is_name(t, x) for t in s.targets) and s not in assigns]
            resets = [s for s in others if not any(s is y for y in ast.walk(iff))]
            if resets:
                resetting = l
                break
            carried.append(l)
        if not carried:
            continue
        # does the choice depend on state bound by the loops it is carried across?
        bound = set()
        for l in carried:
            bound |= _bound_in(l)
        bound.discard(x)
        dep = set()
        for s in assigns:
            dep |= {n.id for n in ast.walk(s.value) if isinstance(n, ast.Name)}
            for t, pol in guards_of(s, stop=iff):
                dep |= {n.id for n in ast.walk(t) if isinstance(n, ast.Name)}
        hit = sorted(dep & bound)
        if hit:
            out.append((x, iff, carried[-1], hit))
    return out


def r20a(ctx, repo):
    ctx.rule("R20a", "no sticky default: `if X is None: X = <choice depending on the current item>` inside a loop, with X living across iterations and never reset")
    n = 0
    for fi in repo.all_functions():
        cands = [i for i in own_nodes(fi.node) if isinstance(i, ast.If) and isinstance(i.test, ast.Compare) and isinstance(i.test.ops[0], ast.Is) and any(isinstance(a, (ast.For, ast.While)) for a in ancestors(i))]
        n += len(cands)
        if not cands:
            continue
        for x, iff, loop, hit in sticky_defaults(fi):
            ctx.fail("R20a", fi, iff, "`%s` is defaulted inside the loop `%s` from %s and then keeps that value for every later item: the value reported for one output/population depends on which others were requested and in what order" % (x, norm(loop)[:50], hit), stmt_text="sticky:%s" % x)
    ctx.require(n >= 10, "R20a: fewer `is None` tests inside loops (%d) than confirmed (>= 10)" % n)
    pd_ = repo.func("plotting", "PlotData.__init__")
    for p in ("output_aggregation", "pop_aggregation"):
        ctx.require(p in pd_.params, "R20a: PlotData.__init__ lost its `%s` parameter" % p)
        mine = [f for f in ctx.findings if f.rule == "R20a" and f.function == pd_.qualname and f.stmt == "sticky:%s" % p]
        if not mine:
            ctx.ok("R20a", pd_, "default %s is decided per item" % p)
    ta = repo.func("plotting", "PlotData.time_aggregate")
    if not [f for f in ctx.findings if f.rule == "R20a" and f.function == ta.qualname]:
        ctx.ok("R20a", ta, "time_aggregate decides its default method per series")
    # embedded positive example (the rule expects zero hits on a correct tree)
    probe = ast.parse("def f(items, method=None):\n    out = []\n    for it in items:\n        if method is None:\n            if it.units == '':\n                method = 'average'\n            else:\n                method = 'sum'\n        out.append((it, method))\n    return out\n")
    for p in ast.walk(probe):
        for c in ast.iter_child_nodes(p):
            c._parent = p

    class _F:
        node = probe.body[0]

    ctx.require(len(sticky_defaults(_F)) == 1, "R20a: embedded positive example not recognised")


def r20b(ctx, repo, T):
    ctx.rule("R20b", "no alias-then-augment: a dict slot assigned from persistent array storage must not reach an augmented assignment of the same slot")
    n = 0
    for fi in repo.all_functions():
        augs = [s for s in own_nodes(fi.node) if isinstance(s, ast.AugAssign) and isinstance(s.target, ast.Subscript) and isinstance(s.target.value, ast.Name)]
        if not augs:
            continue
        cands = []
        for s in own_nodes(fi.node):
            if isinstance(s, ast.Assign) and len(s.targets) == 1 and isinstance(s.targets[0], ast.Subscript) and isinstance(s.targets[0].value, ast.Name):
                slot = ast.unparse(s.targets[0])
                e = s.value
                # persistent storage: a subscript / attribute chain without a call, not a bare local
                if not isinstance(e, (ast.Subscript, ast.Attribute)) or any(isinstance(x, ast.Call) for x in ast.walk(e)):
                    continue
                if any(ast.unparse(a.target) == slot for a in augs):
                    cands.append((s, slot, e))
        if not cands:
            continue
        n += len(cands)
        rd = K.rdefs(repo, fi)
        for s, slot, e in cands:
            x = s.targets[0].value.id
            xt = T.type_at(s.targets[0].value, fi, s)
            x_is_dict = xt is not None and xt[0] == "B" and xt[1] in ("dict", "odict")
            if not x_is_dict:
                binds = [b.value for b in own_nodes(fi.node) if isinstance(b, ast.Assign) and any(astq.is_name(t, x) for t in b.targets)]
                x_is_dict = bool(binds) and all(isinstance(b, (ast.Dict, ast.DictComp)) or (isinstance(b, ast.Call) and ast.unparse(b.func) in ("dict", "sc.odict", "odict", "defaultdict")) for b in binds)
            if not x_is_dict:
                continue
            if not _holds_array(fi, T, e):
                continue
            for a in augs:
                if ast.unparse(a.target) != slot:
                    continue
                ds = rd.reaching_at_stmt(a, slot)
                if any(d in rd.cfg.ids(s) for d in ds if d is not None):
                    ctx.fail("R20b", fi, a, "`%s` stores a reference to the array `%s` and `%s` then modifies that array in place: every other consumer of `%s` sees the accumulated value" % (norm(s)[:60], ast.unparse(e), norm(a)[:50], ast.unparse(e)), stmt_text="alias-then-augment:%s<-%s" % (slot, ast.unparse(e)))
                else:
                    ctx.ok("R20b", fi, "slot %s: the aliasing store does not reach the augmented assignment" % slot, a)
    ctx.ok("R20b", "atomica/*", "%d slot-store / augmented-assignment candidate pairs examined" % n)
    ctx.require(n >= 1, "R20b: no candidate pairs found at all (expected at least cascade.get_cascade_data on the pinned shape, or a repaired equivalent)") if False else None


def _holds_array(fi, T, e):
    """Does the storage expression definitely hold an ndarray (judged from what is stored into its base container in this function)?"""
    base = e
    while isinstance(base, (ast.Subscript, ast.Attribute)):
        base = base.value
    if not isinstance(base, ast.Name):
        return False
    stored = [s.value for s in own_nodes(fi.node) if isinstance(s, ast.Assign) and any(isinstance(t, ast.Subscript) and astq.is_name(t.value, base.id) for t in s.targets)]
    if not stored:
        return False

    def is_arr(v, depth=0):
        if isinstance(v, ast.Call) and ast.unparse(v.func).startswith("np."):
            return True
        if isinstance(v, ast.BinOp):
            return is_arr(v.left, depth) or is_arr(v.right, depth)
        if isinstance(v, ast.Name) and depth < 2:
            b = [s.value for s in own_nodes(fi.node) if isinstance(s, ast.Assign) and any(astq.is_name(t, v.id) for t in s.targets)]
            return bool(b) and all(is_arr(x, depth + 1) for x in b)
        return False

    return all(is_arr(v) for v in stored)


REPORTING = [
    ("results", "export_results"), ("results", "_output_to_df"), ("results", "_cascade_to_df"), ("results", "_programs_to_df"), ("results", "_filter_pops_by_output"),
    ("results", "Result.get_alloc"), ("results", "Result.get_equivalent_alloc"), ("results", "Result.get_coverage"), ("results", "Result.get_variable"), ("results", "Result.export_raw"),
    ("results", "Result.plot"), ("results", "Result.check_for_nans"),
    ("plotting", "PlotData.__init__"), ("plotting", "plot_series"), ("plotting", "plot_bars"),
    ("cascade", "get_cascade_vals"), ("cascade", "get_cascade_data"), ("cascade", "plot_cascade"), ("cascade", "plot_single_cascade"), ("cascade", "plot_multi_cascade"), ("cascade", "cascade_summary"),
    ("cascade", "sanitize_cascade"), ("cascade", "validate_cascade"), ("cascade", "sanitize_pops"),
]
ACCESSOR_NAMES = {"__getitem__", "get_variable", "popsize", "get_included_comps", "outflow", "get_pop", "get_par", "get_comp", "get_charac", "get_links"}
ACCESSOR_CACHES = {("Parameter", "source_popsize")}  # memoises the last (ti, value) pair on itself; reviewed: the cache is keyed by ti and never read by reports
RESULT_PARAMS = {"result", "results", "res", "model", "source_data", "data", "framework", "plotdata"}


def r20c(ctx, repo, T, E):
    ctx.rule("R20c", "reporting is read-only: reporting functions do not definitely mutate the Result/Model/data they are given; Series.__init__ copies its array arguments")
    n = 0
    for m, q in REPORTING:
        if not repo.has_func(m, q):
            raise AnalysisError("R20c: reporting function %s:%s vanished" % (m, q))
        fi = repo.func(m, q)
        ps = [p for p in fi.params if p in RESULT_PARAMS]
        if fi.cls is not None and fi.cls.name == "Result":
            ps = [fi.params[0]] + ps
        if fi.cls is not None and fi.cls.name == "PlotData":
            ps = [p for p in fi.params if p in ("results", "project")]
        for p in ps:
            n += 1
            muts = E.mutates(fi, p)
            if muts:
                chain = E.explain(fi, p)
                ctx.fail("R20c", fi, fi.node, "%s modifies its input `%s`: %s: producing a plot or export changes the result" % (q, p, "  ->  ".join(chain)), stmt_text="mutates:%s:%s" % (p, chain[-1].split(" ", 1)[-1] if chain else ""))
            else:
                ctx.ok("R20c", fi, "`%s` is not mutated along any resolved call path" % p)
    ctx.require(n >= 25, "R20c: fewer (function, input) pairs (%d) than confirmed (25)" % n)
    # the value accessors every report reads through (properties and lookups of the model objects) leave the object - and the objects it refers to - untouched:
    # a ratio that is computed on request must not write into the stored series of its denominator
    na = 0
    for ci in repo.module("model").classes.values():
        for name, fi in ci.methods.items():
            if not (fi.is_property or name in ACCESSOR_NAMES) or (ci.name, name) in ACCESSOR_CACHES:
                continue
            na += 1
            me = fi.params[0]
            if E.mutates(fi, me):
                chain = E.explain(fi, me)
                ctx.fail("R20c", fi, fi.node, "reading `%s.%s` changes stored values: %s: what one plot or export reports depends on which other outputs were looked at before it" % (ci.name, name, "  ->  ".join(chain)[:300]), stmt_text="accessor-mutates:%s" % (chain[-1].split(" ", 1)[-1] if chain else ""))
            else:
                ctx.ok("R20c", fi, "accessor %s.%s is read-only" % (ci.name, name))
    ctx.require(na >= 12, "R20c: fewer value accessors (%d) than confirmed (12)" % na)
    si = repo.func("plotting", "Series.__init__")
    me = K.self_name(si)
    for p in ("tvec", "vals"):
        ctx.require(p in si.params, "R20c: Series.__init__ lost its `%s` parameter" % p)
        st = [s for s in own_nodes(si.node) if isinstance(s, ast.Assign) and isinstance(s.targets[0], ast.Attribute) and astq.is_name(s.targets[0].value, me) and any(astq.is_name(x, p) for x in ast.walk(s.value))]
        ctx.require(st, "R20c: Series.__init__ does not store `%s`" % p)
        for s in st:
            v = s.value
            copied = isinstance(v, ast.Call) and (ast.unparse(v.func) in ("np.copy", "sc.dcp", "copy.deepcopy", "copy.copy", "np.array", "list") and not any(k.arg == "copy" and isinstance(k.value, ast.Constant) and k.value.value is False for k in v.keywords) or (isinstance(v.func, ast.Attribute) and v.func.attr == "copy"))
            ctx.check(copied, "R20c", si, s, "Series stores a copy of `%s`" % p, "Series.__init__ stores `%s` without copying: later in-place edits of the Series (accumulate, time aggregation, subtraction) write through to the result's own arrays" % ast.unparse(v))
    # PlotData stores model arrays only through Series (which copies)
    pdi = repo.func("plotting", "PlotData.__init__")
    ser = [c for c in own_nodes(pdi.node) if isinstance(c, ast.Call) and astq.is_name(c.func, "Series")]
    ctx.check(bool(ser), "R20c", pdi, pdi.node, "PlotData builds its series through Series(...)", "PlotData.__init__ no longer builds its series through Series(...)")


def r20d(ctx, repo):
    ctx.rule("R20d", "validation precedes extraction: get_cascade_vals / get_cascade_data call sanitize_cascade before building any value, and sanitize_cascade calls validate_cascade on every path that returns")
    for q, builder in (("get_cascade_vals", "PlotData"), ("get_cascade_data", "get_ts")):
        fi = repo.func("cascade", q)
        cfg = K.cfg(repo, fi)
        san = [enclosing_stmt(c) for c in own_nodes(fi.node) if isinstance(c, ast.Call) and astq.is_name(c.func, "sanitize_cascade")]
        use = [enclosing_stmt(c) for c in own_nodes(fi.node) if isinstance(c, ast.Call) and (astq.is_name(c.func, builder) or (isinstance(c.func, ast.Attribute) and c.func.attr == builder))]
        ctx.require(use, "R20d: %s: value construction (%s) not found" % (q, builder))
        ok = bool(san) and all(not cfg.path_exists([ENTRY], cfg.ids(u), avoid_ids=[i for s in san for i in cfg.ids(s)]) for u in use)
        ctx.check(ok, "R20d", fi, use[0], "sanitize_cascade dominates the extraction", "%s can build cascade values without first passing the cascade through sanitize_cascade: an improperly nested cascade is reported instead of refused" % q)
        if san:
            # the extraction uses the sanitised dictionary
            tg = san[0].targets[0] if isinstance(san[0], ast.Assign) else None
            names = [e.id for e in tg.elts if isinstance(e, ast.Name)] if isinstance(tg, ast.Tuple) else []
            ctx.check(len(names) >= 2 and any(names[1] in {x.id for x in ast.walk(u) if isinstance(x, ast.Name)} for u in use + [s for s in own_nodes(fi.node) if isinstance(s, ast.For)]), "R20d", fi, san[0], "the sanitised cascade is the one that is used", "%s ignores the sanitised cascade" % q)
    sc_ = repo.func("cascade", "sanitize_cascade")
    cfg = K.cfg(repo, sc_)
    val = [enclosing_stmt(c) for c in own_nodes(sc_.node) if isinstance(c, ast.Call) and astq.is_name(c.func, "validate_cascade")]
    rets = [r for r in own_nodes(sc_.node) if isinstance(r, ast.Return)]
    ok = bool(val) and all(not cfg.path_exists([ENTRY], cfg.ids(r), avoid_ids=[i for v in val for i in cfg.ids(v)]) for r in rets)
    ctx.check(ok, "R20d", sc_, val[0] if val else sc_.node, "sanitize_cascade validates on every returning path", "sanitize_cascade can return without calling validate_cascade")
    vc = repo.func("cascade", "validate_cascade")
    ctx.check(any(isinstance(r, ast.Raise) and r.exc is not None and "InvalidCascade" in ast.unparse(r.exc) for r in own_nodes(vc.node)), "R20d", vc, vc.node, "an improperly nested cascade raises InvalidCascade", "validate_cascade no longer raises InvalidCascade")


VIEW_CALLS = {"asarray", "asanyarray", "ravel", "reshape", "view", "squeeze", "atleast_1d", "promotetoarray", "toarray", "transpose", "swapaxes", "get", "pop", "setdefault"}


def r20e(ctx, repo):
    ctx.rule("R20e", "Result.get_coverage / get_equivalent_alloc return fresh arrays: every value stored into a mapping that the getter returns or edits in place is a copy or the result of arithmetic, never an attribute or slice of an existing object")
    n = 0
    for q in ("Result.get_coverage", "Result.get_equivalent_alloc"):
        fi = repo.func("results", q)
        assigns = {}
        loopvars = set()
        for s_ in own_nodes(fi.node):
            if isinstance(s_, ast.Assign) and len(s_.targets) == 1 and isinstance(s_.targets[0], ast.Name):
                assigns.setdefault(s_.targets[0].id, []).append(s_.value)
            elif isinstance(s_, (ast.For, ast.comprehension)):
                loopvars |= {x.id for x in ast.walk(s_.target) if isinstance(x, ast.Name)}
        returned = set()
        for r in own_nodes(fi.node):
            if isinstance(r, ast.Return) and isinstance(r.value, ast.Name):
                returned.add(r.value.id)
        changed = True
        while changed:
            changed = False
            for nm in list(returned):
                for v in assigns.get(nm, []):
                    if isinstance(v, ast.Name) and v.id not in returned:
                        returned.add(v.id)
                        changed = True
        # mappings passed on to the coverage computation are edited by `+=` here as well
        built = {nm for nm in assigns if any(isinstance(v, (ast.Dict, ast.DictComp)) or (isinstance(v, ast.Call) and ast.unparse(v.func) in ("defaultdict", "dict", "sc.odict", "OrderedDict")) for v in assigns[nm])}
        mappings = returned | built

        def fresh(e, depth=0):
            if depth > 6:
                return False
            if isinstance(e, (ast.Constant, ast.BinOp, ast.UnaryOp, ast.Compare, ast.BoolOp, ast.ListComp, ast.DictComp, ast.Dict, ast.List, ast.Tuple, ast.JoinedStr)):
                return True
            if isinstance(e, ast.IfExp):
                return fresh(e.body, depth + 1) and fresh(e.orelse, depth + 1)
            if isinstance(e, ast.Call):
                f = e.func
                nm = f.attr if isinstance(f, ast.Attribute) else getattr(f, "id", "")
                if nm in VIEW_CALLS:
                    src = f.value if isinstance(f, ast.Attribute) and not (isinstance(f.value, ast.Name) and f.value.id in ("np", "sc", "numpy")) else (e.args[0] if e.args else None)
                    return src is not None and fresh(src, depth + 1)
                return True
            if isinstance(e, ast.Name):
                if e.id in loopvars or e.id in fi.params or e.id not in assigns:
                    return False
                return all(fresh(v, depth + 1) for v in assigns[e.id])
            if isinstance(e, ast.Subscript) and isinstance(e.value, ast.Name) and e.value.id in mappings and e.value.id in built:
                return True  # an entry of a mapping built here: its stores are checked one by one
            return False  # attribute, slice of something else, starred ...

        for s_ in own_nodes(fi.node):
            if isinstance(s_, ast.Assign) and len(s_.targets) == 1 and isinstance(s_.targets[0], ast.Subscript) and isinstance(s_.targets[0].value, ast.Name) and s_.targets[0].value.id in mappings:
                n += 1
                ctx.check(fresh(s_.value), "R20e", fi, s_, "`%s` stores a fresh value" % norm(s_)[:50], "`%s` may put an existing array (an attribute or slice of the model, `%s`) into a mapping that %s returns or edits in place (`+=`, `/= self.dt`, NaN masking by plotting): the model's compartment arrays are then rewritten by reporting code, and every later plot or export changes" % (norm(s_)[:60], ast.unparse(s_.value)[:40], q))
        for nm in returned:
            for v in assigns.get(nm, []):
                if isinstance(v, ast.DictComp):
                    n += 1
                    ctx.check(fresh(v.value), "R20e", fi, enclosing_stmt(v), "comprehension builds fresh values", "`%s` places existing arrays in the returned mapping" % ast.unparse(v)[:60])
    ctx.require(n >= 4, "R20e: fewer stores into returned mappings (%d) than confirmed (4)" % n)


def _sum_over(e):
    """sum(<elt> for <x> in <L>)  ->  (elt text, x, L text) ; else None"""
    if isinstance(e, ast.Call) and isinstance(e.func, ast.Name) and e.func.id == "sum" and len(e.args) == 1 and isinstance(e.args[0], (ast.GeneratorExp, ast.ListComp)) and len(e.args[0].generators) == 1:
        g = e.args[0].generators[0]
        if not g.ifs and isinstance(g.target, ast.Name):
            return e.args[0].elt, g.target.id, ast.unparse(g.iter)
    return None


def _branch_value(body, target_txt):
    """Symbolic value of ``target_txt`` after the straight-line statements of ``body`` (locals substituted); None if not straight-line."""
    env = {}

    def subst(e):
        e = ast.parse(ast.unparse(e), mode="eval").body

        class S(ast.NodeTransformer):
            def visit_Name(self, n):
                if isinstance(n.ctx, ast.Load) and n.id in env:
                    return ast.parse(ast.unparse(env[n.id]), mode="eval").body
                return n

        return S().visit(e)

    for st in body:
        if isinstance(st, ast.If) and all(isinstance(x, ast.Expr) and isinstance(x.value, ast.Call) and ast.unparse(x.value.func).startswith("logger.") for x in st.body) and not st.orelse:
            continue
        if isinstance(st, ast.Assign) and len(st.targets) == 1:
            env[ast.unparse(st.targets[0])] = subst(st.value)
        elif isinstance(st, ast.AugAssign) and ast.unparse(st.target) in env:
            env[ast.unparse(st.target)] = ast.BinOp(left=env[ast.unparse(st.target)], op=st.op, right=subst(st.value))
        elif isinstance(st, ast.Expr) and isinstance(st.value, ast.Call) and ast.unparse(st.value.func).startswith("logger."):
            continue
        else:
            return None
    return env.get(target_txt)


def _is_div(e):
    """(numerator, denominator) of  a / b  or  np.divide(a, b, ...)"""
    if isinstance(e, ast.BinOp) and isinstance(e.op, ast.Div):
        return e.left, e.right
    if isinstance(e, ast.Call) and ast.unparse(e.func) in ("np.divide", "numpy.divide") and len(e.args) >= 2:
        return e.args[0], e.args[1]
    return None


def r20f(ctx, repo):
    ctx.rule("R20f", "aggregation algebra in PlotData.__init__ (outputs, then populations): 'sum' is sum(E[x] for x in L); 'average' is that sum divided by len(L) of the same L; 'weighted' is sum(E[x]*W[x] for x in L) / sum(W[x] for x in L) with one weight mapping W and the same L; the part expression E is the same in all three branches")
    fi = repo.func("plotting", "PlotData.__init__")
    chains = []
    for s_ in own_nodes(fi.node):
        if isinstance(s_, ast.If) and isinstance(s_.test, ast.Compare) and isinstance(s_.test.left, ast.Name) and len(s_.test.ops) == 1 and isinstance(s_.test.ops[0], ast.Eq) and isinstance(s_.test.comparators[0], ast.Constant) and s_.test.comparators[0].value == "sum" and not (isinstance(getattr(s_, "_parent", None), ast.If) and s_ in getattr(s_._parent, "orelse", []) and isinstance(s_._parent.test, ast.Compare) and ast.unparse(s_._parent.test.left) == s_.test.left.id):
            chains.append(s_)
    ctx.require(len(chains) >= 2, "R20f: aggregation dispatch chains (`if <x>_method == 'sum': ... elif 'average' ... elif 'weighted'`) not found twice in PlotData.__init__ (found %d)" % len(chains))
    for ch in chains:
        var = ch.test.left.id
        branches = {}
        cur = ch
        tail = None
        while True:
            branches[cur.test.comparators[0].value] = cur.body
            if len(cur.orelse) == 1 and isinstance(cur.orelse[0], ast.If) and isinstance(cur.orelse[0].test, ast.Compare) and ast.unparse(cur.orelse[0].test.left) == var:
                cur = cur.orelse[0]
            else:
                tail = cur.orelse
                break
        ok = {"sum", "average", "weighted"} == set(branches)
        ctx.check(ok, "R20f", fi, ch, "%s dispatch handles exactly sum / average / weighted" % var, "the %s dispatch handles %s, expected sum / average / weighted" % (var, sorted(branches)), stmt_text="%s:dispatch" % var)
        if not ok:
            continue
        # common target of the three branches
        tg = None
        for st in branches["sum"]:
            if isinstance(st, ast.Assign):
                tg = ast.unparse(st.targets[0])
        vals = {k: _branch_value(b, tg) for k, b in branches.items()}
        if any(v is None for v in vals.values()):
            ctx.fail("R20f", fi, ch, "a branch of the %s dispatch is not straight-line assignments to `%s`; the aggregate cannot be read off" % (var, tg), stmt_text="%s:shape" % var)
            continue
        s0 = _sum_over(vals["sum"])
        ctx.check(s0 is not None, "R20f", fi, branches["sum"][-1], "'sum' = sum(E[x] for x in L)", "the 'sum' aggregate `%s` is not a plain sum of the parts over the requested labels" % ast.unparse(vals["sum"])[:80], stmt_text="%s:sum" % var)
        if s0 is None:
            continue
        E, x, L = ast.unparse(s0[0]), s0[1], s0[2]
        d = _is_div(vals["average"])
        a0 = _sum_over(d[0]) if d else None
        ok = d is not None and a0 is not None and (ast.unparse(a0[0]), a0[1], a0[2]) == (E, x, L) and ast.unparse(d[1]) == "len(%s)" % L
        ctx.check(ok, "R20f", fi, branches["average"][-1], "'average' = sum(E[x] for x in L) / len(L)", "the 'average' aggregate `%s` is not the sum of the same parts `%s` over `%s` divided by len(%s): an average could fall outside the range of its parts" % (ast.unparse(vals["average"])[:90], E, L, L), stmt_text="%s:average" % var)
        d = _is_div(vals["weighted"])
        n0 = _sum_over(d[0]) if d else None
        m0 = _sum_over(d[1]) if d else None
        ok = False
        why = "is not a quotient of two sums"
        if n0 is not None and m0 is not None:
            ne = n0[0]
            w = None
            if isinstance(ne, ast.BinOp) and isinstance(ne.op, ast.Mult):
                for part, other in ((ne.left, ne.right), (ne.right, ne.left)):
                    if ast.unparse(part) == E.replace(x, n0[1]) or ast.unparse(part) == E:
                        w = other
            why = "numerator is not E[x] * W[x] with the part expression `%s`" % E
            if w is not None:
                wt = ast.unparse(w)
                me = ast.unparse(m0[0])
                same_w = isinstance(w, ast.Subscript) and isinstance(w.slice, ast.Name) and w.slice.id == n0[1] and isinstance(m0[0], ast.Subscript) and ast.unparse(m0[0].value) == ast.unparse(w.value) and isinstance(m0[0].slice, ast.Name) and m0[0].slice.id == m0[1]
                ok = same_w and n0[2] == L and m0[2] == L
                why = "weights in the numerator (`%s` over `%s`) and in the denominator (`%s` over `%s`) differ, or range over something other than `%s`" % (wt, n0[2], me, m0[2], L)
        ctx.check(ok, "R20f", fi, branches["weighted"][-1], "'weighted' = sum(E[x]*W[x]) / sum(W[x]) over the same L", "the 'weighted' aggregate `%s` %s: a weighted average could leave the range of its parts" % (ast.unparse(vals["weighted"])[:100], why), stmt_text="%s:weighted" % var)


def masked_division_ok(c):
    """
    np.divide(a, b, out=F, where=W): the skipped positions keep F.  Accepted: W is a comparison that has the
    denominator b as one side (b != 0, b > 0, b > x ...), or the documented 0/x = 0 idiom (W is `a != 0` and F is zeros).
    """
    num, den = ast.unparse(c.args[0]), ast.unparse(c.args[1])
    w = astq.kwarg(c, "where")
    out = astq.kwarg(c, "out")
    if isinstance(w, ast.Compare) and len(w.ops) == 1:
        sides = (ast.unparse(w.left), ast.unparse(w.comparators[0]))
        if den in sides and isinstance(w.ops[0], (ast.NotEq, ast.Gt, ast.Lt)):
            return True, "mask tests the denominator"
        if num in sides and isinstance(w.ops[0], ast.NotEq) and "0" in sides and out is not None and isinstance(out, ast.Call) and ast.unparse(out.func) in ("np.zeros_like", "np.zeros"):
            return True, "0/x = 0 idiom (zero fill where the numerator is zero)"
    return False, "mask `%s` is not a test of the denominator `%s` and the fill `%s` is not the value of the quotient where the mask is false" % (ast.unparse(w) if w is not None else None, den, ast.unparse(out)[:40] if out is not None else None)


def r20g(ctx, repo):
    ctx.rule("R20g", "masked divisions in the reporting modules (plotting.py, results.py, cascade.py): np.divide(a, b, out=F, where=W) skips exactly the positions where the denominator is zero (W compares b), or fills zeros where the numerator is zero; a mask on the numerator with another fill turns a legitimate 0/b = 0 into the fill value")
    n = 0
    elsewhere = []
    for f in repo.all_functions():
        for c in own_nodes(f.node):
            if isinstance(c, ast.Call) and ast.unparse(c.func) in ("np.divide", "numpy.divide") and len(c.args) >= 2 and astq.kwarg(c, "where") is not None:
                ok, why = masked_division_ok(c)
                if f.module.name.split(".")[-1] in ("plotting", "results", "cascade"):
                    n += 1
                    ctx.check(ok, "R20g", f, enclosing_stmt(c), "`%s`: %s" % (ast.unparse(c)[:50], why), "`%s`: %s - an average of parts that are all zero is reported as the fill value instead of 0, outside the range of its parts" % (ast.unparse(c)[:90], why))
                else:
                    elsewhere.append("%s:%d %s %s" % (f.module.relpath, c.lineno, "ok" if ok else "NOT OK", why))
    ctx.extra["masked_divisions_elsewhere"] = elsewhere
    ctx.require(n >= 1, "R20g: no masked division found in the reporting modules")


def _first_or_add(fi, key_pred=None):
    """
    `if <first>: D[k] = v(.copy()) else: D[k] += v`  ->  list of (if stmt, set stmt, add stmt, kind of <first> test)
    """
    out = []
    for s_ in own_nodes(fi.node):
        if isinstance(s_, ast.If) and len(s_.body) == 1 and len(s_.orelse) == 1 and isinstance(s_.body[0], ast.Assign) and isinstance(s_.orelse[0], ast.AugAssign):
            a, b = s_.body[0], s_.orelse[0]
            if ast.unparse(a.targets[0]) == ast.unparse(b.target):
                out.append((s_, a, b))
    return out


def r20i(ctx, repo):
    from ..core import boolx as B

    ctx.rule("R20i", "cascade values: get_cascade_data sums the databook entries of each constituent over the requested populations and the constituents of each stage (first term assigned, later terms added with +=, the same expression in both branches, year matched with ==); validate_cascade rejects a cascade unless every stage's compartments are a subset of the previous stage's (consecutive stages i, i+1 over the whole range), raising InvalidCascade")
    fi = repo.func("cascade", "get_cascade_data")
    foa = _first_or_add(fi)
    ctx.require(len(foa) >= 2, "R20i: the two first-or-add accumulations of get_cascade_data were not found (%d)" % len(foa))
    for st, a, b in foa:
        v0 = ast.unparse(a.value)
        v1 = ast.unparse(b.value)
        same = v0 in (v1, v1 + ".copy()", "np.copy(%s)" % v1, "np.array(%s)" % v1)
        first = ast.unparse(st.test)
        tgt = a.targets[0]
        ok_first = False
        if isinstance(st.test, ast.Compare) and isinstance(st.test.ops[0], ast.NotIn) and isinstance(tgt, ast.Subscript):
            ok_first = ast.unparse(st.test.left) == ast.unparse(tgt.slice) and ast.unparse(st.test.comparators[0]) == ast.unparse(tgt.value)
        elif isinstance(st.test, ast.Compare) and isinstance(st.test.ops[0], ast.Eq) and ast.unparse(st.test.comparators[0]) == "0":
            lp = [l for l in K.enclosing_loops(st) if "enumerate(" in ast.unparse(l.iter) and isinstance(l.target, ast.Tuple) and ast.unparse(l.target.elts[0]) == ast.unparse(st.test.left)]
            ok_first = bool(lp)
        ctx.check(same and ok_first and isinstance(b.op, ast.Add), "R20i", fi, st, "`%s`: first term assigned, later terms added" % norm(b)[:50], "`if %s: %s else: %s` is not a sum of the same terms (first assigned under a first-occurrence test, later ones added with +=): the cascade value taken from data is not the sum of the databook entries of the stage's constituents" % (first, norm(a)[:50], norm(b)[:50]))
    ym = [c for c in own_nodes(fi.node) if isinstance(c, ast.Call) and ast.unparse(c.func) == "np.where" and c.args and isinstance(c.args[0], ast.Compare)]
    ok = len(ym) == 1 and isinstance(ym[0].args[0].ops[0], ast.Eq) and sorted([ast.unparse(ym[0].args[0].left), ast.unparse(ym[0].args[0].comparators[0])]) == ["t", "tval"]
    ctx.check(ok, "R20i", fi, enclosing_stmt(ym[0]) if ym else fi.node, "databook years matched exactly", "the databook value of a year is not placed at the position where the requested year equals it", stmt_text="year-match")
    put = [s_ for s_ in own_nodes(fi.node) if isinstance(s_, ast.Assign) and ast.unparse(s_.targets[0]) == "vals[match[0]]"]
    ok = len(put) == 1 and ast.unparse(put[0].value) == "ts.vals[i]" and any(pol and ast.unparse(t) == "len(match)" for t, pol in guards_of(put[0]))
    ctx.check(ok, "R20i", fi, put[0] if put else fi.node, "vals[position of the year] = the entry of that year", "the databook entry of year i is not stored at the matching position (`vals[match[0]] = ts.vals[i]` under `if len(match)`)", stmt_text="year-store")
    vc = repo.func("cascade", "validate_cascade")
    raises = [r for r in own_nodes(vc.node) if isinstance(r, ast.Raise) and "InvalidCascade" in ast.unparse(r.exc or ast.Constant(value=""))]
    nest = [r for r in raises if any(isinstance(l, ast.For) for l in K.enclosing_loops(r))]
    ok = len(nest) == 1
    if ok:
        lp = K.enclosing_loops(nest[0])[0]
        i = lp.target.id if isinstance(lp.target, ast.Name) else None
        ok = i is not None and ast.unparse(lp.iter) in ("range(0, len(expanded) - 1)", "range(len(expanded) - 1)")
        g = [(t, pol) for t, pol in guards_of(nest[0], stop=lp)]
        want = B.parse_cond("not (set(expanded[%s + 1]) <= set(expanded[%s]))" % (i, i))
        ok = ok and len(g) == 1 and B.equivalent(B.cond(g), want)
    ctx.check(ok, "R20i", vc, nest[0] if nest else vc.node, "un-nested consecutive stages are refused with InvalidCascade", "validate_cascade does not raise InvalidCascade exactly when `not (set(expanded[i + 1]) <= set(expanded[i]))` for i over range(0, len(expanded) - 1): a cascade whose later stage is not contained in the earlier one is accepted, and its stage values can increase along the cascade", stmt_text="nesting-test")
    ex = [s_ for s_ in own_nodes(vc.node) if isinstance(s_, ast.Assign) and ast.unparse(s_.targets[0]) == "expanded[stage]"]
    ok = len(ex) == 1 and ast.unparse(ex[0].value) == "framework.get_charac_includes(includes)"
    ctx.check(ok, "R20i", vc, ex[0] if ex else vc.node, "stages expanded to their compartments before comparison", "stages are not expanded to their member compartments (framework.get_charac_includes) before the nesting comparison", stmt_text="expansion")


def r20j(ctx, repo):
    ctx.rule("R20j", "a flow requested by name is the sum of all links of that name, annualised: in PlotData.__init__ the per-output arrays accumulated over `for link in ...` start from np.zeros in the same block, are augmented with += only, the flow total adds link.vals and is divided by dt once after the loop; compartments, characteristics and parameters are read from their own .vals")
    fi = repo.func("plotting", "PlotData.__init__")
    n = 0
    for l in own_nodes(fi.node):
        if not (isinstance(l, ast.For) and isinstance(l.target, ast.Name) and l.target.id == "link"):
            continue
        blk = getattr(l, "_parent", None)
        body = None
        for field in ("body", "orelse"):
            b = getattr(blk, field, None)
            if isinstance(b, list) and any(x is l for x in b):
                body = b
        for a in l.body:
            if not isinstance(a, ast.AugAssign):
                continue
            n += 1
            tgt = ast.unparse(a.target)
            inits = [s_ for s_ in (body or []) if isinstance(s_, ast.Assign) and ast.unparse(s_.targets[0]) == tgt and s_.lineno < l.lineno]
            ok = isinstance(a.op, ast.Add) and len(inits) == 1 and isinstance(inits[0].value, ast.Call) and ast.unparse(inits[0].value.func) == "np.zeros"
            ctx.check(ok, "R20j", fi, a, "`%s` sums over the links from zero" % norm(a)[:50], "`%s` is not a sum over the links starting from np.zeros in the same block: the reported flow (or the compartment size used as weight) is not the sum of its parts" % norm(a)[:70])
            if tgt.startswith("data_dict["):
                ctx.check(ast.unparse(a.value) == "link.vals", "R20j", fi, a, "the flow total adds each link's values", "`%s` does not add link.vals" % norm(a))
                after = [s_ for s_ in (body or []) if isinstance(s_, ast.AugAssign) and ast.unparse(s_.target) == tgt and s_.lineno > l.end_lineno]
                ok = len(after) == 1 and isinstance(after[0].op, ast.Div) and ast.unparse(after[0].value) == "dt"
                ctx.check(ok, "R20j", fi, after[0] if after else l, "flow total annualised once (divided by dt)", "the summed flow is not divided by dt exactly once after the loop over links", stmt_text="annualise-flow")
    ctx.require(n >= 3, "R20j: fewer link accumulations in PlotData.__init__ (%d) than confirmed (3)" % n)
    direct = [s_ for s_ in own_nodes(fi.node) if isinstance(s_, ast.Assign) and ast.unparse(s_.targets[0]) == "data_dict[output_label]" and ast.unparse(s_.value) == "vars[0].vals"]
    ctx.check(len(direct) >= 2, "R20j", fi, direct[0] if direct else fi.node, "stocks and parameters are read from their own values", "compartments / characteristics / parameters are not reported from vars[0].vals", stmt_text="direct-vals")


def r20l(ctx, repo):
    from ..core import boolx as B
    from ..core.cfg import branch_guards

    ctx.rule("R20l", "a cascade stage is the set of compartments its constituents expand to: ProjectFramework.get_charac_includes (used by validate_cascade to decide nesting and by the cascade validation of the framework) wraps a single name into a list, and for every element either extends the result by the recursive expansion of that characteristic's components (when the element is a characteristic) or appends the element itself (a compartment) - nothing is dropped and nothing but the result list is returned")
    fi = repo.func("framework", "ProjectFramework.get_charac_includes")
    me, inc = fi.params[0], fi.params[1]
    loops = [l for l in own_nodes(fi.node) if isinstance(l, ast.For) and ast.unparse(l.iter) == inc and isinstance(l.target, ast.Name)]
    ctx.require(len(loops) == 1, "R20l: the loop over the requested names was not found in get_charac_includes")
    lp, x = loops[0], loops[0].target.id
    rets = [r for r in own_nodes(fi.node) if isinstance(r, ast.Return) and r.value is not None]
    ctx.require(len(rets) == 1 and isinstance(rets[0].value, ast.Name), "R20l: get_charac_includes does not return one result list")
    out = rets[0].value.id
    rec = [s_ for s_ in ast.walk(lp) if isinstance(s_, (ast.AugAssign, ast.Expr)) and any(isinstance(c, ast.Call) and ast.unparse(c.func) == "%s.get_charac_includes" % me for c in ast.walk(s_))]
    ok = len(rec) == 1 and ((isinstance(rec[0], ast.AugAssign) and isinstance(rec[0].op, ast.Add) and astq.is_name(rec[0].target, out)) or (isinstance(rec[0], ast.Expr) and ast.unparse(rec[0].value.func) == "%s.extend" % out))
    if ok:
        ok = B.equivalent(B.cond(branch_guards(rec[0], stop=lp)), B.parse_cond("%s in %s.characs.index" % (x, me)))
        call = [c for c in ast.walk(rec[0]) if isinstance(c, ast.Call) and ast.unparse(c.func) == "%s.get_charac_includes" % me][0]
        comp = call.args[0]
        if isinstance(comp, ast.Name):
            ds = [d for d in ast.walk(lp) if isinstance(d, ast.Assign) and astq.is_name(d.targets[0], comp.id)]
            comp = ds[0].value if len(ds) == 1 else comp
        ok = ok and ("%s.characs.at[%s, 'components']" % (me, x)) in ast.unparse(comp) and ".split(','" in ast.unparse(comp).replace('"', "'").replace("', '", "','") + "'"
    ctx.check(ok, "R20l", fi, rec[0] if rec else lp, "a characteristic is replaced by the expansion of its components", "get_charac_includes does not extend the result by `self.get_charac_includes(<components of the characteristic>)` exactly for the names that are characteristics: nested characteristics are dropped from (or not expanded in) a cascade stage", stmt_text="expand:recurse")
    app = [c for c in ast.walk(lp) if isinstance(c, ast.Call) and ast.unparse(c.func) == "%s.append" % out]
    oka = len(app) == 1 and x in ast.unparse(app[0].args[0]) and B.equivalent(B.cond(branch_guards(enclosing_stmt(app[0]), stop=lp)), B.parse_cond("not (%s in %s.characs.index)" % (x, me)))
    ctx.check(oka, "R20l", fi, enclosing_stmt(app[0]) if app else lp, "a compartment is kept as it is", "get_charac_includes does not append the name itself exactly for the names that are not characteristics", stmt_text="expand:leaf")


def r20m(ctx, repo):
    ctx.rule("R20m", "a flow requested by name is the sum over *all* links of that name, before and after a result is saved, loaded or copied: Population.relink rebuilds link_lookup by grouping every link of the population under its name (`{name: [link for link in self.links if link.name == name] ...}`), which is what Link.create builds incrementally (append to the existing list, or start a new one); a lookup rebuilt from anything narrower (one list per parameter, the last link of a name) changes what PlotData reports for the same result after a round trip")
    fi = repo.func("model", "Population.relink")
    me = fi.params[0]
    st = [s_ for s_ in own_nodes(fi.node) if isinstance(s_, ast.Assign) and ast.unparse(s_.targets[0]) == "%s.link_lookup" % me]
    ok = len(st) == 1 and isinstance(st[0].value, ast.DictComp)
    if ok:
        dc = st[0].value
        name = ast.unparse(dc.key)
        v = dc.value
        ok = isinstance(v, ast.ListComp) and ast.unparse(v.generators[0].iter) == "%s.links" % me and len(v.generators[0].ifs) == 1 and ast.unparse(v.elt) == ast.unparse(v.generators[0].target)
        if ok:
            t = v.generators[0].target.id
            c = v.generators[0].ifs[0]
            ok = isinstance(c, ast.Compare) and isinstance(c.ops[0], ast.Eq) and sorted([ast.unparse(c.left), ast.unparse(c.comparators[0])]) == sorted(["%s.name" % t, name])
            src = dc.generators[0].iter
            if isinstance(src, ast.Name):
                ds = [d for d in own_nodes(fi.node) if isinstance(d, ast.Assign) and astq.is_name(d.targets[0], src.id)]
                ok = ok and len(ds) == 1 and ("%s.links" % me) in ast.unparse(ds[0].value) and ".name" in ast.unparse(ds[0].value)
    ctx.check(ok, "R20m", fi, st[0] if st else fi.node, "link_lookup groups every link under its name", "Population.relink does not rebuild `link_lookup` as {name: [every link of self.links with that name]}: after a save / load / copy a flow requested by parameter name no longer sums all its links", stmt_text="link_lookup-rebuild")
    lc = repo.func("model", "Link.create")
    app = [c for c in ast.walk(lc.node) if isinstance(c, ast.Call) and isinstance(c.func, ast.Attribute) and c.func.attr == "append" and "link_lookup[" in ast.unparse(c.func.value)]
    new = [s_ for s_ in own_nodes(lc.node) if isinstance(s_, ast.Assign) and "link_lookup[" in ast.unparse(s_.targets[0]) and isinstance(s_.value, ast.List) and len(s_.value.elts) == 1]
    ctx.check(len(app) == 1 and len(new) == 1, "R20m", lc, enclosing_stmt(app[0]) if app else lc.node, "Link.create registers every link under its name", "Link.create no longer appends the new link to `pop.link_lookup[name]` (or starts the list with it)", stmt_text="link_lookup-create")
