"""C19 - parameter functions can only do arithmetic with whitelisted functions (DESIGN 4, C19)."""
import ast

from ..core.loader import AnalysisError, own_nodes, norm, enclosing_stmt
from ..core import astq
from ..core import nodekinds as NK
from ..core.cfg import ENTRY, guards_of
from . import common as K

EXPLANATION = (
    "R19a (node-kind interpreter, exhaustive over the grammar): the set of AST node kinds parse_function lets through is computed by abstractly evaluating its validation "
    "loop once per node class of the running Python grammar (and per kind of the callee for Call); it must be a subset of the allowed kinds (Expression, BinOp, UnaryOp, BoolOp, "
    "Compare, IfExp, Name, Constant, Load, operator tokens, and Call whose callee is a Name checked against the whitelist, without keywords or starred arguments). "
    "R19b: the '__' / length guards and the validation walk dominate compile(); eval() is only reachable from the closure created after them. R19c: _DivTransformer rewrites every "
    "division (both operands are visited on both paths) and is applied to the whole tree before validation. R19d: eval receives the caller's mapping as globals and the whitelist as "
    "locals. R19e: evaluate_plot_string is default-deny: the accepted kinds are exactly Dict, List, string Constant and Load. R19f: every non-whitelisted Name is reported as a "
    "dependency. Numeric equality with real arithmetic is not decided."
)

ALLOWED = {"Expression", "BinOp", "UnaryOp", "BoolOp", "Compare", "IfExp", "Name", "Constant", "Call", "Load"}
ALLOWED_BASES = (ast.operator, ast.unaryop, ast.boolop, ast.cmpop)


def run(ctx):
    repo = ctx.repo
    ctx.each(r19a, ctx, repo)
    ctx.each(r19b, ctx, repo)
    ctx.each(r19c, ctx, repo)
    ctx.each(r19d, ctx, repo)
    ctx.each(r19e, ctx, repo)
    ctx.each(r19f, ctx, repo)
    ctx.each(r19g, ctx, repo)
    ctx.each(r19h, ctx, repo)
    ctx.each(r19i, ctx, repo)


def _walk_loop(fi):
    loops = [l for l in own_nodes(fi.node) if isinstance(l, ast.For) and isinstance(l.iter, ast.Call) and ast.unparse(l.iter.func) == "ast.walk" and isinstance(l.target, ast.Name)]
    if len(loops) != 1:
        raise AnalysisError("%s: expected exactly one `for node in ast.walk(tree)` loop, found %d" % (fi.fq, len(loops)))
    return loops[0]


def r19a(ctx, repo):
    ctx.rule("R19a", "accepted node kinds of parse_function are a subset of the allowed kinds; Call is accepted only with a Name callee checked against the whitelist, no keyword and no starred arguments")
    fi = repo.func("function_parser", "parse_function")
    loop = _walk_loop(fi)
    interp = NK.KindInterpreter(fi.module.tree, fi.node, loop)
    tab, sub = interp.table()
    kinds = NK.eval_mode_kinds()
    ctx.extra["exhaustive"] = True
    ctx.extra["domain"] = {"node_kinds": len(kinds), "call_callee_kinds": len(NK.expr_kinds())}
    ctx.extra["accepted_kinds"] = {k: repr(o) for k, o in sorted(tab.items()) if o.verdict == "accept"}
    ctx.extra["rejected_kinds"] = sorted(k for k, o in tab.items() if o.verdict == "reject")
    ctx.examine(len(kinds) + len(sub))
    for Kc in kinds:
        name = Kc.__name__
        o = tab[name]
        allowed = name in ALLOWED or issubclass(Kc, ALLOWED_BASES)
        if allowed:
            ctx.ok("R19a", fi, "%s: %r" % (name, o), loop)
            continue
        if o.verdict == "reject":
            ctx.ok("R19a", fi, "%s rejected (%s)" % (name, o.reason), loop)
        else:
            ctx.fail("R19a", fi, loop, "parse_function accepts a `%s` node (e.g. `%s`)%s: the validator only rejects what it names, so this construct reaches compile()/eval() where it can reach Python internals or the file system" % (name, NK.WITNESS.get(name, "?"), (" when " + " & ".join(o.conditions)) if o.conditions else ""), stmt_text="accepts:%s" % name)
    # Call: callee kinds and the whitelist condition
    call_sub = {c: o for (k, f, c), o in sub.items() if k == "Call" and f == "func"}
    if not call_sub:
        # the validator never looks at node.func's kind: decide Call as a whole
        o = tab["Call"]
        ctx.fail("R19a", fi, loop, "parse_function does not examine the callee of a Call node (e.g. `%s`): %r" % (NK.WITNESS["Call(func not a Name)"], o), stmt_text="accepts:Call(any callee)")
    else:
        bad = sorted(c for c, o in call_sub.items() if c != "Name" and o.verdict == "accept")
        if bad:
            ctx.fail("R19a", fi, loop, "parse_function accepts a call whose callee is not a plain name (callee kinds %s, e.g. `%s`): method calls and computed callees bypass the whitelist" % (", ".join(bad[:8]) + ("..." if len(bad) > 8 else ""), NK.WITNESS["Call(func not a Name)"]), stmt_text="accepts:Call(func not a Name)")
        else:
            ctx.ok("R19a", fi, "Call rejected for all %d non-Name callee kinds" % (len(call_sub) - 1), loop)
        nm = call_sub.get("Name")
        wl = nm is not None and nm.verdict == "accept" and any("supported_functions" in c for c in nm.conditions)
        ctx.check(wl, "R19a", fi, loop, "a Name callee is checked against supported_functions", "a call to a plain name is accepted without testing the name against supported_functions: %r" % nm)
        # keyword / starred arguments
        kw_ok = tab["keyword"].verdict == "reject" or (nm is not None and any("keywords" in c for c in nm.conditions))
        if not kw_ok and tab["keyword"].verdict == "accept":
            pass  # already reported as accepts:keyword
    ctx.require(len(kinds) >= 60, "R19a: the grammar domain shrank to %d kinds" % len(kinds))


def r19b(ctx, repo):
    ctx.rule("R19b", "guards precede evaluation: the '__' and length asserts and the validation walk dominate compile(); eval() occurs only in the closure defined after compile()")
    fi = repo.func("function_parser", "parse_function")
    cfg = K.cfg(repo, fi)
    comp = [s for s in own_nodes(fi.node) if isinstance(s, ast.Assign) and isinstance(s.value, ast.Call) and astq.is_name(s.value.func, "compile")]
    ctx.require(len(comp) == 1, "R19b: compile() call not found in parse_function")
    c = comp[0]
    p = fi.params[0]
    dunder = [a for a in own_nodes(fi.node) if isinstance(a, (ast.Assert, ast.If)) and "'__'" in ast.unparse(a.test).replace('"', "'") and p in ast.unparse(a.test)]
    length = [a for a in own_nodes(fi.node) if isinstance(a, (ast.Assert, ast.If)) and "len(%s)" % p in ast.unparse(a.test)]
    loop = _walk_loop(fi)
    for what, nodes in (("double-underscore guard", dunder), ("length guard", length), ("validation walk", [loop])):
        ok = bool(nodes) and not cfg.path_exists([ENTRY], cfg.ids(c), avoid_ids=[i for n in nodes for i in cfg.ids(n)])
        ctx.check(ok, "R19b", fi, nodes[0] if nodes else c, "%s dominates compile()" % what, "compile() is reachable without passing the %s: a string is compiled (and later evaluated) before it was checked" % what)
    # the dunder guard tests the raw string (before any rewriting)
    if dunder:
        first_rebind = [s for s in own_nodes(fi.node) if isinstance(s, ast.Assign) and astq.is_name(s.targets[0], p)]
        ctx.check(all(dunder[0].lineno < s.lineno for s in first_rebind), "R19b", fi, dunder[0], "'__' is tested on the original string", "the '__' guard runs after the string has been rewritten")
    evals = [(f, n) for f in [fi] + list(fi.nested.values()) for n in own_nodes(f.node) if isinstance(n, ast.Call) and astq.is_name(n.func, "eval")]
    ctx.require(evals, "R19b: eval() call not found")
    for f, n in evals:
        ok = f is not fi and f.node.lineno > c.lineno
        ctx.check(ok, "R19b", f, enclosing_stmt(n), "eval() only inside the closure created after validation", "eval() is called %s" % ("directly in parse_function" if f is fi else "in a closure defined before compile()"))
        ctx.check(n.args and astq.is_name(n.args[0], c.targets[0].id), "R19b", f, enclosing_stmt(n), "eval() evaluates the validated, compiled code object", "eval() evaluates `%s`, not the compiled validated tree" % (ast.unparse(n.args[0]) if n.args else "?"))
    # what is compiled is what was walked
    tree = ast.unparse(loop.iter.args[0]) if loop.iter.args else "?"
    ctx.check(c.value.args and ast.unparse(c.value.args[0]) == tree, "R19b", fi, c, "the tree that is compiled is the tree that was walked", "compile() receives `%s` but the validation walk covered `%s`" % (ast.unparse(c.value.args[0]) if c.value.args else "?", tree))


def r19c(ctx, repo):
    ctx.rule("R19c", "every division is rewritten: _DivTransformer.visit_BinOp visits both operands before deciding, returns a call to sdiv for Div, and is applied to the whole tree before the validation walk")
    vb = repo.func("function_parser", "_DivTransformer.visit_BinOp")
    cfg = K.cfg(repo, vb)
    node = vb.params[1]
    visits = {}
    for s in own_nodes(vb.node):
        if isinstance(s, ast.Assign) and isinstance(s.value, ast.Call) and ast.unparse(s.value.func) in ("self.visit", "self.generic_visit") and s.value.args:
            a = ast.unparse(s.value.args[0])
            if a in ("%s.left" % node, "%s.right" % node):
                visits[a] = s
    rets = [r for r in own_nodes(vb.node) if isinstance(r, ast.Return)]
    for side in ("left", "right"):
        s = visits.get("%s.%s" % (node, side))
        ok = s is not None and all(not cfg.path_exists([ENTRY], cfg.ids(r), avoid_ids=cfg.ids(s)) for r in rets)
        ctx.check(ok, "R19c", vb, s if s is not None else vb.node, "%s operand visited on every path" % side, "the %s operand of a BinOp is not transformed on every path: a division nested inside it keeps Python's `/` (ZeroDivisionError / inf instead of 0 for 0/0)" % side)
    div_ret = [r for r in rets if isinstance(r.value, ast.Call) and any(isinstance(x, ast.Name) and x.id == "name" or (isinstance(x, ast.Constant) and x.value == "sdiv") for x in ast.walk(r.value)) or (isinstance(r.value, ast.Call) and "sdiv" in ast.unparse(vb.node))]
    test = [s for s in own_nodes(vb.node) if isinstance(s, ast.If) and "ast.Div" in ast.unparse(s.test)]
    ctx.check(bool(div_ret) and bool(test), "R19c", vb, test[0] if test else vb.node, "Div is replaced by a call to sdiv", "visit_BinOp no longer replaces ast.Div by a call to sdiv")
    sd = [c for c in own_nodes(vb.node) if isinstance(c, ast.Call) and ast.unparse(c.func) == "ast.Name" and c.args and isinstance(c.args[0], ast.Constant)]
    ctx.check(bool(sd) and sd[0].args[0].value == "sdiv", "R19c", vb, enclosing_stmt(sd[0]) if sd else vb.node, "the replacement calls the name `sdiv`", "the replacement for division calls `%s`" % (sd[0].args[0].value if sd else "?"))
    fi = repo.func("function_parser", "parse_function")
    cfg2 = K.cfg(repo, fi)
    tr = [s for s in own_nodes(fi.node) if isinstance(s, ast.Assign) and "_DivTransformer().visit(" in ast.unparse(s.value)]
    loop = _walk_loop(fi)
    comp = [s for s in own_nodes(fi.node) if isinstance(s, ast.Assign) and isinstance(s.value, ast.Call) and astq.is_name(s.value.func, "compile")]
    ok = bool(tr) and bool(comp) and not cfg2.path_exists([ENTRY], cfg2.ids(loop) + cfg2.ids(comp[0]), avoid_ids=cfg2.ids(tr[0]))
    ctx.check(ok, "R19c", fi, tr[0] if tr else fi.node, "transformer applied to the whole tree before validation and compile", "the division transformer is not applied before the tree is validated and compiled")
    # sdiv is in the whitelist (the validator will see the inserted calls)
    sf = fi.module.tree
    wl = [s for s in sf.body if isinstance(s, ast.Assign) and astq.is_name(s.targets[0], "supported_functions") and isinstance(s.value, ast.Dict)]
    ctx.require(wl, "R19c: supported_functions dict literal not found")
    keys = {k.value for k in wl[0].value.keys if isinstance(k, ast.Constant)}
    ctx.check("sdiv" in keys, "R19c", fi, wl[0], "sdiv is whitelisted", "sdiv is not in supported_functions: every expression with a division is rejected")
    ctx.extra["whitelist"] = sorted(keys)


def r19d(ctx, repo):
    ctx.rule("R19d", "evaluation scope: eval(code, <caller's mapping>, supported_functions) - no other name source")
    fi = repo.func("function_parser", "parse_function")
    for f in fi.nested.values():
        for n in own_nodes(f.node):
            if isinstance(n, ast.Call) and astq.is_name(n.func, "eval"):
                kw = f.node.args.kwarg.arg if f.node.args.kwarg else None
                ok = len(n.args) == 3 and kw is not None and astq.is_name(n.args[1], kw) and astq.is_name(n.args[2], "supported_functions")
                ctx.check(ok, "R19d", f, enclosing_stmt(n), "globals = the dependencies passed in, locals = the whitelist", "eval() is given `%s` as its namespaces: names other than the dependencies and the whitelist become reachable" % ", ".join(ast.unparse(a) for a in n.args[1:]))
    ctx.note("R19d", "Python adds __builtins__ to the globals mapping handed to eval(); this is why the node validation (R19a) must be default-deny")


PLOT_ALLOWED = {"Expression", "Dict", "List", "Constant", "Load"}


def r19e(ctx, repo):
    ctx.rule("R19e", "evaluate_plot_string is default-deny: accepted node kinds are exactly the root, Dict, List, string Constant and Load")
    fi = repo.func("utils", "evaluate_plot_string")
    loop = _walk_loop(fi)
    root = ast.unparse(loop.iter.args[0]) if loop.iter.args else None
    interp = NK.KindInterpreter(fi.module.tree, fi.node, loop, root_name=root)
    tab, sub = interp.table()
    acc = {k for k, o in tab.items() if o.verdict == "accept"}
    extra = sorted(acc - PLOT_ALLOWED)
    ctx.examine(len(tab))
    ctx.check(not extra, "R19e", fi, loop, "accepted kinds: %s" % sorted(acc), "evaluate_plot_string lets %s nodes through to eval()" % extra, )
    ctx.check(tab["Constant"].verdict == "accept" and any("str" in c for c in tab["Constant"].conditions), "R19e", fi, loop, "only string constants", "evaluate_plot_string accepts constants of any type: %r" % tab["Constant"])
    cfg = K.cfg(repo, fi)
    evals = [enclosing_stmt(n) for n in own_nodes(fi.node) if isinstance(n, ast.Call) and astq.is_name(n.func, "eval")]
    ctx.require(evals, "R19e: eval() not found in evaluate_plot_string")
    for e in evals:
        ctx.check(not cfg.path_exists([ENTRY], cfg.ids(e), avoid_ids=cfg.ids(loop)), "R19e", fi, e, "validation walk dominates eval()", "eval() is reachable without the validation walk")
    ctx.extra["plot_string_accepted_kinds"] = sorted(acc)


def r19f(ctx, repo):
    ctx.rule("R19f", "every Name that is not whitelisted is appended to the returned dependency list")
    fi = repo.func("function_parser", "parse_function")
    loop = _walk_loop(fi)
    v = loop.target.id
    app = [c for c in ast.walk(loop) if isinstance(c, ast.Call) and isinstance(c.func, ast.Attribute) and c.func.attr == "append" and c.args and ast.unparse(c.args[0]) == "%s.id" % v]
    ctx.require(app, "R19f: dependency append not found")
    from ..core.cfg import guards_of

    from ..core.regions import split_conjuncts

    gs = [ast.unparse(c) for t, pol in guards_of(enclosing_stmt(app[0]), stop=loop, asserts=False) if pol for c in split_conjuncts(t)]
    ok = set(gs) == {"isinstance(%s, ast.Name)" % v, "%s.id not in supported_functions" % v}
    ctx.check(ok, "R19f", fi, enclosing_stmt(app[0]), "names outside the whitelist become dependencies", "the dependency list is filled under `%s`" % " and ".join(gs))
    lst = ast.unparse(app[0].func.value)
    rets = [r for r in own_nodes(fi.node) if isinstance(r, ast.Return) and r.value is not None]
    ctx.check(all(lst in [ast.unparse(e) for e in (r.value.elts if isinstance(r.value, ast.Tuple) else [r.value])] for r in rets), "R19f", fi, rets[0], "the dependency list is returned", "parse_function does not return the dependency list it built")


def _accept_conditions(fi, loop):
    """
    Acceptance tests of the validation walk: for every `assert T` -> T, for every `if C: raise` -> not C, each together with
    the conditions under which the test is reached inside the loop.  -> list of (stmt, reach Cond guards, accept expr, negate)
    """
    def branch_guards(st):
        """conditions of the enclosing if/elif branches only (not of earlier asserts or early exits)"""
        g = []
        child, parent = st, getattr(st, "_parent", None)
        while parent is not None and parent is not loop:
            if isinstance(parent, ast.If):
                if any(child is x for x in parent.body):
                    g.append((parent.test, True))
                elif any(child is x for x in parent.orelse):
                    g.append((parent.test, False))
            child, parent = parent, getattr(parent, "_parent", None)
        return g

    out = []
    for s in ast.walk(loop):
        if isinstance(s, ast.Assert):
            out.append((s, branch_guards(s), s.test, False))
        elif isinstance(s, ast.If) and s.body and isinstance(s.body[-1], ast.Raise) and not s.orelse:
            out.append((s, branch_guards(s), s.test, True))
    return out


def r19g(ctx, repo):
    from ..core import boolx as B
    from ..core.cfg import guards_of as _g

    ctx.rule("R19g", "polarity and content of every test of the validator (truth tables): the raw string is accepted only if it has no '__' and is shorter than the limit; a node is accepted only if it is an allowed kind; a Constant only if numeric; a Call only if its callee is a plain Name AND that name is in supported_functions AND it has no keywords; a Name that is not a supported function is reported as a dependency. sdiv fills 0 exactly where the numerator is 0; visit_BinOp replaces exactly the Div operators")
    fi = repo.func("function_parser", "parse_function")
    p = fi.params[0]

    def accept_of(stmt):
        if isinstance(stmt, ast.Assert):
            return B.of(stmt.test)
        c = B.of(stmt.test)
        return B.Cond(lambda env, c=c: not c(env), c.atoms)

    pre = [s for s in fi.node.body if isinstance(s, (ast.Assert, ast.If)) and p in ast.unparse(s.test if isinstance(s, (ast.Assert, ast.If)) else s) and (isinstance(s, ast.Assert) or (s.body and isinstance(s.body[-1], ast.Raise)))]
    d = [s for s in pre if "__" in ast.unparse(s.test)]
    ok = len(d) == 1 and B.implies(accept_of(d[0]), B.parse_cond("not ('__' in %s)" % p))
    ctx.check(ok, "R19g", fi, d[0] if d else fi.node, "accepted only without a double underscore", "the double-underscore guard does not accept exactly the strings without '__' (accept condition: `%s`): strings containing a double underscore reach eval" % (ast.unparse(d[0].test) if d else "missing"), stmt_text="guard:dunder")
    ln = [s for s in pre if "len(%s)" % p in ast.unparse(s.test)]
    okl = len(ln) == 1 and isinstance(ln[0], ast.Assert) and isinstance(ln[0].test, ast.Compare) and isinstance(ln[0].test.ops[0], (ast.Lt, ast.LtE)) and ast.unparse(ln[0].test.left) == "len(%s)" % p and isinstance(ln[0].test.comparators[0], ast.Constant)
    ctx.check(okl, "R19g", fi, ln[0] if ln else fi.node, "accepted only below the length limit", "the length guard is not `len(%s) < <limit>`" % p, stmt_text="guard:length")
    loop = _walk_loop(fi)
    n = loop.target.id
    tests = _accept_conditions(fi, loop)

    def find(pred):
        return [(s, g, t, neg) for s, g, t, neg in tests if pred(ast.unparse(t))]

    def check(name, found, want_accept, want_reach, why):
        if len(found) != 1:
            ctx.fail("R19g", fi, loop, "the validator's test for %s was not found exactly once (%d)" % (name, len(found)), stmt_text="test-missing:%s" % name)
            return
        s, g, t, neg = found[0]
        acc = B.of(t)
        if neg:
            acc = B.Cond(lambda env, c=acc: not c(env), acc.atoms)
        # "accepted only if": the acceptance condition may be stricter than the stated one, never weaker; it must be reached by every node of the stated kind
        ok = B.implies(acc, B.parse_cond(want_accept)) and ((not g) if want_reach is None else B.implies(B.parse_cond(want_reach), B.cond(g)))
        ctx.check(ok, "R19g", fi, s, "%s: accepted iff %s" % (name, want_accept), "the validator's test for %s accepts under `%s%s` reached when %s; expected accept iff `%s` for every node with `%s`: %s" % (name, "not " if neg else "", ast.unparse(t)[:90], [("%s" % ast.unparse(a)[:40], b) for a, b in g], want_accept, want_reach, why), stmt_text="test:%s" % name)

    name_dep = "isinstance(%s, ast.Name) and %s.id not in supported_functions" % (n, n)
    not_dep = "not (isinstance(%s, ast.Name) and not (%s.id in supported_functions))" % (n, n)
    check("node kind", find(lambda t: "_allowed_nodes" in t), "isinstance(%s, _allowed_nodes)" % n, None, "a construct outside the allowed kinds reaches eval")
    check("constants", find(lambda t: "%s.value" % n in t), "isinstance(%s.value, (int, float))" % n, "%s and isinstance(%s, ast.Constant)" % (not_dep, n), "a string or bytes constant reaches eval")
    check("call target", find(lambda t: "%s.func" % n in t), "isinstance(%s.func, ast.Name) and %s.func.id in supported_functions" % (n, n), "%s and not isinstance(%s, ast.Constant) and isinstance(%s, ast.Call)" % (not_dep, n, n), "a call to an unlisted function (or through an attribute / subscript / call result) is accepted and executed")
    check("call keywords", find(lambda t: "%s.keywords" % n in t), "not %s.keywords" % n, "%s and not isinstance(%s, ast.Constant) and isinstance(%s, ast.Call)" % (not_dep, n, n), "keyword arguments are accepted")
    deps = [c for c in ast.walk(loop) if isinstance(c, ast.Call) and isinstance(c.func, ast.Attribute) and c.func.attr == "append"]
    okd = len(deps) == 1 and ast.unparse(deps[0].args[0]) == "%s.id" % n and B.equivalent(B.cond(guards_of(enclosing_stmt(deps[0]), stop=loop, asserts=False)), B.parse_cond("isinstance(%s, ast.Name) and not (%s.id in supported_functions)" % (n, n)))
    ctx.check(okd, "R19g", fi, enclosing_stmt(deps[0]) if deps else loop, "every non-function name is a dependency", "the dependency list does not receive node.id exactly for the Names that are not supported functions", stmt_text="deps")
    # sdiv
    sd = repo.func("function_parser", "sdiv")
    num, den = sd.params[:2]
    rets = [r for r in own_nodes(sd.node) if isinstance(r, ast.Return)]
    oks = len(rets) >= 1
    for r in rets:
        c = r.value
        good = isinstance(c, ast.Call) and ast.unparse(c.func) == "np.divide" and [ast.unparse(a) for a in c.args[:2]] == [num, den]
        if good:
            w, o = astq.kwarg(c, "where"), astq.kwarg(c, "out")
            good = w is not None and B.equivalent(B.of(w), B.parse_cond("not (%s == 0)" % num)) and o is not None and isinstance(o, ast.Call) and ast.unparse(o.func) in ("np.zeros_like", "np.zeros")
        ctx.check(good, "R19g", sd, r, "sdiv = numerator / denominator with 0 exactly where the numerator is 0", "`%s` is not np.divide(%s, %s, out=<zeros>, where=%s != 0): division no longer returns 0 when the numerator is 0 (or returns 0 elsewhere)" % (norm(r)[:90], num, den, num))
        oks = oks and good
    # transformer polarity
    vb = repo.func("function_parser", "_DivTransformer.visit_BinOp")
    node = vb.params[1]
    rets = [r for r in own_nodes(vb.node) if isinstance(r, ast.Return)]
    keep = [r for r in rets if ast.unparse(r.value) == node]
    repl = [r for r in rets if isinstance(r.value, ast.Call) and ast.unparse(r.value.func) == "ast.Call"]
    okt = len(keep) == 1 and len(repl) == 1
    if okt:
        okt = B.equivalent(B.cond(guards_of(keep[0])), B.parse_cond("not isinstance(%s.op, ast.Div)" % node)) and B.equivalent(B.cond(guards_of(repl[0])), B.parse_cond("isinstance(%s.op, ast.Div)" % node))
        body = [s for s in own_nodes(vb.node) if isinstance(s, ast.Assign)]
        lhs = [s for s in body if ast.unparse(s.targets[0]) == "%s.left" % node]
        rhs = [s for s in body if ast.unparse(s.targets[0]) == "%s.right" % node]
        vis = {ast.unparse(s.targets[0]): ast.unparse(s.value) for s in body if isinstance(s.value, ast.Call) and ast.unparse(s.value.func) == "self.visit"}
        okt = okt and len(lhs) == 1 and len(rhs) == 1 and vis.get(ast.unparse(lhs[0].value)) == "self.visit(%s.left)" % node and vis.get(ast.unparse(rhs[0].value)) == "self.visit(%s.right)" % node
        # the replacement call receives the visited operands in order
        args = [s for s in body if astq.is_name(s.targets[0], "args")]
        okt = okt and len(args) == 1 and isinstance(args[0].value, ast.List) and [vis.get(ast.unparse(e)) for e in args[0].value.elts] == ["self.visit(%s.left)" % node, "self.visit(%s.right)" % node]
    ctx.check(okt, "R19g", vb, keep[0] if keep else vb.node, "exactly the Div operators are replaced by sdiv(visited left, visited right); other operators keep their visited operands", "visit_BinOp does not replace exactly the `/` operators by sdiv(lhs, rhs) while re-attaching the visited operands to every other operator: some divisions keep Python's `/` (0/0 raises or gives nan) or other operators are turned into divisions", stmt_text="transformer")


WHITELIST_IMPL = {"max": "vector_max", "min": "vector_min", "exp": "np.exp", "floor": "np.floor", "pi": "np.pi", "cos": "np.cos", "sin": "np.sin", "sqrt": "np.sqrt", "ln": "np.log", "rand": "np.random.rand", "randn": "np.random.randn", "sdiv": "sdiv"}
IDENTITY = {"np.minimum": {"np.inf", "float('inf')", "math.inf", "np.Inf", "numpy.inf"}, "np.maximum": {"-np.inf", "float('-inf')", "-math.inf", "-np.Inf", "-float('inf')", "-numpy.inf"}}


def r19h(ctx, repo):
    ctx.rule("R19h", "the whitelisted names mean what the documentation says: each documented name of supported_functions is bound to its documented implementation (max -> vector_max, ln -> np.log ...), and vector_min / vector_max are a plain reduce of np.minimum / np.maximum over their arguments - without an initial value, or with the identity of the operation (+inf / -inf); any other seed value is silently mixed into every result")
    m = repo.module("function_parser")
    wl = [s for s in m.tree.body if isinstance(s, ast.Assign) and astq.is_name(s.targets[0], "supported_functions") and isinstance(s.value, ast.Dict)]
    ctx.require(len(wl) == 1, "R19h: supported_functions dict literal not found")
    fi = repo.func("function_parser", "parse_function")
    have = {k.value: ast.unparse(v) for k, v in zip(wl[0].value.keys, wl[0].value.values) if isinstance(k, ast.Constant)}
    for name, impl in sorted(WHITELIST_IMPL.items()):
        if name not in have:
            continue  # a documented name that disappears makes functions fail loudly (rejected), not silently
        ctx.check(have[name] == impl, "R19h", fi, wl[0], "`%s` is bound to %s" % (name, impl), "the whitelisted name `%s` is bound to `%s`, not to %s: a parameter function using it silently computes something else" % (name, have[name], impl), stmt_text="whitelist:%s" % name)
    for fname, op in (("vector_min", "np.minimum"), ("vector_max", "np.maximum")):
        f = repo.func("function_parser", fname)
        va = f.node.args.vararg.arg if f.node.args.vararg else None
        rets = [r for r in own_nodes(f.node) if isinstance(r, ast.Return)]
        ok = len(rets) == 1 and va is not None
        why = "not a single `return reduce(%s, %s)`" % (op, va)
        if ok:
            v = rets[0].value
            env = {s.targets[0].id: s.value for s in own_nodes(f.node) if isinstance(s, ast.Assign) and len(s.targets) == 1 and isinstance(s.targets[0], ast.Name)}
            if isinstance(v, ast.Name) and v.id in env:
                v = env[v.id]
            ok = isinstance(v, ast.Call) and ast.unparse(v.func) in ("reduce", "functools.reduce") and len(v.args) >= 2 and not v.keywords
            if ok:
                ok = ast.unparse(v.args[0]) == op and ast.unparse(v.args[1]) == va
                why = "reduces `%s` over `%s`" % (ast.unparse(v.args[0]), ast.unparse(v.args[1]))
                if ok and len(v.args) == 3:
                    ok = ast.unparse(v.args[2]) in IDENTITY[op]
                    why = "seeds the reduction with `%s`, which is not the identity of %s" % (ast.unparse(v.args[2]), op)
        ctx.check(ok, "R19h", f, rets[0] if rets else f.node, "%s = reduce(%s, args) (no seed, or the identity)" % (fname, op), "%s %s: `%s(...)` in a parameter function no longer returns the element-wise %s of exactly its arguments" % (fname, why, fname.split("_")[1], fname.split("_")[1] + "imum"), stmt_text="reduce:%s" % fname)


MUTATORS = {"remove", "append", "extend", "insert", "pop", "clear", "sort", "reverse"}


def r19i(ctx, repo):
    ctx.rule("R19i", "the reported dependency list belongs to its caller: no caller of parse_function changes the returned list in place (remove / append / del / item assignment); and if parse_function is memoised (a caching decorator), it may not hand out a mutable list at all - a cached list edited by one caller (e.g. `t` and `dt` removed while building a model) is what every later parse of the same string reports")
    pf = repo.func("function_parser", "parse_function")
    cached = [ast.unparse(d) for d in pf.node.decorator_list if any(w in ast.unparse(d) for w in ("cache", "memo"))]
    n = 0
    mutated = []
    for fi in repo.all_functions():
        for c in own_nodes(fi.node):
            if not (isinstance(c, ast.Call) and ast.unparse(c.func) in ("parse_function", "atomica.parse_function", "at.parse_function", "function_parser.parse_function")):
                continue
            n += 1
            st = enclosing_stmt(c)
            names = set()
            if isinstance(st, ast.Assign) and st.value is c:
                t = st.targets[0]
                if isinstance(t, ast.Tuple) and len(t.elts) == 2 and isinstance(t.elts[1], ast.Name):
                    names.add(t.elts[1].id)
                elif isinstance(t, ast.Name):
                    names.add(t.id)
            elif isinstance(st, ast.Assign) and isinstance(st.value, ast.Subscript) and st.value.value is c and isinstance(st.targets[0], ast.Name):
                names.add(st.targets[0].id)
            for nm in names:
                for x in own_nodes(fi.node):
                    bad = None
                    if isinstance(x, ast.Call) and isinstance(x.func, ast.Attribute) and x.func.attr in MUTATORS:
                        root = x.func.value
                        while isinstance(root, ast.Subscript):
                            root = root.value
                        if isinstance(root, ast.Name) and root.id == nm:
                            bad = x
                    elif isinstance(x, (ast.Assign, ast.AugAssign, ast.Delete)):
                        for t in (x.targets if not isinstance(x, ast.AugAssign) else [x.target]):
                            if isinstance(t, ast.Subscript):
                                root = t
                                while isinstance(root, ast.Subscript):
                                    root = root.value
                                if isinstance(root, ast.Name) and root.id == nm:
                                    bad = x
                            elif isinstance(x, ast.AugAssign) and isinstance(t, ast.Name) and t.id == nm:
                                bad = x
                    if bad is not None:
                        mutated.append((fi, enclosing_stmt(bad), nm))
    ctx.require(n >= 3, "R19i: fewer call sites of parse_function (%d) than confirmed (3)" % n)
    for fi, st, nm in mutated:
        ctx.fail("R19i", fi, st, "`%s` changes the dependency list returned by parse_function in place%s" % (norm(st)[:70], (": parse_function is memoised (%s), so every later parse of the same string reports the edited list" % ", ".join(cached)) if cached else ": the list is what parse_function reports as the names the expression depends on"), stmt_text="deps-mutated:%s" % nm)
    if not mutated:
        ctx.ok("R19i", pf, "%d call sites of parse_function leave the returned dependency list untouched%s" % (n, " (parse_function is memoised: %s)" % cached if cached else ""))
    if cached:
        rets = [r for r in own_nodes(pf.node) if isinstance(r, ast.Return) and r.value is not None]
        frozen = all(isinstance(r.value, ast.Tuple) and len(r.value.elts) == 2 and isinstance(r.value.elts[1], ast.Call) and ast.unparse(r.value.elts[1].func) in ("tuple", "frozenset") for r in rets)
        ctx.check(frozen, "R19i", pf, rets[0] if rets else pf.node, "memoised parse_function returns an immutable dependency collection", "parse_function is memoised (%s) but returns a mutable list: all callers parsing the same string share one list object" % ", ".join(cached), stmt_text="memoised-mutable")
