"""C01 - people are conserved: bookkeeping discipline of stocks and flows (DESIGN 4, C01)."""
import ast

from ..core.loader import AnalysisError, own_nodes, norm, ancestors, enclosing_stmt
from ..core import astq
from ..core.cfg import ENTRY, EXIT, guards_of
from . import common as K
from . import flowalg

EXPLANATION = (
    "Static necessary conditions for conservation of people, decided from atomica/model.py (and every other module for the ownership rule): "
    "R01a who may write compartment/link storage; R01b every link is registered on both its source and its destination; "
    "R01c every value written to an outgoing link is the value removed from the source (writer/reader agreement inside resolve_outflows); "
    "R01d update() reads step ti-1, writes step ti, subtracts the cached outflow once and adds every inlink once; "
    "R01e junction balance passes on all inflow, residual = inflow - others, junctions are balanced every step in flow order; "
    "R01f loop order advance -> update_comps -> update_pars -> update_links; R01h no local bound to a *slice* of stock/flow storage (a numpy view) is modified in place; R01g assigning a total to a timed compartment spreads it over the rows by dividing by exactly the number of rows, and its size is the sum over rows (the initial junction flush adds to downstream compartments through these two accessors).  The arithmetic identity itself (1e-9 balance) is a runtime quantity and is not decided."
)

STORAGE = {"vals", "_vals"}
OWNER_METHODS = {"preallocate", "update", "resolve_outflows", "balance", "initial_flush", "__setitem__", "__init__"}
OWNER_FUNCS = {("model", "Population.initialize_compartments"), ("parameters", "Initialization.apply")}


def run(ctx):
    repo = ctx.repo
    T = K.types(repo)
    ctx.each(r01a, ctx, repo, T)
    ctx.each(r01b, ctx, repo, T)
    ctx.each(r01c, ctx, repo, T)
    ctx.each(r01d, ctx, repo, T)
    ctx.each(r01e, ctx, repo, T)
    ctx.each(r01f, ctx, repo, T)
    ctx.each(r01g, ctx, repo, T)
    ctx.each(r01h, ctx, repo, T)
    ctx.each(flowalg.share_rule, ctx, repo, "R01j")
    # stock(t+1) = stock(t) + in - out exactly: the clamp in Compartment.update may only replace negative values
    from .c02 import r02d

    ctx.each(r02d, ctx, repo, T)
    from .c02 import r02b

    ctx.each(r02b, ctx, repo, T)  # a negative transition value is clamped every step: a reverse flow empties its destination, which the non-negativity clamp then resets - and people appear from nowhere
    from . import c04 as _c04

    ctx.each(_c04.r04b, ctx, repo)  # junctions are balanced and flushed in dependency order: people flushed into a junction that was visited before are left behind
    ctx.each(flowalg.accumulator_rule, ctx, repo, "R01i")
    ctx.each(flowalg.link_registration_rule, ctx, repo, "R01k")
    ctx.each(flowalg.step_wiring_rule, ctx, repo, "R01l")
    ctx.each(flowalg.stateless_step_rule, ctx, repo, "R01m")
    ctx.each(flowalg.kind_dispatch_rule, ctx, repo, "R01n")
    from . import c06

    ctx.each(c06.r06k, ctx, repo)  # transfers between populations move people between same-named compartments


# ---------------------------------------------------------------------------------------------- R01a
def _is_stock_or_flow(T, t):
    return t is not None and t[0] == "I" and (T.isa(t, "model", "Compartment") or T.isa(t, "model", "Link"))


def r01a(ctx, repo, T):
    ctx.rule("R01a", "stores into Compartment/Link .vals/._vals (or obj[k]= on such an object) occur only in the owner set: per-step methods of the two families, Population.initialize_compartments, Initialization.apply")
    fam = {c.fq for c in K.comp_family(repo)} | {c.fq for c in K.link_family(repo)} | {repo.cls("model", "Variable").fq}
    n_owner = 0
    for fi in repo.all_functions():
        for stmt, tgt, kind, value in astq.stores(fi.node):
            if kind in ("for", "with"):
                continue
            ctx.examine()
            obj = None
            a = astq.attr_in_path(tgt, STORAGE)
            if a is not None:
                obj = a.value
            elif isinstance(tgt, ast.Subscript) and kind in ("assign", "aug", "del"):
                obj = astq.strip_subs(tgt)
                if isinstance(obj, ast.Attribute) and obj.attr in STORAGE:
                    obj = obj.value
            if obj is None:
                continue
            t = T.type_at(obj, fi, stmt)
            if not _is_stock_or_flow(T, t):
                continue
            owner = (fi.module.name, fi.qualname) in OWNER_FUNCS or (fi.cls is not None and fi.cls.fq in fam and fi.name in OWNER_METHODS and fi.parent is None)
            if owner:
                n_owner += 1
                ctx.ok("R01a", fi, "owner store `%s`" % norm(stmt)[:80], stmt)
            else:
                ctx.fail("R01a", fi, stmt, "store to compartment/link storage `%s` outside the owner set: people can be created or lost without a recorded flow" % ast.unparse(tgt))
    # the program overwrite in update_pars must be among the analysed non-owners
    up = repo.func("model", "Model.update_pars")
    n_par_stores = sum(1 for s, t, k, v in astq.stores(up.node) if isinstance(t, ast.Subscript) and isinstance(astq.strip_subs(t), ast.Name))
    ctx.require(n_par_stores >= 3, "R01a: Model.update_pars no longer contains the parameter stores the rule was confirmed against")
    ctx.require(n_owner >= 20, "R01a: only %d owner stores typed (confirmed by hand: >= 20); type facts for model.py degraded" % n_owner)


# ---------------------------------------------------------------------------------------------- R01b
def r01b(ctx, repo, T):
    ctx.rule("R01b", "outlinks/inlinks are appended only in Link.create, both, unconditionally, on source and dest; unlink/relink rebuild each list from itself")
    create = repo.func("model", "Link.create")
    cfg = K.cfg(repo, create)
    found = {}
    for fi in repo.all_functions():
        if fi.module.name == "migration":
            continue
        for stmt, tgt, kind, value in astq.stores(fi.node):
            a = tgt if isinstance(tgt, ast.Attribute) else None
            if a is None or a.attr not in ("outlinks", "inlinks"):
                continue
            ctx.examine()
            if kind.startswith("mut:"):
                if fi is create and kind in ("mut:append",):
                    found.setdefault(a.attr, []).append((stmt, a, value))
                else:
                    ctx.fail("R01b", fi, stmt, "`%s` mutated outside Link.create: a link registered on one side only makes people vanish or appear" % ast.unparse(a))
            elif kind == "assign":
                # allowed: initialisation to an empty list in __init__, or a comprehension over the same attribute (unlink/relink)
                if isinstance(value, ast.List) and not value.elts and fi.name == "__init__":
                    ctx.ok("R01b", fi, "%s initialised empty" % a.attr, stmt)
                elif isinstance(value, ast.ListComp) and len(value.generators) == 1 and not value.generators[0].ifs and ast.unparse(value.generators[0].iter) == ast.unparse(a) and fi.name in ("unlink", "relink"):
                    ctx.ok("R01b", fi, "%s rebuilt element-wise from itself" % a.attr, stmt)
                else:
                    ctx.fail("R01b", fi, stmt, "`%s` reassigned by something other than an element-wise rebuild of itself" % ast.unparse(a))
            else:
                ctx.fail("R01b", fi, stmt, "`%s` modified (%s) outside Link.create" % (ast.unparse(a), kind))
    for attr, end in (("outlinks", "source"), ("inlinks", "dest")):
        sites = found.get(attr, [])
        if len(sites) != 1:
            ctx.fail("R01b", create, create.node, "Link.create appends to %s %d times (expected exactly once)" % (attr, len(sites)), stmt_text="append:" + attr)
            continue
        stmt, a, call = sites[0]
        # <new_link>.<source|dest>.<attr>.append(<new_link>)
        owner = a.value
        arg = call.args[0] if call.args else None
        good_shape = isinstance(owner, ast.Attribute) and owner.attr == end and arg is not None and ast.unparse(owner.value) == ast.unparse(arg)
        if not good_shape and isinstance(owner, ast.Name) and owner.id == end and isinstance(arg, ast.Name):
            # accepted idiom: the constructor parameter itself (source.outlinks.append(new_link))
            good_shape = end in create.params
        uncond = not cfg.path_exists([ENTRY], [EXIT], avoid_ids=cfg.ids(stmt))
        ctx.check(good_shape and uncond, "R01b", create, stmt, "link registered in %s.%s on every path" % (end, attr), "link is not registered in its %s's %s on every path through Link.create" % (end, attr))


# ---------------------------------------------------------------------------------------------- R01c
def _link_store_target(tgt):
    """Is the store target <x>.vals[...] / <x>._vals[...]; returns the object expression x."""
    if isinstance(tgt, ast.Subscript) and isinstance(tgt.value, ast.Attribute) and tgt.value.attr in STORAGE:
        return tgt.value.value
    return None


def _strip_sum(e):
    while True:
        if isinstance(e, ast.Call) and ast.unparse(e.func) in ("sum", "np.sum") and len(e.args) >= 1:
            e = e.args[0]
        elif isinstance(e, ast.Call) and isinstance(e.func, ast.Attribute) and e.func.attr == "sum" and not e.args:
            e = e.func.value
        else:
            return e


def _commutative_key(e):
    """Text of e with the operands of products sorted, so a*b == b*a."""
    if isinstance(e, ast.BinOp) and isinstance(e.op, ast.Mult):
        fs = []

        def flat(x):
            if isinstance(x, ast.BinOp) and isinstance(x.op, ast.Mult):
                flat(x.left)
                flat(x.right)
            else:
                fs.append(ast.unparse(x))

        flat(e)
        return "*".join(sorted(fs))
    return ast.unparse(e)


def r01c(ctx, repo, T):
    ctx.rule("R01c", "in every resolve_outflows sibling whose update() subtracts the cached outflow: each value written to an outgoing link at ti is also accumulated into self._cached_outflow (read-back of the written slot, or the same expression up to an outer sum), the cache is reset before, and the multiplier is loop-invariant")
    n = 0
    for ci, fi in K.family_methods(repo, "resolve_outflows"):
        if K.is_noop(fi):
            ctx.ok("R01c", fi, "no outflow resolved here (no-op sibling)")
            continue
        upd = repo.find_method(ci, "update")
        sub_in_update = any(isinstance(x, ast.Attribute) and x.attr == "_cached_outflow" for x in ast.walk(upd.node))
        me = K.self_name(fi)
        cached_txt = "%s._cached_outflow" % me
        link_stores = []
        for stmt, tgt, kind, value in astq.stores(fi.node):
            obj = _link_store_target(tgt)
            if obj is None or kind not in ("assign", "aug"):
                continue
            t = T.type_at(obj, fi, stmt)
            if t is not None and T.isa(t, "model", "Link"):
                link_stores.append((stmt, tgt, kind, value))
        ctx.require(link_stores, "R01c: %s writes no link values and is not a no-op: unrecognised shape" % fi.fq)
        if not sub_in_update and K.is_noop(upd):
            # e.g. SourceCompartment: unlimited reservoir, update() does not touch the stock
            ctx.ok("R01c", fi, "stock is not tracked for this sibling (update is a no-op); %d link stores need no cache" % len(link_stores))
            continue
        # cache reset: an assignment to self._cached_outflow that is always executed before every accumulation
        resets = [s for s, t, k, v in astq.stores(fi.node) if k == "assign" and ast.unparse(t) == cached_txt]
        accs = [(s, t, v) for s, t, k, v in astq.stores(fi.node) if k == "aug" and isinstance(s.op, ast.Add) and ast.unparse(astq.strip_subs(t)) == cached_txt]
        post_aggregate = [s for s in resets if any(isinstance(x, (ast.GeneratorExp, ast.ListComp)) for x in ast.walk(s.value)) and ("%s.outlinks" % me) in ast.unparse(s.value)]
        cfg = K.cfg(repo, fi)
        ctx.check(bool(resets), "R01c", fi, resets[0] if resets else fi.node, "cached outflow is reset in this call", "self._cached_outflow is accumulated but never reset in %s: outflow of earlier steps is removed again" % fi.qualname)
        for s, t, v in accs:
            if resets and not any(cfg.always_before(r, s) for r in resets):
                ctx.fail("R01c", fi, s, "accumulation into the cached outflow is not preceded by a reset on every path")
        # group link stores by (block, slot text): the last store of a slot in its block is the one that must be mirrored
        by_slot = {}
        for stmt, tgt, kind, value in link_stores:
            key = (id(getattr(stmt, "_parent", None)), ast.unparse(tgt.value))
            by_slot.setdefault(key, []).append((stmt, tgt, kind, value))
        for key, group in by_slot.items():
            group.sort(key=lambda g: g[0].lineno)
            last_stmt = group[-1][0]
            first_stmt, first_tgt, _, first_val = group[0]
            block = getattr(first_stmt, "_parent", None)
            slot_txts = {ast.unparse(g[1]) for g in group}
            ok = False
            why = ""
            for s, t, v in accs:
                if getattr(s, "_parent", None) is not block and not post_aggregate:
                    continue
                vt = ast.unparse(v)
                if vt in slot_txts and s.lineno > last_stmt.lineno and vt == ast.unparse(first_tgt if len(group) == 1 else group[0][1]):
                    ok, why = True, "read-back of %s" % vt
                    break
                if vt in slot_txts and s.lineno > last_stmt.lineno:
                    ok, why = True, "read-back of %s" % vt
                    break
                if len(group) == 1 and _commutative_key(_strip_sum(v)) == _commutative_key(_strip_sum(first_val)) and s.lineno > first_stmt.lineno:
                    ok, why = True, "same expression up to an outer sum"
                    break
            if not ok and post_aggregate:
                for s in post_aggregate:
                    if any(txt in ast.unparse(s.value) for txt in slot_txts) or ".vals[" in ast.unparse(s.value):
                        ok, why = True, "post-loop aggregate over outlinks"
            n += 1
            if ok:
                ctx.ok("R01c", fi, "link slot %s mirrored in cache (%s)" % (sorted(slot_txts)[0], why), first_stmt)
            else:
                ctx.fail("R01c", fi, last_stmt, "value written to link slot `%s` is not what is added to self._cached_outflow: the amount removed from the compartment differs from the recorded flow" % sorted(slot_txts)[0])
        # loop-invariant multiplier: names used in link store values that are not the loop variable / self must not be assigned inside the loop
        for stmt, tgt, kind, value in link_stores:
            loops = K.enclosing_loops(stmt)
            if not loops:
                continue
            loop = loops[0]
            assigned_in_loop = set()
            for s in ast.walk(loop):
                if isinstance(s, (ast.Assign, ast.AugAssign)) and s is not stmt:
                    for tt in (s.targets if isinstance(s, ast.Assign) else [s.target]):
                        if isinstance(tt, ast.Name):
                            assigned_in_loop.add(tt.id)
            loopvars = {x.id for x in ast.walk(loop.target) if isinstance(x, ast.Name)}
            bad = (astq_names(value) & assigned_in_loop) - loopvars
            ctx.check(not bad, "R01c", fi, stmt, "multiplier of %s is loop-invariant" % ast.unparse(tgt), "multiplier %s of the link value is reassigned inside the link loop: competing outflows are scaled by different factors" % sorted(bad))
    ctx.require(n >= 4, "R01c: fewer link slots (%d) than confirmed by hand (4: Compartment x1, TimedCompartment x3)" % n)


def astq_names(e):
    return {x.id for x in ast.walk(e) if isinstance(x, ast.Name)}


# ---------------------------------------------------------------------------------------------- R01d
def r01d(ctx, repo, T):
    ctx.rule("R01d", "update(ti): reads use ti-1, the write targets ti; cached outflow subtracted exactly once where resolve_outflows caches one; each inlink added exactly once with positive sign; timed inlinks partitioned by class test with complementary row slices")
    n = 0
    for ci, fi in K.family_methods(repo, "update"):
        if K.is_noop(fi):
            ctx.ok("R01d", fi, "no-op sibling (stock not stepped)")
            continue
        n += 1
        me = K.self_name(fi)
        tname = K.time_param(fi)
        # --- index discipline
        for node in own_nodes(fi.node):
            if not isinstance(node, ast.Subscript):
                continue
            base = node.value
            if not (isinstance(base, ast.Attribute) and base.attr in STORAGE) and not (isinstance(base, ast.Name) and isinstance(node.ctx, ast.Load) and T.type_at(base, fi, node) is not None and T.isa(T.type_at(base, fi, node) or ("B", ""), "model", "Link") if isinstance(base, ast.Name) else False):
                continue
            if isinstance(base, ast.Attribute) and isinstance(getattr(node, "_parent", None), ast.Attribute):
                continue  # e.g. link._vals.shape handled elsewhere (not a subscript) - defensive
            tix = K.time_index_of(node)
            stmt = enclosing_stmt(node)
            ctx.examine()
            is_store = isinstance(node.ctx, ast.Store) or (isinstance(getattr(node, "_parent", None), ast.AugAssign) and node._parent.target is node)
            # a boolean mask in the row position (clip) does not change the time index
            if is_store:
                okk = astq.is_name(tix, tname)
                ctx.check(okk, "R01d", fi, stmt, "write targets step %s" % tname, "update() writes storage at index `%s`, not at the step being computed (%s)" % (ast.unparse(tix), tname))
            else:
                prev = K.resolves_to_prev_index(repo, fi, tix, stmt, tname)
                # reading back the slot being built (self._vals[..., ti]) is part of building it
                same_step_self = astq.is_name(tix, tname) and isinstance(base, ast.Attribute) and astq.is_name(base.value, me)
                ctx.check(prev or same_step_self, "R01d", fi, stmt, "read uses step %s-1" % tname, "update() reads `%s` at index `%s` instead of the previous step: a flow of a different step is applied" % (ast.unparse(node), ast.unparse(tix)))
        # --- cached outflow subtracted exactly once, iff resolve_outflows caches
        ro = repo.find_method(ci, "resolve_outflows")
        caches = any(isinstance(x, ast.Attribute) and x.attr == "_cached_outflow" and isinstance(x.ctx, ast.Store) for x in ast.walk(ro.node)) or any(isinstance(s, ast.AugAssign) and "_cached_outflow" in ast.unparse(s.target) for s in ast.walk(ro.node))
        subs = []
        for node in own_nodes(fi.node):
            if isinstance(node, ast.AugAssign) and ast.unparse(node.value) == "%s._cached_outflow" % me:
                subs.append((node, isinstance(node.op, ast.Sub)))
            elif isinstance(node, ast.BinOp) and ast.unparse(node.right) == "%s._cached_outflow" % me:
                subs.append((enclosing_stmt(node), isinstance(node.op, ast.Sub)))
            elif isinstance(node, ast.BinOp) and ast.unparse(node.left) == "%s._cached_outflow" % me:
                subs.append((enclosing_stmt(node), False))
        if caches:
            good = len(subs) == 1 and subs[0][1]
            ctx.check(good, "R01d", fi, subs[0][0] if subs else fi.node, "cached outflow subtracted exactly once", "update() uses the cached outflow %d time(s)%s; it must be subtracted exactly once" % (len(subs), "" if not subs or all(s[1] for s in subs) else " (not as a subtraction)"), )
        else:
            ctx.check(not subs, "R01d", fi, subs[0][0] if subs else fi.node, "no outflow to subtract (resolve_outflows is a no-op)", "update() uses a cached outflow that resolve_outflows never sets")
        # --- inlinks
        inl = "%s.inlinks" % me
        loops = [l for l in own_nodes(fi.node) if isinstance(l, ast.For) and inl in [ast.unparse(b) for b in K.iter_base(l.iter)]]
        timed = T.repo.is_subclass(ci, repo.cls("model", "TimedCompartment"))
        if not timed:
            ctx.check(len(loops) == 1, "R01d", fi, loops[0] if loops else fi.node, "one loop over inlinks", "update() iterates the inlinks %d times: an inflow is added twice or not at all" % len(loops))
            for l in loops:
                lv = K.loop_var_for(l, inl)
                adds = [s for s in ast.walk(l) if isinstance(s, ast.AugAssign)]
                good = len(adds) == 1 and isinstance(adds[0].op, ast.Add) and lv is not None and _reads_link_flow(adds[0].value, lv)
                ctx.check(good, "R01d", fi, adds[0] if adds else l, "each inlink added once with positive sign", "the inlink loop does not add each incoming flow exactly once with positive sign")
                if good and isinstance(adds[0].target, ast.Name):
                    acc = adds[0].target.id
                    # the accumulated value is what is stored at ti (possibly under the clip)
                    st = [s for s, t, k, v in astq.stores(fi.node) if k == "assign" and isinstance(t, ast.Subscript) and ast.unparse(t.value) == "%s.vals" % me]
                    ctx.check(any(isinstance(s.value, ast.Name) and s.value.id == acc for s in st), "R01d", fi, st[0] if st else fi.node, "accumulated value is the one stored", "the value stored at step %s is not the accumulated balance `%s`" % (tname, acc))
        else:
            _timed_update(ctx, repo, T, fi, loops, me, tname)
    ctx.require(n >= 3, "R01d: fewer non-trivial update() siblings (%d) than confirmed (3: Compartment, SinkCompartment, TimedCompartment)" % n)


def _reads_link_flow(e, lv):
    """e is <lv>.vals[...] / <lv>._vals[...] / <lv>[...]"""
    if isinstance(e, ast.Subscript):
        b = e.value
        if isinstance(b, ast.Attribute) and b.attr in STORAGE and astq.is_name(b.value, lv):
            return True
        if astq.is_name(b, lv):
            return True
    return False


def _timed_update(ctx, repo, T, fi, loops, me, tname):
    # partition by isinstance(link, TimedLink)
    pos, neg = [], []
    for l in loops:
        lv = K.loop_var_for(l, "%s.inlinks" % me)
        for s in l.body:
            if isinstance(s, ast.If):
                t = s.test
                if isinstance(t, ast.Call) and ast.unparse(t) == "isinstance(%s, TimedLink)" % lv:
                    pos.append((l, s, lv))
                    if s.orelse:
                        neg.append((l, s, lv))
                elif isinstance(t, ast.UnaryOp) and isinstance(t.op, ast.Not) and ast.unparse(t.operand) == "isinstance(%s, TimedLink)" % lv:
                    neg.append((l, s, lv))
                    if s.orelse:
                        pos.append((l, s, lv))
                else:
                    raise AnalysisError("R01d: unrecognised guard `%s` in TimedCompartment.update inlink loop" % ast.unparse(t))
            else:
                raise AnalysisError("R01d: unguarded statement `%s` in TimedCompartment.update inlink loop" % norm(s))
    ctx.check(len(pos) == 1 and len(neg) == 1, "R01d", fi, fi.node, "inlinks partitioned into TimedLink / not TimedLink, each handled once", "inlinks of the timed compartment are not partitioned exactly once by `isinstance(link, TimedLink)` (%d positive, %d negative branches)" % (len(pos), len(neg)))
    # every += under those guards adds link storage with positive sign
    for l, s, lv in pos + neg:
        for a in ast.walk(s):
            if isinstance(a, ast.AugAssign):
                good = isinstance(a.op, ast.Add) and any(_reads_link_flow(x, lv) for x in ast.walk(a.value) if isinstance(x, ast.Subscript))
                ctx.check(good, "R01d", fi, a, "timed inflow added with positive sign", "inflow statement `%s` does not add the link's flow" % norm(a))
    # complementary slices in each size case
    for l, s, lv in pos:
        branches = []

        def collect(ifnode):
            branches.append(ifnode.body)
            if len(ifnode.orelse) == 1 and isinstance(ifnode.orelse[0], ast.If):
                collect(ifnode.orelse[0])
            elif ifnode.orelse:
                branches.append(ifnode.orelse)

        inner = [x for x in s.body if isinstance(x, ast.If)]
        if len(inner) != 1 or len(s.body) != 1:
            raise AnalysisError("R01d: TimedCompartment.update timed-inlink branch is not a single size-case chain")
        collect(inner[0])
        ctx.require(len(branches) == 3, "R01d: expected 3 size cases for timed inlinks, found %d" % len(branches))
        for br in branches:
            rows = []
            for st in br:
                for x in ast.walk(st):
                    if isinstance(x, ast.Subscript) and isinstance(x.value, ast.Attribute) and x.value.attr == "_vals" and astq.is_name(x.value.value, lv):
                        r = K.row_index_of(x)
                        rows.append(r)
            whole = [r for r in rows if isinstance(r, ast.Slice) and r.lower is None and r.upper is None]
            lows = [r for r in rows if isinstance(r, ast.Slice) and r.lower is None and r.upper is not None]
            highs = [r for r in rows if isinstance(r, ast.Slice) and r.lower is not None and r.upper is None]
            other = [r for r in rows if r not in whole + lows + highs]
            good = False
            if len(rows) == 1 and len(whole) == 1:
                good = True
            elif len(rows) == 2 and len(lows) == 1 and len(highs) == 1 and ast.unparse(lows[0].upper) == ast.unparse(highs[0].lower):
                good = True
            ctx.check(good and not other, "R01d", fi, br[0], "timed inflow rows cover the link's rows exactly once", "row slices %s applied to the incoming timed link are neither the whole array nor a complementary pair: some cohorts are dropped or counted twice" % [ast.unparse(r) if r is not None else None for r in rows])


# ---------------------------------------------------------------------------------------------- R01e
def r01e(ctx, repo, T):
    ctx.rule("R01e", "balance(): net inflow accumulates every inlink at ti; every outlink is assigned from it; residual = inflow - sum(others); update_links balances every junction of the flow-ordered topological sort")
    fams = [(ci, fi) for ci, fi in K.family_methods(repo, "balance")]
    ctx.require(len(fams) >= 2, "R01e: expected balance() in JunctionCompartment and ResidualJunctionCompartment")
    for ci, fi in fams:
        me = K.self_name(fi)
        tname = K.time_param(fi)
        inl, outl = "%s.inlinks" % me, "%s.outlinks" % me
        in_loops = [l for l in own_nodes(fi.node) if isinstance(l, ast.For) and inl in [ast.unparse(b) for b in K.iter_base(l.iter)]]
        ctx.require(in_loops, "R01e: %s has no loop over inlinks" % fi.fq)
        accs = set()
        for l in in_loops:
            lv = K.loop_var_for(l, inl)
            found = None
            for s in l.body:
                if isinstance(s, ast.AugAssign) and isinstance(s.op, ast.Add) and isinstance(s.target, ast.Name) and _reads_link_flow(s.value, lv):
                    found = (s.target.id, s.value, s)
                elif isinstance(s, ast.Assign) and len(s.targets) == 1 and isinstance(s.targets[0], ast.Name) and isinstance(s.value, ast.BinOp) and isinstance(s.value.op, ast.Add) and astq.is_name(s.value.left, s.targets[0].id) and _reads_link_flow(s.value.right, lv):
                    found = (s.targets[0].id, s.value.right, s)
            if found is None:
                ctx.fail("R01e", fi, l, "loop over inlinks does not accumulate each incoming flow")
                continue
            accs.add(found[0])
            tix = K.time_index_of(found[1])
            ctx.check(astq.is_name(tix, tname), "R01e", fi, found[2], "inflow read at step %s" % tname, "junction inflow read at `%s` rather than the step being balanced" % ast.unparse(tix))
        # both branches of a duration-group split must iterate the inlinks
        for l in in_loops:
            par = getattr(l, "_parent", None)
            if isinstance(par, ast.If):
                other = par.orelse if any(l is s for s in par.body) else par.body
                ctx.check(any(isinstance(s, ast.For) and s in in_loops for s in other), "R01e", fi, par, "both storage variants accumulate the inlinks", "only one branch of `%s` accumulates the junction's inflow" % norm(par))
        ctx.require(len(accs) == 1, "R01e: %s accumulates inflow into %s (expected one accumulator)" % (fi.fq, sorted(accs)))
        N = next(iter(accs))
        # stores to outgoing links
        stores_ = []
        for stmt, tgt, kind, value in astq.stores(fi.node):
            obj = _link_store_target(tgt)
            if obj is not None and kind == "assign":
                stores_.append((stmt, tgt, value, obj))
        ctx.require(stores_, "R01e: %s assigns no link values" % fi.fq)
        rd = K.rdefs(repo, fi)
        for stmt, tgt, value, obj in stores_:
            loops = K.enclosing_loops(stmt)
            in_out_loop = bool(loops) and outl in [ast.unparse(b) for b in K.iter_base(loops[0].iter)] and K.loop_var_for(loops[0], outl) == ast.unparse(obj)
            ctx.check(in_out_loop, "R01e", fi, stmt, "assignment ranges over all outlinks", "junction outflow `%s` is not assigned inside a loop over all of self.outlinks" % ast.unparse(tgt))
            ctx.check(astq.is_name(K.time_index_of(tgt), tname), "R01e", fi, stmt, "outflow written at step %s" % tname, "junction outflow written at index `%s`" % ast.unparse(K.time_index_of(tgt)))
            # value depends on N, directly or through a local
            vals = [value]
            if isinstance(value, ast.Name):
                vals = []
                for d in rd.reaching_at_stmt(stmt, value.id):
                    ds = rd.def_stmt(d)
                    v = ds.value if isinstance(ds, ast.Assign) else None
                    if v is None:
                        raise AnalysisError("R01e: cannot resolve definition of `%s` in %s" % (value.id, fi.fq))
                    vals.append((v, ds))
            else:
                vals = [(value, stmt)]
            for v, ds in vals:
                ctx.check(N in astq_names(v), "R01e", fi, ds, "outflow is a share of the accumulated inflow", "junction outflow `%s` does not depend on the accumulated inflow `%s`" % (ast.unparse(v), N))
        # residual rule
        if ci.name == "ResidualJunctionCompartment" or any("parameter is None" in ast.unparse(x) for x in ast.walk(fi.node) if isinstance(x, ast.Compare)):
            res_defs = []
            for node in own_nodes(fi.node):
                if isinstance(node, ast.If) and "parameter is None" in ast.unparse(node.test):
                    for s in node.body:
                        if isinstance(s, ast.Assign):
                            res_defs.append(s)
            ctx.require(res_defs, "R01e: residual branch (`link.parameter is None`) not found in %s" % fi.fq)
            for s in res_defs:
                v = s.value
                good = isinstance(v, ast.BinOp) and isinstance(v.op, ast.Sub) and astq.is_name(v.left, N) and any(isinstance(c, ast.Call) and ast.unparse(c.func).split(".")[-1] == "sum" for c in ast.walk(v.right))
                ctx.check(good, "R01e", fi, s, "residual = inflow - sum(other outflows)", "the residual outflow is `%s`, not the inflow minus the sum of the other outflows: the junction no longer passes on exactly what it receives" % ast.unparse(v))
    # update_links balances every junction in order
    ul = repo.func("model", "Model.update_links")
    found = False
    for l in own_nodes(ul.node):
        if isinstance(l, ast.For) and "_exec_order['junctions']" in ast.unparse(l.iter):
            lv = l.target.id if isinstance(l.target, ast.Name) else None
            calls = [c for c in ast.walk(l) if isinstance(c, ast.Call) and isinstance(c.func, ast.Attribute) and c.func.attr == "balance" and astq.is_name(c.func.value, lv)]
            wrapped = isinstance(l.iter, ast.Call)
            ctx.check(bool(calls) and not wrapped, "R01e", ul, l, "every junction of the execution order is balanced each step", "update_links does not call balance() on every element of _exec_order['junctions'] in order")
            found = True
    ctx.require(found, "R01e: loop over _exec_order['junctions'] not found in Model.update_links")
    _junction_order(ctx, repo, "R01e")


def _junction_order(ctx, repo, rule):
    """exec_order['junctions'] is a topological sort of a graph whose edges follow flow direction (or reversed + reversed())."""
    so = repo.func("model", "Model._set_exec_order")
    assign = None
    for s in own_nodes(so.node):
        if isinstance(s, ast.Assign) and any("['junctions']" in ast.unparse(t) for t in s.targets):
            assign = s
    ctx.require(assign is not None, "%s: assignment of exec_order['junctions'] not found" % rule)
    vtxt = ast.unparse(assign.value)
    ctx.require("topological_sort" in vtxt, "%s: exec_order['junctions'] is not built by topological_sort (unrecognised idiom): %s" % (rule, vtxt))
    is_reversed = "reversed(" in vtxt or "[::-1]" in vtxt
    # graph variable
    gname = None
    for c in ast.walk(assign.value):
        if isinstance(c, ast.Call) and ast.unparse(c.func).endswith("topological_sort") and c.args and isinstance(c.args[0], ast.Name):
            gname = c.args[0].id
    ctx.require(gname, "%s: graph variable of the junction sort not found" % rule)
    # the add_edge call on that graph which reaches this assignment: last one before it in source order inside a JunctionCompartment loop
    edges = [c for c in own_nodes(so.node) if isinstance(c, ast.Call) and isinstance(c.func, ast.Attribute) and c.func.attr == "add_edge" and astq.is_name(c.func.value, gname) and c.lineno < assign.lineno]
    # restrict to those after the last `G = nx.DiGraph()` before the assignment
    gdefs = [s for s in own_nodes(so.node) if isinstance(s, ast.Assign) and any(astq.is_name(t, gname) for t in s.targets) and s.lineno < assign.lineno]
    ctx.require(gdefs, "%s: graph construction not found" % rule)
    last_def = max(gdefs, key=lambda s: s.lineno)
    edges = [c for c in edges if c.lineno > last_def.lineno]
    ctx.require(edges, "%s: no add_edge feeding the junction order" % rule)
    for c in edges:
        a, b = (ast.unparse(x) for x in c.args[:2])
        loops = K.enclosing_loops(c)
        lv = None
        comp = None
        for l in loops:
            it = ast.unparse(l.iter)
            if it.endswith(".outlinks") and isinstance(l.target, ast.Name):
                lv, comp = l.target.id, it[: -len(".outlinks")]
            elif it.endswith(".inlinks") and isinstance(l.target, ast.Name):
                lv, comp = l.target.id, None
        if lv is None:
            # edges drawn from some other collection of links (a parameter's links, a filtered list ...): links without a parameter - the residual
            # outflow of a junction - are not in it, so a junction fed only through a residual link is not ordered after its source
            its = [ast.unparse(l.iter) for l in loops]
            ctx.fail(rule, so, enclosing_stmt(c), "the junction ordering graph takes its edges from %s, not from every junction's own outlinks/inlinks: a link that is not in that collection (a residual outflow has no parameter) creates no edge, the downstream junction can be balanced or flushed before its inflow is known, and people are lost" % (" / ".join("`%s`" % i for i in its) or "no loop"), stmt_text="junction-graph-edge-source")
            continue
        # ... and the compartment whose links are walked ranges over every junction of every population
        if comp is not None:
            cl = [l for l in loops if isinstance(l.target, ast.Name) and l.target.id == comp]
            ok = bool(cl) and ast.unparse(cl[0].iter).endswith(".comps") and any(pol and "isinstance(%s, JunctionCompartment)" % comp in ast.unparse(t) for t, pol in guards_of(c, stop=cl[0]))
            conj = []
            for t, pol in guards_of(c, stop=cl[0] if cl else None):
                conj += [(v, pol) for v in t.values] if pol and isinstance(t, ast.BoolOp) and isinstance(t.op, ast.And) else [(t, pol)]
            allowed = ("isinstance(%s, JunctionCompartment)" % comp, "isinstance(%s.dest, JunctionCompartment)" % lv, "isinstance(%s.source, JunctionCompartment)" % lv)
            extra = [ast.unparse(t) for t, pol in conj if not (pol and ast.unparse(t) in allowed)]
            ctx.check(ok and not extra, rule, so, enclosing_stmt(c), "edges for every outlink of every junction into a junction", "the junction ordering graph does not get an edge for every outlink of every junction that leads into a junction (loop over `%s`, extra conditions %s)" % (ast.unparse(cl[0].iter) if cl else "?", extra), stmt_text="junction-graph-coverage")
        upstream = {"%s.source" % lv} | ({comp} if comp else set())
        downstream = {"%s.dest" % lv}
        forward = a in upstream and b in downstream
        backward = a in downstream and b in upstream
        ctx.require(forward or backward, "%s: cannot tell the direction of add_edge(%s, %s)" % (rule, a, b))
        good = (forward and not is_reversed) or (backward and is_reversed)
        ctx.check(good, rule, so, enclosing_stmt(c), "junction order follows flow direction (upstream junction first)", "junctions are ordered against the flow direction (edge %s -> %s, %s): a downstream junction is balanced before its inflow is known" % (a, b, "reversed" if is_reversed else "not reversed"))


# ---------------------------------------------------------------------------------------------- R01f
def r01f(ctx, repo, T):
    ctx.rule("R01f", "Model.process main loop: advance the index, then update_comps, then update_pars, then update_links")
    fi = repo.func("model", "Model.process")
    me = K.self_name(fi)
    whiles = [w for w in own_nodes(fi.node) if isinstance(w, ast.While)]
    ctx.require(len(whiles) == 1, "R01f: expected exactly one while loop in Model.process, found %d" % len(whiles))
    w = whiles[0]
    cfg = K.cfg(repo, fi)

    def find(pred, what):
        hits = [s for s in ast.walk(w) if isinstance(s, ast.stmt) and pred(s)]
        if len(hits) != 1:
            ctx.fail("R01f", fi, w, "%s occurs %d times in the integration loop (expected once)" % (what, len(hits)), stmt_text="while:" + what)
            return None
        return hits[0]

    def call_stmt(name):
        return find(lambda s: isinstance(s, ast.Expr) and isinstance(s.value, ast.Call) and ast.unparse(s.value.func) == "%s.%s" % (me, name), name + "()")

    adv = find(lambda s: isinstance(s, ast.AugAssign) and ast.unparse(s.target) == "%s._t_index" % me and isinstance(s.op, ast.Add) and astq.is_const(s.value, 1), "_t_index += 1")
    seq = [("advance", adv)] + [(nm, call_stmt(nm)) for nm in ("update_comps", "update_pars", "update_links")]
    if any(s is None for _, s in seq):
        return
    head = cfg.ids(w)
    for (na, a), (nb, b) in zip(seq, seq[1:]):
        # from the loop head, b cannot be reached without passing a; and a cannot be reached again from b without passing the head
        before = not cfg.path_exists(head, cfg.ids(b), avoid_ids=cfg.ids(a))
        once = not cfg.path_exists(cfg.ids(b), cfg.ids(a), avoid_ids=head)
        ctx.check(before and once, "R01f", fi, b, "%s precedes %s in every iteration" % (na, nb), "%s does not precede %s in the integration loop: stocks, parameters and flows of different steps are combined" % (na, nb))
    # every iteration reaches update_links
    last = seq[-1][1]
    ctx.check(not cfg.path_exists(cfg.ids(adv), head, avoid_ids=cfg.ids(last)), "R01f", fi, last, "every iteration ends with update_links", "an iteration can complete without update_links()")


# ---------------------------------------------------------------------------------------------- R01g
def r01g(ctx, repo, T):
    ctx.rule("R01g", "TimedCompartment accessors conserve people: __setitem__ stores total / n_rows in every row (n_rows = self._vals.shape[0]); __getitem__ and vals sum over the row axis")
    si = repo.func("model", "TimedCompartment.__setitem__")
    me = K.self_name(si)
    rows = "%s._vals.shape[0]" % me
    st = [(s, t, v) for s, t, k, v in astq.stores(si.node) if k == "assign" and isinstance(t, ast.Subscript) and ast.unparse(t.value) == "%s._vals" % me]
    ctx.require(len(st) == 1, "R01g: expected one store to self._vals in TimedCompartment.__setitem__, found %d" % len(st))
    s_, t_, v_ = st[0]
    row = K.row_index_of(t_)
    ctx.check(isinstance(row, ast.Slice) and row.lower is None and row.upper is None, "R01g", si, s_, "every row is assigned", "TimedCompartment.__setitem__ assigns rows `%s` only: part of the total is dropped or left over from before" % (ast.unparse(row) if row is not None else "?"))
    good = False
    if isinstance(v_, ast.BinOp) and isinstance(v_.op, ast.Div):
        den = v_.right
        # the denominator must evaluate to the number of rows in every row: n_rows, or n_rows * ones((n_rows, 1))
        facs = []

        def flat(x):
            if isinstance(x, ast.BinOp) and isinstance(x.op, ast.Mult):
                flat(x.left)
                flat(x.right)
            else:
                facs.append(x)

        flat(den)
        n_rows = [f for f in facs if ast.unparse(f) == rows]
        ones = [f for f in facs if isinstance(f, ast.Call) and ast.unparse(f.func) in ("np.ones", "np.ones_like")]
        other = [f for f in facs if f not in n_rows and f not in ones]
        good = len(n_rows) == 1 and not other and "value" in {x.id for x in ast.walk(v_.left) if isinstance(x, ast.Name)}
    ctx.check(good, "R01g", si, s_, "each row receives total / n_rows", "TimedCompartment.__setitem__ stores `%s`: the rows do not add up to the total that was assigned (the initial junction flush and the initial conditions go through this accessor)" % ast.unparse(v_)[:100])
    for q in ("TimedCompartment.__getitem__", "TimedCompartment.vals", "TimedLink.__getitem__", "TimedLink.vals"):
        fi = repo.func("model", q)
        rets = [r for r in own_nodes(fi.node) if isinstance(r, ast.Return) and r.value is not None]
        def whole_rows(e):
            # self._vals  or  self._vals[:, <t>]
            if isinstance(e, ast.Attribute) and e.attr == "_vals":
                return True
            if isinstance(e, ast.Subscript) and isinstance(e.value, ast.Attribute) and e.value.attr == "_vals":
                r_ = K.row_index_of(e)
                return isinstance(r_, ast.Slice) and r_.lower is None and r_.upper is None and r_.step is None
            return False

        ok = bool(rets) and all(isinstance(r.value, ast.Call) and isinstance(r.value.func, ast.Attribute) and r.value.func.attr == "sum" and whole_rows(r.value.func.value) and any(k.arg == "axis" and isinstance(k.value, ast.Constant) and k.value.value == 0 for k in r.value.keywords) for r in rets)
        ctx.check(ok, "R01g", fi, rets[0] if rets else fi.node, "%s is the sum over the row axis" % q, "%s does not return the sum over all rows of the keyring: the reported size/flow differs from the people held" % q)


# ---------------------------------------------------------------------------------------------- R01h
def r01h(ctx, repo, T):
    ctx.rule("R01h", "view aliasing: a local bound to a slice of .vals/._vals storage (a numpy view) is never the target of an augmented assignment or an out= argument - that would rewrite recorded stocks/flows behind the bookkeeping")
    n = 0
    for fi in repo.module("model").all_functions():
        rd = None
        for s_ in own_nodes(fi.node):
            if not (isinstance(s_, ast.Assign) and len(s_.targets) == 1 and isinstance(s_.targets[0], ast.Name) and isinstance(s_.value, ast.Subscript)):
                continue
            v = s_.value
            if not (isinstance(v.value, ast.Attribute) and v.value.attr in STORAGE):
                continue
            idx = v.slice.elts if isinstance(v.slice, ast.Tuple) else [v.slice]
            if not any(isinstance(i, ast.Slice) for i in idx):
                continue  # an element read gives a scalar, not a view
            n += 1
            name = s_.targets[0].id
            if rd is None:
                rd = K.rdefs(repo, fi)
            hit = None
            for a in own_nodes(fi.node):
                is_aug = isinstance(a, ast.AugAssign) and isinstance(a.target, ast.Name) and a.target.id == name
                is_sub_store = isinstance(a, (ast.Assign, ast.AugAssign)) and any(isinstance(t_, ast.Subscript) and astq.is_name(astq.strip_subs(t_), name) for t_ in (a.targets if isinstance(a, ast.Assign) else [a.target]))
                is_out = isinstance(a, ast.Call) and any(k.arg == "out" and astq.is_name(k.value, name) for k in a.keywords)
                if is_aug or is_sub_store or is_out:
                    st = enclosing_stmt(a) if not isinstance(a, ast.stmt) else a
                    ds = rd.reaching_at_stmt(st, name)
                    if any(d in rd.cfg.ids(s_) for d in ds if d is not None):
                        hit = st
                        break
            if hit is not None:
                ctx.fail("R01h", fi, hit, "`%s` is a view of `%s` (bound at line %d) and `%s` modifies it in place: the recorded value in that storage is rewritten, so stocks no longer change by the recorded flows" % (name, ast.unparse(v), s_.lineno, norm(hit)[:60]))
            else:
                ctx.ok("R01h", fi, "view `%s = %s` is only read" % (name, ast.unparse(v)[:40]), s_)
    ctx.ok("R01h", "atomica/model.py", "%d view bindings of stock/flow storage examined" % n)
