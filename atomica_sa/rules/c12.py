"""C12 - program outcomes are a coverage-weighted average of baseline and combinations (DESIGN 4, C12; thin claim)."""
import ast

from ..core.loader import AnalysisError, own_nodes, norm, enclosing_stmt
from ..core import astq
from ..core.cfg import guards_of, ENTRY, EXIT
from . import common as K

EXPLANATION = (
    "Thin structural claim (the property is a statement about numbers on a continuous cube). R12a: one ordering - the coverage vector, the deltas, the columns of the "
    "combination table and the keys used for explicit interactions all derive from the same sorted sequence built in Covout.update_outcomes; no consumer iterates the "
    "unsorted program dict. R12b: the interaction kinds accepted by the constructor equal the kinds dispatched in get_outcome and the fall-through raises. R12c: an "
    "explicitly specified combination outcome is looked up before the 'best' fallback. R12d: every dispatch branch adds a weights x outcomes sum to the baseline and the "
    "zero/one-program shortcuts return baseline (+ c x delta). R12e: deltas and explicit interaction outcomes are both stored relative to the baseline. "
    "R12f: every masked division in get_outcome is masked by a test of its own denominator (dividing is skipped exactly where it would be 0/0). Convexity, marginals and monotonicity of the weights are not decided."
)


def run(ctx):
    repo = ctx.repo
    ctx.each(r12a, ctx, repo)
    ctx.each(r12b, ctx, repo)
    ctx.each(r12c, ctx, repo)
    ctx.each(r12d, ctx, repo)
    ctx.each(r12e, ctx, repo)
    ctx.each(r12f, ctx, repo)
    ctx.each(r12g, ctx, repo)
    ctx.each(r12h, ctx, repo)
    from . import c16

    from . import c17 as _c17
    from . import c11 as _c11

    ctx.each(_c11.r11a, ctx, repo)  # the coverages handed to the weighting code lie in [0, 1]: get_prop_covered caps at 1 (not at the saturation level)

    ctx.each(_c17.r17e, ctx, repo)  # sampling adds noise to the stored deltas: with zero uncertainty the stored explicit outcomes stay relative to the baseline
    ctx.each(c16.cache_refresh_rule, ctx, repo, "R12i")
    ctx.each(c16.r16a, ctx, repo, K.types(repo))  # the weighted average is computed from a cache of deltas: it must follow every edit of baseline / outcomes


def r12a(ctx, repo):
    ctx.rule("R12a", "one ordering: _cached_progs and _deltas are built from the same sorted sequence; get_outcome and compute_impact_interaction iterate _cached_progs, never self.progs")
    uo = repo.func("programs", "Covout.update_outcomes")
    me = K.self_name(uo)
    # the sorted sequence
    sorts = [s for s in own_nodes(uo.node) if isinstance(s, ast.Assign) and isinstance(s.targets[0], ast.Name) and isinstance(s.value, ast.Call) and ast.unparse(s.value.func) == "sorted"]
    ctx.require(len(sorts) == 1, "R12a: the sort of programs by outcome magnitude was not found in update_outcomes")
    seq = sorts[0].targets[0].id
    key = astq.kwarg(sorts[0].value, "key")
    ctx.check(key is not None and "baseline" in ast.unparse(key) and "abs" in ast.unparse(key), "R12a", uo, sorts[0], "programs sorted by |outcome - baseline|", "programs are not sorted by the magnitude of their effect relative to baseline")
    cached_fill = [s for s in own_nodes(uo.node) if isinstance(s, ast.Assign) and isinstance(s.targets[0], ast.Subscript) and ast.unparse(s.targets[0].value) == "%s._cached_progs" % me]
    ctx.require(cached_fill, "R12a: _cached_progs is not filled in update_outcomes")
    for s in cached_fill:
        loops = K.enclosing_loops(s)
        ctx.check(bool(loops) and ast.unparse(loops[0].iter) == seq and s.lineno > sorts[0].lineno, "R12a", uo, s, "_cached_progs filled in sorted order", "_cached_progs is not filled by iterating the sorted sequence `%s`" % seq)
    deltas = [s for s in own_nodes(uo.node) if isinstance(s, ast.Assign) and ast.unparse(s.targets[0]) == "%s._deltas" % me]
    ctx.require(len(deltas) == 1, "R12a: _deltas assignment not found")
    comp = [n for n in ast.walk(deltas[0].value) if isinstance(n, (ast.ListComp, ast.GeneratorExp))]
    ctx.check(bool(comp) and ast.unparse(comp[0].generators[0].iter) in (seq, "%s._cached_progs.values()" % me, "%s._cached_progs.items()" % me) and deltas[0].lineno > sorts[0].lineno, "R12a", uo, deltas[0], "_deltas built from the same sorted sequence", "_deltas is not built from the sorted sequence `%s`: coverage i is multiplied by the delta of a different program" % seq)
    n = 0
    for q in ("Covout.get_outcome", "Covout.compute_impact_interaction"):
        fi = repo.func("programs", q)
        mef = K.self_name(fi)
        for node in own_nodes(fi.node):
            if isinstance(node, ast.Attribute) and node.attr == "progs" and astq.is_name(node.value, mef):
                par = getattr(node, "_parent", None)
                # len(self.progs) is order-free; anything else (iteration, keys(), indexing by position) depends on dict order
                if isinstance(par, ast.Call) and astq.is_name(par.func, "len"):
                    continue
                n += 1
                ctx.fail("R12a", fi, enclosing_stmt(node), "%s reads `self.progs` directly (`%s`): its order is the entry order, not the sorted order of _deltas and the combination table" % (q, norm(enclosing_stmt(node))[:80]))
        uses = [x for x in own_nodes(fi.node) if isinstance(x, ast.Attribute) and x.attr == "_cached_progs" and astq.is_name(x.value, mef)]
        ctx.check(bool(uses), "R12a", fi, fi.node, "%s takes program order from _cached_progs" % q, "%s does not use _cached_progs at all" % q)
    go = repo.func("programs", "Covout.get_outcome")
    me2 = K.self_name(go)
    cov_loops = [l for l in own_nodes(go.node) if isinstance(l, ast.For) and any(isinstance(c, ast.Call) and isinstance(c.func, ast.Attribute) and c.func.attr == "append" for c in ast.walk(l))]
    ctx.require(cov_loops, "R12a: coverage vector construction not found in get_outcome")
    for l in cov_loops:
        ctx.check(ast.unparse(l.iter).startswith("%s._cached_progs" % me2), "R12a", go, l, "coverage vector follows _cached_progs", "the coverage vector is built by iterating `%s`" % ast.unparse(l.iter))


def r12b(ctx, repo):
    ctx.rule("R12b", "exhaustive dispatch: kinds accepted by Covout.__init__ == kinds handled in get_outcome; fall-through raises")
    init = repo.func("programs", "Covout.__init__")
    accepted = None
    for a in own_nodes(init.node):
        if isinstance(a, (ast.Assert, ast.If)):
            for c in ast.walk(a.test):
                if isinstance(c, ast.Compare) and astq.is_name(c.left, "cov_interaction") and isinstance(c.ops[0], (ast.In, ast.NotIn)) and isinstance(c.comparators[0], (ast.List, ast.Tuple, ast.Set)):
                    accepted = {e.value for e in c.comparators[0].elts if isinstance(e, ast.Constant)}
                    site = a
    ctx.require(accepted is not None, "R12b: the constructor's check of cov_interaction against a literal list was not found")
    default = [s for s in own_nodes(init.node) if isinstance(s, ast.Assign) and astq.is_name(s.targets[0], "cov_interaction") and isinstance(s.value, ast.Constant)]
    go = repo.func("programs", "Covout.get_outcome")
    me = K.self_name(go)
    handled = set()
    chain_last = None
    for c in own_nodes(go.node):
        if isinstance(c, ast.Compare) and ast.unparse(c.left) == "%s.cov_interaction" % me and isinstance(c.ops[0], ast.Eq) and isinstance(c.comparators[0], ast.Constant):
            handled.add(c.comparators[0].value)
            chain_last = getattr(c, "_parent", None)
    ctx.require(handled, "R12b: dispatch on self.cov_interaction not found in get_outcome")
    ctx.check(accepted == handled, "R12b", go, site, "accepted kinds %s == handled kinds" % sorted(accepted), "Covout accepts interaction kinds %s but get_outcome handles %s" % (sorted(accepted), sorted(handled)))
    for d in default:
        ctx.check(d.value.value in handled, "R12b", init, d, "default kind is handled", "the default interaction kind %r is not handled by get_outcome" % d.value.value)
    from ..core.cfg import terminates

    node = chain_last
    while isinstance(node, ast.If) and len(node.orelse) == 1 and isinstance(node.orelse[0], ast.If):
        node = node.orelse[0]
    ctx.check(isinstance(node, ast.If) and bool(node.orelse) and isinstance(node.orelse[-1], ast.Raise), "R12b", go, node if node is not None else go.node, "unknown kind raises", "the fall-through of the interaction dispatch does not raise")


def r12c(ctx, repo):
    ctx.rule("R12c", "explicit combination outcome is looked up before the 'best' fallback")
    fi = repo.func("programs", "Covout.compute_impact_interaction")
    me = K.self_name(fi)
    cfg = K.cfg(repo, fi)
    look = [s for s in own_nodes(fi.node) if isinstance(s, ast.If) and isinstance(s.test, ast.Compare) and isinstance(s.test.ops[0], ast.In) and ast.unparse(s.test.comparators[0]) == "%s._interactions" % me]
    ctx.require(len(look) == 1, "R12c: lookup `combo in self._interactions` not found")
    lk = look[0]
    ret_explicit = [r for r in lk.body if isinstance(r, ast.Return) and "%s._interactions[" % me in ast.unparse(r.value)]
    ctx.check(bool(ret_explicit), "R12c", fi, lk, "explicit outcome returned when present", "the explicit interaction outcome is looked up but not returned")
    best = [r for r in own_nodes(fi.node) if isinstance(r, ast.Return) and r.value is not None and r not in ret_explicit and not (isinstance(r.value, ast.Constant))]
    ctx.require(best, "R12c: 'best' fallback return not found")
    for r in best:
        ctx.check(not cfg.path_exists([ENTRY], cfg.ids(r), avoid_ids=cfg.ids(lk)), "R12c", fi, r, "fallback reachable only after the explicit lookup", "the 'best' fallback `%s` can be returned without first looking for an explicitly specified outcome" % norm(r))
        # fallback = member delta with the largest magnitude
        txt = " ".join(ast.unparse(s) for s in own_nodes(fi.node) if isinstance(s, ast.Assign))
        ctx.check("argmax" in txt and "abs" in txt, "R12c", fi, r, "fallback is the member outcome farthest from baseline", "the fallback is not the member delta of largest magnitude")
    # the empty combination contributes nothing: delta 0 exactly when no program is active (zero coverage gives the baseline)
    from ..core import boolx as B

    zero = [r for r in own_nodes(fi.node) if isinstance(r, ast.Return) and isinstance(r.value, ast.Constant) and not isinstance(r.value.value, bool)]
    okz = len(zero) == 1 and zero[0].value.value == 0
    if okz:
        okz = B.equivalent(B.cond(guards_of(zero[0])), B.parse_cond("not any(%s)" % fi.params[1]))
    ctx.check(okz, "R12c", fi, zero[0] if zero else fi.node, "the empty combination has delta 0", "compute_impact_interaction does not return 0 exactly when no program of the combination is active: the weight put on 'nobody covered' then shifts the outcome away from the baseline even at zero coverage", stmt_text="empty-combination")
    # the key is built from the sorted program names masked by the active combination
    keydef = [s for s in own_nodes(fi.node) if isinstance(s, ast.Assign) and isinstance(s.value, ast.Call) and ast.unparse(s.value.func) == "frozenset"]
    ctx.check(bool(keydef) and "_cached_progs" in ast.unparse(keydef[0].value), "R12c", fi, keydef[0] if keydef else fi.node, "lookup key built from _cached_progs order", "the lookup key is not built from the sorted program order")
    # writer side uses frozenset as well
    init = repo.func("programs", "Covout.__init__")
    w = [s for s in own_nodes(init.node) if isinstance(s, ast.Assign) and isinstance(s.value, ast.Call) and ast.unparse(s.value.func) == "frozenset"]
    ctx.check(bool(w), "R12c", init, w[0] if w else init.node, "explicit outcomes keyed by frozenset of program names (order-free)", "explicit interaction outcomes are not keyed by a frozenset: lookups depend on the order the names were typed")


def r12d(ctx, repo):
    ctx.rule("R12d", "get_outcome: starts from the baseline; zero programs -> baseline; one program -> baseline + c*delta; every dispatch branch adds sum(weights * outcomes)")
    fi = repo.func("programs", "Covout.get_outcome")
    me = K.self_name(fi)
    init = [s for s in fi.node.body if isinstance(s, ast.Assign) and isinstance(s.targets[0], ast.Name) and ast.unparse(s.value) == "%s.baseline" % me]
    ctx.require(len(init) == 1, "R12d: `outcome = self.baseline` not found at the top of get_outcome")
    acc = init[0].targets[0].id
    rets = [r for r in own_nodes(fi.node) if isinstance(r, ast.Return)]
    for r in rets:
        gs = [ast.unparse(t) for t, pol in guards_of(r) if pol]
        if any(g == "%s.n_progs == 0" % me for g in gs):
            ctx.check(astq.is_name(r.value, acc), "R12d", fi, r, "no programs -> baseline", "with no programs get_outcome returns `%s`, not the baseline" % ast.unparse(r.value))
        elif any(g == "%s.n_progs == 1" % me for g in gs):
            v = r.value
            good = isinstance(v, ast.BinOp) and isinstance(v.op, ast.Add) and astq.is_name(v.left, acc) and isinstance(v.right, ast.BinOp) and isinstance(v.right.op, ast.Mult) and "%s._deltas[0]" % me in ast.unparse(v.right) and "prop_covered[" in ast.unparse(v.right)
            ctx.check(good, "R12d", fi, r, "one program -> baseline + coverage * delta", "with one program get_outcome returns `%s`, not baseline + coverage * (outcome - baseline)" % ast.unparse(v))
        else:
            ctx.check(astq.is_name(r.value, acc), "R12d", fi, r, "general case returns the accumulated outcome", "get_outcome returns `%s` instead of the accumulated outcome" % ast.unparse(r.value))
    stores_ = [s for s in own_nodes(fi.node) if isinstance(s, (ast.Assign, ast.AugAssign)) and astq.is_name(s.targets[0] if isinstance(s, ast.Assign) else s.target, acc) and s is not init[0]]
    ctx.require(len(stores_) >= 4, "R12d: fewer accumulation statements (%d) than confirmed (4)" % len(stores_))
    for s in stores_:
        good = isinstance(s, ast.AugAssign) and isinstance(s.op, ast.Add) and isinstance(s.value, ast.Call) and ast.unparse(s.value.func) in ("np.sum", "sum") and ("%s._combination_outcomes" % me in ast.unparse(s.value) or "%s._deltas" % me in ast.unparse(s.value)) and any(isinstance(b, ast.BinOp) and isinstance(b.op, ast.Mult) for b in ast.walk(s.value))
        ctx.check(good, "R12d", fi, s, "branch adds sum(weights * outcomes) to the baseline", "`%s` does not add a coverage-weighted sum of deltas to the baseline" % norm(s)[:90])


def r12e(ctx, repo):
    ctx.rule("R12e", "deltas and explicit interaction outcomes are both stored relative to the baseline")
    uo = repo.func("programs", "Covout.update_outcomes")
    init = repo.func("programs", "Covout.__init__")
    d = [s for s in own_nodes(uo.node) if isinstance(s, ast.Assign) and ast.unparse(s.targets[0]).endswith("._deltas")]
    i = [s for s in own_nodes(init.node) if isinstance(s, ast.Assign) and isinstance(s.targets[0], ast.Subscript) and ast.unparse(s.targets[0].value).endswith("._interactions")]
    ctx.require(d and i, "R12e: _deltas / _interactions stores not found")
    for fi, s in ((uo, d[0]), (init, i[0])):
        sub = [b for b in ast.walk(s.value) if isinstance(b, ast.BinOp) and isinstance(b.op, ast.Sub) and ast.unparse(b.right).endswith(".baseline")]
        ctx.check(bool(sub), "R12e", fi, s, "stored relative to baseline", "`%s` is not stored relative to the baseline while the other table is: explicit and 'best' combination outcomes are on different scales" % norm(s)[:80])
    # the baseline is assigned before the interactions are parsed
    b = [s for s in own_nodes(init.node) if isinstance(s, ast.Assign) and ast.unparse(s.targets[0]).endswith(".baseline")]
    ctx.check(bool(b) and b[0].lineno < i[0].lineno, "R12e", init, b[0] if b else init.node, "baseline set before interactions are made relative to it", "self.baseline is read before it is assigned in Covout.__init__")


def r12f(ctx, repo):
    ctx.rule("R12f", "masked divisions in Covout.get_outcome: np.divide(a, b, out=..., where=W) has W a non-zero test of b itself (b != 0 / b > 0), so the division is skipped exactly where it would be 0/0 and nowhere else")
    fi = repo.func("programs", "Covout.get_outcome")
    n = 0
    for c in own_nodes(fi.node):
        if isinstance(c, ast.Call) and ast.unparse(c.func) == "np.divide" and len(c.args) >= 2 and astq.kwarg(c, "where") is not None:
            n += 1
            den = ast.unparse(c.args[1])
            w = ast.unparse(astq.kwarg(c, "where"))
            ok = w in ("%s != 0" % den, "%s > 0" % den, "%s != 0.0" % den, "%s > 0.0" % den, "0 != %s" % den, "0 < %s" % den)
            ctx.check(ok, "R12f", fi, enclosing_stmt(c), "division by `%s` masked by `%s`" % (den, w), "`%s` divides by `%s` but is masked by `%s`, which is not a test of the denominator: where the two differ a share is left at its fill value although the denominator is non-zero, and the weights no longer have the programs' coverages as marginals" % (ast.unparse(c)[:70], den, w))
    ctx.require(n >= 1, "R12f: masked division not found in Covout.get_outcome")


def _branch(fi, kind):
    """body of  `if self.cov_interaction == "<kind>"`  in get_outcome"""
    me = K.self_name(fi)
    for s in own_nodes(fi.node):
        if isinstance(s, ast.If) and isinstance(s.test, ast.Compare) and ast.unparse(s.test.left) == "%s.cov_interaction" % me and isinstance(s.test.comparators[0], ast.Constant) and s.test.comparators[0].value == kind and isinstance(s.test.ops[0], ast.Eq):
            return s
    return None


def _assigned(body, name):
    return [s for st in body for s in ast.walk(st) if isinstance(s, ast.Assign) and len(s.targets) == 1 and ast.unparse(s.targets[0]) == name]


def r12g(ctx, repo):
    from ..core import algebra as A

    ctx.rule("R12g", "combination weights have the stated closed forms (polynomial normal form over the roles C = self.combinations, c = coverages): random: prod_j [C c + (1-C)(1-c)]; additive above total coverage 1: a = max(c - max(cumsum(c) - 1, 0), 0), r = (c - a)/(1 - a), weight_i = sum_i [C a]_i prod_{j!=i} [C r + (1-C)(1-r)]_j, below 1 the single-program deltas weighted by c; nested: sorted coverages, weight of the remaining set = c_(i) - c_(i-1); each dotted with the combination outcomes and added to the baseline")
    fi = repo.func("programs", "Covout.get_outcome")
    me = K.self_name(fi)
    C = "%s.combinations" % me
    OUT = "%s._combination_outcomes" % me
    # --- random
    br = _branch(fi, "random")
    ctx.require(br is not None, "R12g: branch for 'random' not found in Covout.get_outcome")
    cc = _assigned(br.body, "combination_coverage")
    ok = len(cc) == 1 and isinstance(cc[0].value, ast.Call) and ast.unparse(cc[0].value.func) in ("np.product", "np.prod") and astq.kwarg(cc[0].value, "axis") is not None and ast.unparse(astq.kwarg(cc[0].value, "axis")) == "1"
    if ok:
        try:
            ok = A.poly(cc[0].value.args[0]) == A.poly(A.parse("%s * cov + (1 - %s) * (1 - cov)" % (C, C)))
        except A.NotPolynomial:
            ok = False
    ctx.check(ok, "R12g", fi, cc[0] if cc else br, "random: weights = prod_j [C c + (1-C)(1-c)]", "`%s` is not the product over programs of C*c + (1-C)*(1-c): the weights of the program combinations no longer form the distribution of independent coverages (marginals differ from the programs' coverages)" % (norm(cc[0])[:100] if cc else "the random branch"), stmt_text="random-weights")
    # --- additive
    ba = _branch(fi, "additive")
    ctx.require(ba is not None, "R12g: branch for 'additive' not found in Covout.get_outcome")
    inner = [s for s in ba.body if isinstance(s, ast.If)]
    ctx.require(len(inner) == 1, "R12g: the total-coverage test of the additive branch was not found")
    t = inner[0].test
    okt = isinstance(t, ast.Compare) and len(t.ops) == 1 and isinstance(t.ops[0], ast.Gt) and ast.unparse(t.left) in ("np.sum(cov)", "sum(cov)", "cov.sum()") and ast.unparse(t.comparators[0]) in ("1", "1.0")
    ctx.check(okt, "R12g", fi, inner[0], "additive: random mixing only when total coverage exceeds 1", "the additive branch switches to random mixing under `%s` instead of `np.sum(cov) > 1`" % ast.unparse(t), stmt_text="additive-test")
    over, under = inner[0].body, inner[0].orelse
    want = {
        "additive": "np.maximum(cov - np.maximum(np.cumsum(cov) - 1, 0), 0)",
        "remainder": "1 - additive",
        "random": "cov - additive",
        "additive_portion_coverage": "%s * additive" % C,
        "net_random": "%s * random_portion + (1 - %s) * (1 - random_portion)" % (C, C),
    }
    for name, formula in want.items():
        a = _assigned(over, name)
        ok = len(a) == 1
        if ok:
            try:
                ok = A.poly(a[0].value) == A.poly(A.parse(formula))
            except A.NotPolynomial:
                ok = False
        ctx.check(ok, "R12g", fi, a[0] if a else inner[0], "additive: %s = %s" % (name, formula), "`%s` is not %s = %s: the additive-then-random weights no longer have the programs' coverages as marginals" % (norm(a[0])[:90] if a else name, name, formula), stmt_text="additive:%s" % name)
    rp = _assigned(over, "random_portion")
    ok = len(rp) == 1 and isinstance(rp[0].value, ast.Call) and ast.unparse(rp[0].value.func) == "np.divide" and [ast.unparse(x) for x in rp[0].value.args[:2]] == ["random", "remainder"]
    ctx.check(ok, "R12g", fi, rp[0] if rp else inner[0], "additive: random_portion = random / remainder", "random_portion is not random / remainder", stmt_text="additive:random_portion")
    # the double loop: contribution = [C a]_i * prod_{j != i} net_random_j, accumulated with +=
    outer = [l for l in over if isinstance(l, ast.For)]
    okl = len(outer) == 1 and isinstance(outer[0].target, ast.Name)
    if okl:
        i = outer[0].target.id
        innerl = [l for l in outer[0].body if isinstance(l, ast.For)]
        okl = len(innerl) == 1 and isinstance(innerl[0].target, ast.Name) and ast.unparse(outer[0].iter) == ast.unparse(innerl[0].iter) == "range(0, net_random.shape[1])"
        if okl:
            j = innerl[0].target.id
            init = [s for s in outer[0].body if isinstance(s, ast.Assign) and ast.unparse(s.targets[0]) == "contribution"]
            okl = len(init) == 1 and ast.unparse(init[0].value).startswith("np.ones(")
            ifs = [s for s in innerl[0].body if isinstance(s, ast.If)]
            okl = okl and len(ifs) == 1 and ast.unparse(ifs[0].test) in ("%s == %s" % (i, j), "%s == %s" % (j, i))
            if okl:
                same, diff = ifs[0].body, ifs[0].orelse
                okl = len(same) == 1 and len(diff) == 1 and norm(same[0]) == "contribution *= additive_portion_coverage[:, %s]" % j and norm(diff[0]) == "contribution *= net_random[:, %s]" % j
            acc = [s for s in outer[0].body if isinstance(s, ast.AugAssign) and ast.unparse(s.target) == "combination_coverage"]
            okl = okl and len(acc) == 1 and isinstance(acc[0].op, ast.Add) and ast.unparse(acc[0].value) == "contribution"
            z = _assigned(over, "combination_coverage")
            okl = okl and len(z) == 1 and ast.unparse(z[0].value).startswith("np.zeros(")
    ctx.check(okl, "R12g", fi, outer[0] if outer else inner[0], "additive: weight = sum_i [C a]_i prod_{j != i} [net random]_j", "the double loop of the additive branch is not `combination_coverage += prod_j (additive_portion_coverage[:, j] if i == j else net_random[:, j])` over all i, j starting from zeros / ones", stmt_text="additive:loops")
    u = [s for s in under if isinstance(s, ast.AugAssign) and ast.unparse(s.target) == "outcome"]
    oku = len(u) == 1 and isinstance(u[0].op, ast.Add)
    if oku:
        try:
            oku = isinstance(u[0].value, ast.Call) and ast.unparse(u[0].value.func) in ("np.sum", "sum") and A.poly(u[0].value.args[0]) == A.poly(A.parse("cov * %s._deltas" % me))
        except A.NotPolynomial:
            oku = False
    ctx.check(oku, "R12g", fi, u[0] if u else inner[0], "additive below 1: baseline + sum(c * delta)", "below total coverage 1 the additive outcome is not baseline + sum(cov * deltas)", stmt_text="additive:under")
    # --- nested
    bn = _branch(fi, "nested")
    ctx.require(bn is not None, "R12g: branch for 'nested' not found in Covout.get_outcome")
    idx = _assigned(bn.body, "idx")
    okn = len(idx) == 1 and ast.unparse(idx[0].value) == "np.argsort(cov)"
    loops = [l for l in bn.body if isinstance(l, ast.For)]
    okn = okn and len(loops) == 1 and isinstance(loops[0].target, ast.Name) and ast.unparse(loops[0].iter) in ("range(0, len(cov))", "range(len(cov))")
    if okn:
        i = loops[0].target.id
        st = [s for s in ast.walk(loops[0]) if isinstance(s, ast.Assign) and ast.unparse(s.targets[0]) == "combination_coverage[combination_index]"]
        forms = set()
        for s in st:
            g = [(ast.unparse(t), pol) for t, pol in guards_of(s, stop=loops[0])]
            try:
                p = A.show(A.poly(s.value))
            except A.NotPolynomial:
                p = ast.unparse(s.value)
            forms.add((tuple(g), p))
        first = ((("%s == 0" % i, True),), "cov[idx[%s]]" % i)
        later = ((("%s == 0" % i, False),), A.show(A.poly(A.parse("cov[idx[%s]] - cov[idx[%s - 1]]" % (i, i)))))
        okn = forms == {first, later}
        mask = [s for s in loops[0].body if isinstance(s, ast.Assign) and ast.unparse(s.targets[0]) == "prog_mask[idx[%s]]" % i]
        okn = okn and len(mask) == 1 and ast.unparse(mask[0].value) == "False" and all(mask[0].lineno > s.lineno for s in st)
        pm = _assigned(bn.body, "prog_mask")
        okn = okn and len(pm) == 1 and "True" in ast.unparse(pm[0].value)
    ctx.check(okn, "R12g", fi, loops[0] if loops else bn, "nested: sorted coverages, weight of the remaining set = c_(i) - c_(i-1), smallest program dropped each round", "the nested branch is not: idx = argsort(cov); weight[set of programs still active] = cov[idx[0]] for the full set, then cov[idx[i]] - cov[idx[i-1]], removing program idx[i] after each round - nested weights no longer have the coverages as marginals", stmt_text="nested")
    # --- every branch: outcome += sum(weights * combination outcomes)
    for b, nm in ((over, "additive"), (bn.body, "nested"), (br.body, "random")):
        u = [s for s in b if isinstance(s, ast.AugAssign) and ast.unparse(s.target) == "outcome"]
        ok = len(u) == 1 and isinstance(u[0].op, ast.Add) and isinstance(u[0].value, ast.Call) and ast.unparse(u[0].value.func) in ("np.sum", "sum")
        if ok:
            try:
                ok = A.poly(u[0].value.args[0]) == A.poly(A.parse("combination_coverage * %s" % OUT))
            except A.NotPolynomial:
                ok = False
        ctx.check(ok, "R12g", fi, u[0] if u else fi.node, "%s: outcome += sum(weights * combination outcomes)" % nm, "the %s branch does not add sum(combination_coverage * combination outcomes) to the baseline" % nm, stmt_text="dot:%s" % nm)


def r12h(ctx, repo):
    ctx.rule("R12h", "outcome arithmetic is floating point: no array preallocated in Covout (np.zeros / np.empty / np.full / np.ones / np.array with dtype=...) takes its dtype from the inputs or narrows it - an integer-typed cache truncates an explicitly specified combination outcome such as 24.5 to 24")
    ci = repo.cls("programs", "Covout")
    n = 0
    for name, fi in ci.methods.items():
        for c in own_nodes(fi.node):
            if isinstance(c, ast.Call) and ast.unparse(c.func) in ("np.zeros", "np.empty", "np.full", "np.ones", "np.array", "np.zeros_like", "np.ones_like", "np.full_like", "np.asarray"):
                dt = astq.kwarg(c, "dtype")
                if dt is None:
                    continue
                n += 1
                ok = ast.unparse(dt) in ("float", "np.float64", "np.double", "'float'", "'float64'", "np.float_")
                ctx.check(ok, "R12h", fi, enclosing_stmt(c), "`%s` is explicitly float" % ast.unparse(c)[:50], "`%s` allocates with dtype `%s`: when baseline and outcomes were entered as whole numbers the array is integer-typed and values assigned into it (explicit combination outcomes, weights) are truncated, so the result is no longer the weighted average of the specified outcomes" % (ast.unparse(c)[:70], ast.unparse(dt)))
    ctx.extra["covout_dtype_arguments"] = n
    ctx.ok("R12h", "atomica/programs.py", "%d explicit dtype arguments in Covout examined" % n)
