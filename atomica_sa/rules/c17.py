"""C17 - sampled runs are independent draws, serial or parallel, and do not alter sources (DESIGN 4, C17)."""
import ast

from ..core.loader import AnalysisError, own_nodes, norm, enclosing_stmt
from ..core import astq
from ..core.cfg import guards_of, ENTRY
from . import common as K
from .c08 import engines

EXPLANATION = (
    "R17a: every function handed to a process pool (parallel_progress -> multiprocessing.Pool, sc.parallelize) whose call-graph closure reaches a draw from NumPy's "
    "global generator must be preceded by a reseed in the pool initialiser or in the task function itself: forked workers inherit the parent's generator state and would "
    "otherwise produce identical samples. R17b: attribute definedness - every self.X read on the sampling path names an attribute the class (or its bases/subclasses) "
    "defines. R17c (effect summaries): sample() of ParameterSet, ProgramSet and TimeSeries do not mutate self. R17d: every draw is scaled by the object's sigma and is "
    "reached only when sigma is not None, so zero/absent uncertainty is the identity. R17e: every value written by a sample() method is `old value + (terms that carry sigma as a factor)`, so with sigma = 0 the stored value is exactly the old one (a stray baseline or offset would change zero-uncertainty samples). Statistical independence beyond 'not the same stream' is not decided."
)

DRAWS = {"rand", "randn", "random", "normal", "uniform", "randint", "choice", "standard_normal", "random_sample", "sample", "lognormal", "beta", "gamma", "poisson", "binomial", "multivariate_normal", "permutation", "shuffle"}
ENTROPY = {"os.urandom", "urandom", "secrets.randbits", "secrets.token_bytes", "np.random.SeedSequence", "SeedSequence", "random.SystemRandom"}
SEEDS = {"np.random.seed", "numpy.random.seed", "random.seed", "sc.setseed"}


def run(ctx):
    repo = ctx.repo
    T, cg, E = engines(repo)
    ctx.each(r17a, ctx, repo, cg)
    ctx.each(r17b, ctx, repo, T, cg)
    ctx.each(r17c, ctx, repo, E)
    ctx.each(r17d, ctx, repo)
    ctx.each(r17e, ctx, repo)
    ctx.each(r17f, ctx, repo)
    from . import shapes

    ctx.each(shapes.copy_hook_rule, ctx, repo, "R17g")
    from . import c16

    ctx.each(c16.cache_refresh_rule, ctx, repo, "R17h")  # a sampled Covout recomputes everything get_outcome() reads from the sampled values


GENERATOR_CTORS = ("np.random.default_rng", "numpy.random.default_rng", "np.random.RandomState", "np.random.Generator", "default_rng", "random.Random")


def module_generators(module):
    """module-level names bound to a random generator object: {name: stmt}"""
    out = {}
    for s in module.tree.body:
        if isinstance(s, ast.Assign) and len(s.targets) == 1 and isinstance(s.targets[0], ast.Name) and isinstance(s.value, ast.Call) and ast.unparse(s.value.func) in GENERATOR_CTORS:
            out[s.targets[0].id] = s
    return out


def generator_draws(fi):
    """draws from a module-level generator object (its state is copied into every forked worker; np.random.seed() does not touch it)"""
    gens = module_generators(fi.module)
    out = []
    for c in own_nodes(fi.node):
        if isinstance(c, ast.Call) and isinstance(c.func, ast.Attribute) and isinstance(c.func.value, ast.Name) and c.func.value.id in gens and c.func.attr in DRAWS | {"standard_normal", "integers", "random"}:
            out.append(c)
    return out


def draw_calls(fi):
    out = []
    for c in own_nodes(fi.node):
        if isinstance(c, ast.Call):
            fn = ast.unparse(c.func)
            if fn.startswith(("np.random.", "numpy.random.")) and fn.split(".")[-1] in DRAWS:
                out.append(c)
    return out + generator_draws(fi)


def has_reseed(fi):
    """Reseeds from fresh OS entropy: `np.random.seed()` / `seed(None)`.  A reseed with an argument (a constant, the process id, an
    index) is not counted: it restarts the same stream every time the task runs in that process, so it does not make draws independent."""
    return [c for c in own_nodes(fi.node) if isinstance(c, ast.Call) and ast.unparse(c.func) in SEEDS and _fresh_entropy(c)]


def _fresh_entropy(c):
    args = list(c.args) + [k.value for k in c.keywords]

    def entropy(a):
        if isinstance(a, ast.Constant) and a.value is None:
            return True
        return any(isinstance(x, ast.Call) and ast.unparse(x.func) in ENTROPY for x in ast.walk(a))

    return all(entropy(a) for a in args)


def deterministic_reseeds(fi):
    return [c for c in own_nodes(fi.node) if isinstance(c, ast.Call) and ast.unparse(c.func) in SEEDS and not _fresh_entropy(c)]


def _resolve_task(repo, cg, fi, arg):
    """FuncInfo of the function handed to the pool (through functools.partial and a local binding)."""
    if isinstance(arg, ast.Name):
        f = cg._nested_lookup(fi, arg.id) or repo.resolve_function_name(fi.module, arg.id)
        if f is not None:
            return f
        binds = [s.value for s in own_nodes(fi.node) if isinstance(s, ast.Assign) and any(astq.is_name(t, arg.id) for t in s.targets)]
        if len(binds) == 1:
            return _resolve_task(repo, cg, fi, binds[0])
        if arg.id in fi.params:
            return "param"
        return None
    if isinstance(arg, ast.Call) and ast.unparse(arg.func) in ("functools.partial", "partial") and arg.args:
        return _resolve_task(repo, cg, fi, arg.args[0])
    return None


def r17a(ctx, repo, cg):
    ctx.rule("R17a", "reseed before forked draws: a pool task whose closure reaches np.random draws needs np.random.seed(...) in the pool initialiser or in the task function before the first such call")
    submissions = []  # (site fi, call, task FuncInfo, initializer FuncInfo|None, kind)
    for fi in repo.all_functions():
        for c in own_nodes(fi.node):
            if not isinstance(c, ast.Call):
                continue
            fn = ast.unparse(c.func)
            if fn == "parallel_progress" and c.args:
                submissions.append((fi, c, _resolve_task(repo, cg, fi, c.args[0]), "parallel_progress"))
            elif fn in ("sc.parallelize", "parallelize") and c.args:
                submissions.append((fi, c, _resolve_task(repo, cg, fi, c.args[0]), "sc.parallelize"))
            elif fn.endswith("apply_async") or fn.endswith(".map_async") or fn.endswith("pool.map") or fn.endswith(".imap"):
                if fi.qualname != "parallel_progress":
                    submissions.append((fi, c, _resolve_task(repo, cg, fi, c.args[0]) if c.args else None, "direct pool"))
    ctx.require(len(submissions) >= 2, "R17a: fewer pool submissions (%d) than confirmed (2: Project.run_sampled_sims, Ensemble.run_sims)" % len(submissions))
    # initialiser of the generic pool
    pp = repo.func("utils", "parallel_progress")
    init = None
    for c in own_nodes(pp.node):
        if isinstance(c, ast.Call) and ast.unparse(c.func).endswith("Pool"):
            iv = astq.kwarg(c, "initializer")
            if isinstance(iv, ast.Name):
                init = repo.resolve_function_name(pp.module, iv.id)
    ctx.require(any(ast.unparse(c.func).endswith("apply_async") for c in own_nodes(pp.node) if isinstance(c, ast.Call)), "R17a: parallel_progress no longer submits through apply_async (unrecognised shape)")
    for fi, call, task, kind in submissions:
        ctx.examine()
        if task is None or task == "param":
            raise AnalysisError("R17a: cannot resolve the function handed to the pool at %s (`%s`)" % (fi.loc(call), ast.unparse(call)[:80]))
        seen = cg.reachable([task])
        drawers = [fq for fq in seen if draw_calls(cg.byfq[fq])]
        if not drawers:
            ctx.ok("R17a", fi, "%s(%s): no global-generator draw reachable from the task" % (kind, task.qualname), call)
            continue
        witness = " -> ".join(cg.path_to(seen, sorted(drawers)[0]))
        # draws from a module-level generator object are not affected by np.random.seed(): the worker (initialiser or task) would have to rebind it
        for fq in sorted(drawers):
            for gd in generator_draws(cg.byfq[fq]):
                gname = gd.func.value.id
                rebinders = [f for f in ([init] if init is not None else []) + [task] if f is not None and any(isinstance(x, ast.Global) and gname in x.names for x in own_nodes(f.node))]
                ctx.check(bool(rebinders), "R17a", cg.byfq[fq], enclosing_stmt(gd), "module-level generator `%s` re-created in every worker" % gname, "`%s` draws from the module-level generator `%s`; %s hands `%s` to forked workers, each of which inherits an identical copy of that generator's state (np.random.seed() in the initialiser does not reseed it): samples run on different workers receive the same perturbations" % (ast.unparse(gd)[:60], gname, kind, task.qualname))
        # a reseed with a fixed argument anywhere on the worker's path restarts the same stream each time it runs
        for f in [cg.byfq[q] for q in sorted(seen)] + ([init] if init is not None and kind == "parallel_progress" else []):
            for dr in deterministic_reseeds(f):
                ctx.fail("R17a", f, enclosing_stmt(dr), "`%s` on the path of the pool task %s reseeds the global generator with a value that is the same every time it runs in one process (`%s`): all samples drawn after it in that worker repeat the same perturbations; reseed from fresh entropy (no argument)" % (ast.unparse(dr)[:60], task.qualname, ", ".join(ast.unparse(a) for a in dr.args) or "keyword"), stmt_text="deterministic-reseed")
        seeded_by_init = kind == "parallel_progress" and init is not None and bool(has_reseed(init))
        if seeded_by_init:
            # ... on every path through the initialiser: an early return in front of the reseed leaves the forked generator state in place
            icfg = K.cfg(repo, init)
            seed_ids = [i for r in has_reseed(init) for i in icfg.ids(enclosing_stmt(r))]
            from ..core.cfg import EXIT as _EXIT

            skip = icfg.find_path([ENTRY], [_EXIT], avoid_ids=seed_ids)
            if skip is not None:
                seeded_by_init = False
                ctx.fail("R17a", init, enclosing_stmt(has_reseed(init)[0]), "the pool initialiser %s can return without reseeding (path %s): whenever that path is taken every forked worker keeps the parent's generator state, so samples run on different workers share their perturbations" % (init.qualname, icfg.describe_path(skip)), stmt_text="initialiser-reseed-on-every-path")
        seeded_in_task = False
        rs = has_reseed(task)
        if rs:
            cfg = K.cfg(repo, task)
            # calls in the task that can reach a draw
            risky = []
            for c2, targets in cg.sites.get(task.fq, []):
                for callee, k in targets:
                    sub = cg.reachable([callee])
                    if any(draw_calls(cg.byfq[q]) for q in sub):
                        risky.append(enclosing_stmt(c2))
            risky += [enclosing_stmt(d) for d in draw_calls(task)]
            seed_stmts = [enclosing_stmt(r) for r in rs]
            seeded_in_task = bool(risky) and all(not cfg.path_exists([ENTRY], cfg.ids(r), avoid_ids=[i for s in seed_stmts for i in cfg.ids(s)]) for r in risky)
        where = "pool initialiser %s" % init.qualname if seeded_by_init else "task function"
        ctx.check(seeded_by_init or seeded_in_task, "R17a", fi, enclosing_stmt(call), "%s(%s): generator reseeded in the %s before draws (%s)" % (kind, task.qualname, where, witness), "%s hands `%s` to worker processes; it reaches a draw from NumPy's global generator (%s) but neither the pool initialiser nor the task reseeds: forked workers start from the same generator state, so samples run on different workers are identical" % (kind, task.qualname, witness))


def r17b(ctx, repo, T, cg):
    ctx.rule("R17b", "attribute definedness: every self.X read in a method is defined by the class, its bases or subclasses, or stored somewhere in the repo under that name; violations on the sampling path are findings, elsewhere notes")
    # attribute stores through receivers of *unknown* type may define the attribute on any class; stores through a typed receiver define it on that class only
    stored_untyped = set()
    stored_typed = {}
    for fi in repo.all_functions():
        for n in own_nodes(fi.node):
            if isinstance(n, ast.Attribute) and isinstance(n.ctx, (ast.Store, ast.Del)):
                t = T.type_at(n.value, fi, n)
                if t is not None and t[0] == "I":
                    for c in T.classes_of(t):
                        stored_typed.setdefault(c.fq, set()).add(n.attr)
                elif t is None:
                    stored_untyped.add(n.attr)
            if isinstance(n, ast.Call) and astq.is_name(n.func, "setattr") and len(n.args) >= 2 and isinstance(n.args[1], ast.Constant):
                stored_untyped.add(n.args[1].value)
    sampling_roots = [repo.func("project", "_run_sampled_sim"), repo.func("results", "_sample_and_map")]
    for m, q in (("parameters", "ParameterSet.sample"), ("programs", "ProgramSet.sample")):
        sampling_roots.append(repo.func(m, q))
    on_path = set(cg.reachable(sampling_roots))
    n_classes = n_reads = 0
    skipped = []
    for ci in repo.all_classes():
        fam = repo.mro(ci) + repo.subclasses(ci, strict=True)
        if any(c.external_bases for c in repo.mro(ci)):
            ext = [b for c in repo.mro(ci) for b in c.external_bases]
            if not all(b in ("Exception", "object") for b in ext):
                skipped.append(ci.name)
                continue
        if any("__getattr__" in c.methods for c in repo.mro(ci)):
            skipped.append(ci.name)
            continue
        dynamic = any(isinstance(n, ast.Call) and astq.is_name(n.func, "setattr") and n.args and astq.is_name(n.args[0], K.self_name(f)) and not isinstance(n.args[1] if len(n.args) > 1 else None, ast.Constant) for c in fam for f in c.methods.values() for n in own_nodes(f.node)) or any("__dict__" in ast.unparse(s.targets[0]) for c in fam for f in c.methods.values() for s in own_nodes(f.node) if isinstance(s, ast.Assign))
        defined = set()
        for c in fam:
            defined |= set(c.methods) | set(c.setters) | c.class_attrs | stored_typed.get(c.fq, set())
        n_classes += 1
        for fi in list(ci.methods.values()) + list(ci.setters.values()):
            if fi.is_static or fi.is_classmethod or not fi.params:
                continue
            me = fi.params[0]
            for n in own_nodes(fi.node):
                if isinstance(n, ast.Attribute) and isinstance(n.ctx, ast.Load) and astq.is_name(n.value, me):
                    n_reads += 1
                    if n.attr in defined or n.attr in stored_untyped or n.attr.startswith("__"):
                        continue
                    if dynamic:
                        continue
                    # hasattr / getattr-guarded reads are deliberate probes
                    if any("hasattr(%s, '%s')" % (me, n.attr) in ast.unparse(t) for t, pol in guards_of(n)):
                        continue
                    msg = "`%s.%s` is read in %s but no class in its hierarchy (and no statement in the repository) defines an attribute of that name: AttributeError when this line runs" % (me, n.attr, fi.qualname)
                    if fi.fq in on_path:
                        ctx.fail("R17b", fi, enclosing_stmt(n), msg + " - on the sampling path, so program books that reach it cannot be sampled", stmt_text="undefined-attribute:%s" % n.attr)
                    else:
                        ctx.note("R17b", "%s:%d %s (not on the sampling path; no property speaks about it)" % (fi.module.relpath, n.lineno, msg))
    ctx.require(n_classes >= 50 and n_reads >= 1500, "R17b: coverage shrank (classes %d, self.X reads %d)" % (n_classes, n_reads))
    ctx.ok("R17b", "atomica/*", "%d classes, %d self.X reads examined; skipped (external base or __getattr__): %s" % (n_classes, n_reads, ", ".join(sorted(skipped))))
    ctx.extra["sampling_path_functions"] = len(on_path)


def r17c(ctx, repo, E):
    ctx.rule("R17c", "samples are copies: ParameterSet.sample, ProgramSet.sample, TimeSeries.sample do not definitely mutate self")
    for m, q in (("parameters", "ParameterSet.sample"), ("programs", "ProgramSet.sample"), ("utils", "TimeSeries.sample")):
        fi = repo.func(m, q)
        me = fi.params[0]
        muts = E.mutates(fi, me)
        if muts:
            chain = E.explain(fi, me)
            ctx.fail("R17c", fi, fi.node, "%s mutates the object it samples from: %s" % (q, "  ->  ".join(chain)), stmt_text="mutates:self:%s" % (chain[-1].split(" ", 1)[-1] if chain else ""))
        else:
            ctx.ok("R17c", fi, "%s leaves self untouched" % q)
        # a copy is made and returned
        cps = [s for s in own_nodes(fi.node) if isinstance(s, ast.Assign) and isinstance(s.value, ast.Call) and (ast.unparse(s.value.func) in ("sc.dcp", "copy.deepcopy") or (isinstance(s.value.func, ast.Attribute) and s.value.func.attr == "copy" and astq.is_name(s.value.func.value, me)))]
        rets = [r for r in own_nodes(fi.node) if isinstance(r, ast.Return) and r.value is not None]
        ok = bool(cps) and all(isinstance(r.value, ast.Name) and r.value.id == cps[0].targets[0].id for r in rets)
        ctx.check(ok, "R17c", fi, cps[0] if cps else fi.node, "%s returns a copy" % q, "%s does not return a copy of self" % q)
    # the in-place samplers are only called on copies
    for m, q, inner in (("parameters", "ParameterSet.sample", "sample"), ("programs", "ProgramSet.sample", "sample")):
        fi = repo.func(m, q)
        cp = [s.targets[0].id for s in own_nodes(fi.node) if isinstance(s, ast.Assign) and isinstance(s.value, ast.Call) and ast.unparse(s.value.func) in ("sc.dcp", "copy.deepcopy") and isinstance(s.targets[0], ast.Name)]
        for l in own_nodes(fi.node):
            if isinstance(l, ast.For):
                calls = [c for c in ast.walk(l) if isinstance(c, ast.Call) and isinstance(c.func, ast.Attribute) and c.func.attr == inner]
                if calls:
                    root = astq.strip_subs(l.iter)
                    while isinstance(root, (ast.Attribute, ast.Call, ast.Subscript, ast.BinOp)):
                        root = root.func if isinstance(root, ast.Call) else (root.left if isinstance(root, ast.BinOp) else root.value)
                    ctx.check(isinstance(root, ast.Name) and root.id in cp, "R17c", fi, l, "in-place sampling ranges over the copy", "in-place sampling iterates `%s`, which is not the copy" % ast.unparse(l.iter)[:60])


def r17d(ctx, repo):
    ctx.rule("R17d", "zero uncertainty is the identity: every draw in the sample family is multiplied by self.sigma and reachable only when sigma is not None")
    n = 0
    for m, q in (("utils", "TimeSeries.sample"), ("programs", "Covout.sample")):
        fi = repo.func(m, q)
        me = fi.params[0]
        for d in draw_calls(fi):
            n += 1
            top = d
            while True:
                p = getattr(top, "_parent", None)
                if isinstance(p, ast.BinOp) and isinstance(p.op, ast.Mult):
                    top = p
                elif isinstance(p, ast.Subscript) and p.value is top:
                    top = p
                else:
                    break
            facs = []

            def flat(x):
                if isinstance(x, ast.BinOp) and isinstance(x.op, ast.Mult):
                    flat(x.left)
                    flat(x.right)
                else:
                    facs.append(ast.unparse(x))

            flat(top)
            scaled = "%s.sigma" % me in facs
            gs = guards_of(d)
            guarded = any((pol and ast.unparse(t) in ("%s.sigma is not None" % me, "%s.sigma" % me)) or ((not pol) and ast.unparse(t) == "%s.sigma is None" % me) for t, pol in gs)
            ctx.check(scaled and guarded, "R17d", fi, enclosing_stmt(d), "draw scaled by sigma and guarded by sigma is not None", "the draw `%s` is %s: with no uncertainty entered the sampled value differs from the source (or raises)" % (ast.unparse(top)[:70], "not multiplied by self.sigma" if not scaled else "reached when sigma is None"))
    ctx.require(n >= 4, "R17d: fewer draws (%d) in the sample family than confirmed (4)" % n)


def _terms(e, sign=1):
    if isinstance(e, ast.BinOp) and isinstance(e.op, ast.Add):
        return _terms(e.left, sign) + _terms(e.right, sign)
    if isinstance(e, ast.BinOp) and isinstance(e.op, ast.Sub):
        return _terms(e.left, sign) + _terms(e.right, -sign)
    return [(sign, e)]


def _factors(e):
    if isinstance(e, ast.BinOp) and isinstance(e.op, ast.Mult):
        return _factors(e.left) + _factors(e.right)
    if isinstance(e, ast.Subscript):
        return _factors(e.value)
    return [ast.unparse(e)]


def r17e(ctx, repo):
    ctx.rule("R17e", "identity at sigma = 0: in TimeSeries.sample and Covout.sample every stored value is the previous value plus terms that have self.sigma (or a local defined as such a product) as a factor")
    n = 0
    for m, q in (("utils", "TimeSeries.sample"), ("programs", "Covout.sample")):
        fi = repo.func(m, q)
        sig = "%s.sigma" % fi.params[0]
        assigns = {}
        for s_ in own_nodes(fi.node):
            if isinstance(s_, ast.Assign) and len(s_.targets) == 1 and isinstance(s_.targets[0], ast.Name):
                assigns.setdefault(s_.targets[0].id, []).append(s_.value)
        noise = {k for k, vs in assigns.items() if all(sig in _factors(v) for v in vs)}
        # loop variables drawn from  zip(<old values>, self.sigma * randn(n))
        zip_old = {}
        for l in own_nodes(fi.node):
            if isinstance(l, ast.For):
                for c in ast.walk(l.iter):
                    if isinstance(c, ast.Call) and isinstance(c.func, ast.Name) and c.func.id == "zip" and len(c.args) == 2 and sig in _factors(c.args[1]):
                        tg = [t for t in ast.walk(l.target) if isinstance(t, ast.Tuple) and len(t.elts) == 2 and all(isinstance(x, ast.Name) for x in t.elts)]
                        if tg:
                            noise.add(tg[-1].elts[1].id)
                            zip_old[tg[-1].elts[0].id] = ast.unparse(c.args[0])

        def vanishes(term):
            fs = _factors(term)
            return sig in fs or any(f in noise for f in fs)

        def expand(v):
            # a local bound once to an expression stands for that expression
            if isinstance(v, ast.Name) and v.id not in noise and len(assigns.get(v.id, [])) == 1:
                return expand(assigns[v.id][0])
            return v

        cands = []  # (store stmt, stored expr, text of the expression that denotes the old value)
        for s_ in own_nodes(fi.node):
            if isinstance(s_, ast.Assign) and len(s_.targets) == 1 and isinstance(s_.targets[0], ast.Subscript):
                tgt = s_.targets[0]
                for l in K.enclosing_loops(s_):
                    it = ast.unparse(l.iter)
                    if isinstance(l.target, ast.Tuple) and len(l.target.elts) == 2 and it == ast.unparse(tgt.value) + ".items()" and ast.unparse(tgt.slice) == ast.unparse(l.target.elts[0]):
                        cands.append((s_, s_.value, ast.unparse(l.target.elts[1])))
                        break
                    if it.startswith("enumerate(") and isinstance(l.target, ast.Tuple) and ast.unparse(tgt.slice) == ast.unparse(l.target.elts[0]):
                        olds = [k for k, v in zip_old.items() if v == ast.unparse(tgt.value)]
                        cands.append((s_, s_.value, olds[0] if olds else None))
                        break
            elif isinstance(s_, ast.Assign) and len(s_.targets) == 1 and isinstance(s_.targets[0], ast.Attribute) and isinstance(s_.value, ast.ListComp) and len(s_.value.generators) == 1 and ast.unparse(s_.value.generators[0].iter) == ast.unparse(s_.targets[0]):
                cands.append((s_, s_.value.elt, ast.unparse(s_.value.generators[0].target)))
            elif isinstance(s_, ast.AugAssign) and isinstance(s_.target, ast.Attribute) and isinstance(s_.op, (ast.Add, ast.Sub)):
                cands.append((s_, ast.BinOp(left=ast.Name(id="__old__", ctx=ast.Load()), op=ast.Add(), right=s_.value), "__old__"))
        for s_, val, base in cands:
            n += 1
            rest = [(sg, t) for sg, t in _terms(expand(val)) if not vanishes(t)]
            rest2 = []
            for sg, t in rest:
                rest2 += [(sg * g2, t2) for g2, t2 in _terms(expand(t))] if isinstance(t, ast.Name) else [(sg, t)]
            rest = [(sg, t) for sg, t in rest2 if not vanishes(t)]
            ok = base is not None and len(rest) == 1 and rest[0][0] == 1 and ast.unparse(rest[0][1]) == base
            ctx.check(ok, "R17e", fi, s_, "`%s` reduces to the old value at sigma = 0" % norm(s_)[:50], "`%s` does not reduce to the previous value when sigma is 0 (what remains: %s): a sample drawn with zero uncertainty differs from its source" % (norm(s_)[:70], " ".join(("+" if sg > 0 else "-") + ast.unparse(t) for sg, t in rest) or "nothing"))
    ctx.require(n >= 5, "R17e: fewer perturbation stores (%d) in TimeSeries.sample / Covout.sample than confirmed (5)" % n)


def r17f(ctx, repo):
    ctx.rule("R17f", "sampling reaches every uncertain quantity: ParameterSet.sample calls par.sample(constant) for every parameter of the copy (all_pars ranges over pars, transfers and interactions); Parameter.sample replaces every population's series by ts.sample(constant); ProgramSet.sample calls sample on every program and every covout of the copy; Program.sample resamples each of its five series; each is unconditional")
    def one_loop_call(fi, iter_txts, call_pred, what):
        loops = [l for l in own_nodes(fi.node) if isinstance(l, ast.For) and ast.unparse(l.iter) in iter_txts]
        ok = False
        st = fi.node
        if len(loops) == 1 and isinstance(loops[0].target, (ast.Name, ast.Tuple)):
            calls = [s for s in loops[0].body if call_pred(s, loops[0])]
            ok = len(calls) == 1 and not guards_of(calls[0]) and not guards_of(loops[0])
            st = calls[0] if calls else loops[0]
        ctx.check(ok, "R17f", fi, st, what, "%s: %s is not done unconditionally for every element of %s - quantities left out are never perturbed, so samples that should differ are identical there" % (fi.qualname, what, " / ".join(iter_txts)), stmt_text="reach:%s:%s" % (fi.qualname, iter_txts[0]))

    fi = repo.func("parameters", "ParameterSet.sample")
    const = fi.params[1]
    one_loop_call(fi, ["new.all_pars()"], lambda s, l: isinstance(s, ast.Expr) and ast.unparse(s.value) == "%s.sample(%s)" % (ast.unparse(l.target), const), "par.sample(constant) for every parameter of the copy")
    ap = repo.func("parameters", "ParameterSet.all_pars")
    me = K.self_name(ap)
    srcs = " ".join(ast.unparse(l.iter) for l in own_nodes(ap.node) if isinstance(l, ast.For))
    ys = [y for y in own_nodes(ap.node) if isinstance(y, ast.Yield)]
    ok = all(k in srcs for k in ("%s.pars.values()" % me, "%s.transfers.values()" % me, "%s.interactions.values()" % me)) and len(ys) >= 2 and all(not guards_of(enclosing_stmt(y)) for y in ys)
    ctx.check(ok, "R17f", ap, ap.node, "all_pars yields parameters, transfers and interactions", "ParameterSet.all_pars does not (unconditionally) yield every parameter of pars, transfers and interactions: those left out are never sampled", stmt_text="all_pars")
    fi = repo.func("parameters", "Parameter.sample")
    me = K.self_name(fi)
    const = fi.params[1]
    one_loop_call(fi, ["%s.ts.items()" % me], lambda s, l: isinstance(s, ast.Assign) and isinstance(l.target, ast.Tuple) and ast.unparse(s.targets[0]) == "%s.ts[%s]" % (me, ast.unparse(l.target.elts[0])) and ast.unparse(s.value) == "%s.sample(%s)" % (ast.unparse(l.target.elts[1]), const), "ts.sample(constant) stored back for every population")
    fi = repo.func("programs", "ProgramSet.sample")
    const = fi.params[1]
    one_loop_call(fi, ["new.programs.values()"], lambda s, l: isinstance(s, ast.Expr) and ast.unparse(s.value) == "%s.sample(%s)" % (ast.unparse(l.target), const), "prog.sample(constant) for every program of the copy")
    one_loop_call(fi, ["new.covouts.values()"], lambda s, l: isinstance(s, ast.Expr) and ast.unparse(s.value) == "%s.sample()" % ast.unparse(l.target), "covout.sample() for every covout of the copy")
    fi = repo.func("programs", "Program.sample")
    me = K.self_name(fi)
    const = fi.params[1]
    got = set()
    for s in fi.node.body:
        if isinstance(s, ast.Assign) and isinstance(s.targets[0], ast.Attribute) and astq.is_name(s.targets[0].value, me) and ast.unparse(s.value) == "%s.%s.sample(%s)" % (me, s.targets[0].attr, const):
            got.add(s.targets[0].attr)
    want = {"spend_data", "unit_cost", "capacity_constraint", "saturation", "coverage"}
    ctx.check(want <= got, "R17f", fi, fi.node, "every program series is resampled", "Program.sample does not resample %s" % sorted(want - got), stmt_text="program-series")
