"""
Algebraic and accumulator rules for the per-step flow code (added after the mutation sweep showed that an operator or a
sign could be changed in the junction / flush / rescale arithmetic without any rule noticing).  Shared by C01, C02, C04, C05.
"""
import ast

from ..core.loader import AnalysisError, own_nodes, norm, enclosing_stmt
from ..core import astq
from ..core import algebra as A
from ..core.cfg import guards_of, ENTRY, EXIT
from . import common as K

ZERO_TEXTS = {"0", "0.0", "np.array([0], dtype=float)", "np.array([0.0])", "np.array([0])"}


def is_zero_init(e):
    t = ast.unparse(e)
    if t in ZERO_TEXTS:
        return True
    return isinstance(e, ast.Call) and ast.unparse(e.func) in ("np.zeros", "np.zeros_like")


def _zip_loop(fi):
    """for F, L in zip(X, self.outlinks)  ->  (loop, F, L, X)"""
    me = K.self_name(fi)
    for l in own_nodes(fi.node):
        if isinstance(l, ast.For) and isinstance(l.iter, ast.Call) and isinstance(l.iter.func, ast.Name) and l.iter.func.id == "zip" and len(l.iter.args) == 2 and isinstance(l.target, ast.Tuple) and len(l.target.elts) == 2 and all(isinstance(x, ast.Name) for x in l.target.elts):
            a, b = l.iter.args
            if ast.unparse(b) == "%s.outlinks" % me and isinstance(a, ast.Name):
                return l, l.target.elts[0].id, l.target.elts[1].id, a.id
    return None


def _inflow_name(fi):
    """the local that accumulates link values over self.inlinks"""
    me = K.self_name(fi)
    names = set()
    for l in own_nodes(fi.node):
        if isinstance(l, ast.For) and ast.unparse(l.iter) == "%s.inlinks" % me:
            for s in l.body:
                if isinstance(s, ast.AugAssign) and isinstance(s.target, ast.Name):
                    names.add(s.target.id)
                elif isinstance(s, ast.Assign) and isinstance(s.targets[0], ast.Name):
                    names.add(s.targets[0].id)
    return names.pop() if len(names) == 1 else None


def _sum_of(e, x):
    """is ``e`` the total of the array named x:  sum(x) / np.sum(x) / x.sum()"""
    t = ast.unparse(e)
    return t in ("sum(%s)" % x, "np.sum(%s)" % x, "%s.sum()" % x)


def share_rule(ctx, repo, rule):
    ctx.rule(rule, "share algebra of junctions: each outflow of a plain junction is inflow * proportion / sum(proportions); of a residual junction inflow * proportion (proportions already scaled to sum <= 1) or inflow - sum(inflow * proportions) for the residual link; the initial flush adds (never subtracts) stock * share to each destination with the same forms and then empties the junction")
    sites = [("JunctionCompartment.balance", "balance"), ("ResidualJunctionCompartment.balance", "balance"), ("JunctionCompartment.initial_flush", "flush"), ("ResidualJunctionCompartment.initial_flush", "flush")]
    n = 0
    for q, kind in sites:
        fi = repo.func("model", q)
        me = K.self_name(fi)
        z = _zip_loop(fi)
        if z is None:
            ctx.fail(rule, fi, fi.node, "%s does not distribute over `zip(<proportions>, self.outlinks)`: the pairing of each outflow link with its own proportion cannot be established" % q, stmt_text="share:zip")
            continue
        loop, F, L, X = z
        N = _inflow_name(fi) if kind == "balance" else "%s.vals[0]" % me
        if N is None:
            ctx.fail(rule, fi, fi.node, "%s: the inflow accumulator over self.inlinks was not found" % q, stmt_text="share:inflow")
            continue
        # proportions come from the outlinks' own parameters at the same index
        idx = fi.params[1] if kind == "balance" else "0"
        src_ok = False
        for s in own_nodes(fi.node):
            if isinstance(s, ast.Assign) and astq.is_name(s.targets[0], X):
                comp = [c for c in ast.walk(s.value) if isinstance(c, (ast.ListComp, ast.GeneratorExp))]
                if comp and ast.unparse(comp[0].elt) == "%s.parameter.vals[%s]" % (comp[0].generators[0].target.id if isinstance(comp[0].generators[0].target, ast.Name) else "?", idx) and ast.unparse(comp[0].generators[0].iter) == "%s.outlinks" % me:
                    src_ok = True
            if isinstance(s, ast.Assign) and isinstance(s.targets[0], ast.Subscript) and astq.is_name(s.targets[0].value, X) and ast.unparse(s.value).endswith(".parameter.vals[%s]" % idx):
                lp = [l for l in K.enclosing_loops(s) if "enumerate(%s.outlinks)" % me == ast.unparse(l.iter)]
                if lp and isinstance(lp[0].target, ast.Tuple) and ast.unparse(s.targets[0].slice) == ast.unparse(lp[0].target.elts[0]) and ast.unparse(s.value) == "%s.parameter.vals[%s]" % (ast.unparse(lp[0].target.elts[1]), idx):
                    src_ok = True
        ctx.check(src_ok, rule, fi, loop, "proportions are the outlinks' own parameter values at index %s, in outlink order" % idx, "%s: the proportions `%s` are not read from each outlink's own parameter at index %s in the order of self.outlinks" % (q, X, idx), stmt_text="share:source:%s" % q)
        # total and normalisation
        T = None
        for s in own_nodes(fi.node):
            if isinstance(s, ast.Assign) and isinstance(s.targets[0], ast.Name) and _sum_of(s.value, X):
                T = s.targets[0].id
        normalised = None
        for s in own_nodes(fi.node):
            if isinstance(s, ast.AugAssign) and astq.is_name(s.target, X):
                okn = isinstance(s.op, ast.Div) and (_sum_of(s.value, X) or (T is not None and astq.is_name(s.value, T)))
                ctx.check(okn, rule, fi, s, "proportions divided by their own sum", "`%s` does not divide the proportions by their own sum" % norm(s))
                normalised = s
                if "Residual" not in q:
                    # a plain junction has no residual link: whatever its proportions sum to, all of its people must leave
                    extra = [ast.unparse(t) for t, pol in guards_of(s) if ast.unparse(t) != "%s.vals[0] > 0" % me]
                    ctx.check(not extra, rule, fi, s, "normalisation of a plain junction's proportions is unconditional", "`%s` is only executed when %s: for proportions that sum to less than 1 the shortfall is not passed on and the people are dropped when the junction is emptied" % (norm(s), extra[:2]), stmt_text="share:normalise-guard:%s" % q)
        env = {k: v for k, v in A.single_assign_env(fi.node, own_nodes).items() if k not in (F, L, X, N, T)}
        # the outer-product local of the residual balance stands for N*X
        resid_polys = []
        for k, v in list(env.items()):
            m = A.mono(v, {})
            if m is not None and m[0] == 1 and m[1] == {N: 1, X: 1}:
                resid_polys.append(A.poly(A.parse("%s - np.sum(%s, axis=1)" % (N, k))))
                env.pop(k)
        resid_polys.append(A.poly(A.parse("%s - sum(%s * %s)" % (N, N, X))))
        resid_polys.append(A.poly(A.parse("%s - np.sum(%s * %s)" % (N, N, X))))

        def form(p):
            """classify a polynomial: 'share', 'share/T', 'residual' or None"""
            if p == {((F, 1), (N, 1)) if F < N else ((N, 1), (F, 1)): 1}:
                return "share"
            if T is not None and p == {tuple(sorted([(F, 1), (N, 1), (T, -1)])): 1}:
                return "share/T"
            if p in resid_polys:
                return "residual"
            return None

        # the expressions that reach a link value / a destination
        flows = []  # (stmt, expr, is_aug, op)
        loc = {}
        for s in ast.walk(loop):
            if isinstance(s, ast.Assign) and len(s.targets) == 1 and isinstance(s.targets[0], ast.Name) and s.targets[0].id not in (F, L):
                loc.setdefault(s.targets[0].id, []).append(s)
        for s in ast.walk(loop):
            tgt = s.targets[0] if isinstance(s, ast.Assign) and len(s.targets) == 1 else (s.target if isinstance(s, ast.AugAssign) else None)
            if tgt is None or not isinstance(tgt, ast.Subscript):
                continue
            tt = ast.unparse(tgt.value)
            if tt in ("%s.vals" % L, "%s._vals" % L, "%s.dest" % L):
                vals = [s.value]
                if isinstance(s.value, ast.Name) and s.value.id in loc:
                    vals = [a.value for a in loc[s.value.id]]
                for v in vals:
                    flows.append((s, v))
        if not flows:
            ctx.fail(rule, fi, loop, "%s: no store to the outflow links / destinations inside the distribution loop" % q, stmt_text="share:nostores:%s" % q)
        for s, v in flows:
            n += 1
            try:
                p = A.poly(v, env)
            except A.NotPolynomial:
                p = None
            f = form(p) if p is not None else None
            if kind == "balance":
                want = ("share",) if normalised is not None else ("share/T",)
                if "Residual" in q:
                    want = ("share", "residual")
                okf = f in want and isinstance(s, ast.Assign)
            else:
                want = ("share", "residual") if "Residual" in q else (("share",) if normalised is not None else ("share/T",))
                okf = f in want and isinstance(s, ast.AugAssign) and isinstance(s.op, ast.Add)
            ctx.check(okf, rule, fi, s, "`%s` has the form %s" % (norm(s)[:60], f), "`%s` (value %s) is not %s: what the junction passes on is no longer exactly what it receives, split by the stated proportions" % (norm(s)[:70], A.show(p) if p is not None else ast.unparse(v)[:60], " or ".join({"share": "%s * %s" % (N, F), "share/T": "%s * %s / %s" % (N, F, T or "sum"), "residual": "%s - sum(%s * %s)" % (N, N, X)}[w] for w in want) + (" added to the destination" if kind == "flush" else " assigned to the link")))
        if kind == "flush":
            z0 = [s for s in own_nodes(fi.node) if isinstance(s, ast.Assign) and ast.unparse(s.targets[0]) == "%s.vals[0]" % me]
            ok0 = len(z0) == 1 and ast.unparse(z0[0].value) in ("0", "0.0") and z0[0].lineno > loop.end_lineno
            ctx.check(ok0, rule, fi, z0[0] if z0 else fi.node, "the junction is emptied after the flush", "%s does not set self.vals[0] = 0 after distributing its initial stock" % q, stmt_text="share:empty:%s" % q)
    ctx.require(n >= 8, "%s: fewer share expressions (%d) than confirmed (8)" % (rule, n))


ACC_SITES = [
    "Compartment.resolve_outflows",
    "TimedCompartment.resolve_outflows",
    "JunctionCompartment.balance",
    "ResidualJunctionCompartment.balance",
    "Compartment.outflow",
    "SourceCompartment.resolve_outflows",
]


def _zero_default_container(e):
    """dict.fromkeys(keys, 0) / defaultdict(float) ... : every entry starts at zero"""
    if isinstance(e, ast.Call) and isinstance(e.func, ast.Attribute) and e.func.attr == "fromkeys" and len(e.args) == 2:
        return ast.unparse(e.args[1]) in ("0", "0.0")
    if isinstance(e, ast.Call) and ast.unparse(e.func) in ("defaultdict", "collections.defaultdict") and e.args:
        return ast.unparse(e.args[0]) in ("float", "int")
    return False


def accumulator_rule(ctx, repo, rule, sites=None, minimum=12, what="the per-step flow code"):
    sites = sites or [("model", q) for q in ACC_SITES]
    ctx.rule(rule, "accumulators of %s start at zero and only add: a name / attribute / entry that is augmented inside a loop but initialised outside it (in %s) is initialised to a zero constant (0, 0.0, np.zeros, a zero-default mapping) and is augmented with += only" % (what, ", ".join(q for m, q in sites)))
    n = 0
    for m, q in sites:
        try:
            fi = repo.func(m, q)
        except Exception:
            ctx.fail(rule, "atomica/%s.py" % m, None, "anchor %s.%s not found" % (m, q), stmt_text="acc-anchor:%s" % q)
            continue
        accs = {}
        for l in own_nodes(fi.node):
            if not isinstance(l, (ast.For, ast.While)):
                continue
            lvs = {x.id for x in ast.walk(l.target) if isinstance(x, ast.Name)} if isinstance(l, ast.For) else set()
            for s in ast.walk(l):
                if s is l:
                    continue
                if isinstance(s, ast.AugAssign):
                    base = astq.strip_subs(s.target)
                    root = base
                    while isinstance(root, ast.Attribute):
                        root = root.value
                    if isinstance(root, ast.Name) and root.id in lvs:
                        continue  # a store into the loop's own item, not an accumulator
                    key = ast.unparse(base)
                    if isinstance(l, ast.For) and ast.unparse(l.iter) in (key, key + ".keys()", key + ".items()", key + ".values()", "list(%s)" % key, "list(%s.keys())" % key):
                        continue  # a per-item update of the container being iterated, not an accumulation
                    # innermost loop only
                    if K.enclosing_loops(s) and K.enclosing_loops(s)[0] is not l:
                        continue
                    accs.setdefault(key, []).append((s, l))
                elif isinstance(s, ast.Assign) and len(s.targets) == 1 and isinstance(s.targets[0], ast.Name) and isinstance(s.value, ast.BinOp) and astq.is_name(s.value.left, s.targets[0].id):
                    if K.enclosing_loops(s) and K.enclosing_loops(s)[0] is l:
                        accs.setdefault(s.targets[0].id, []).append((s, l))
        for key, augs in accs.items():
            loops_ = {id(l) for s, l in augs}
            # initialisations: assignments to the accumulator (or to its container) outside the accumulating loops
            inits = []
            first = min(a.lineno for a, l in augs)
            aug_targets = {ast.unparse(a.target) for a, l in augs if isinstance(a, ast.AugAssign)}
            for s in own_nodes(fi.node):
                if isinstance(s, ast.Assign) and len(s.targets) == 1 and not any(s is a for a, l in augs) and s.lineno < first:
                    tt = ast.unparse(s.targets[0])
                    if tt == key or tt in aug_targets:
                        if not any(any(x is s for x in ast.walk(l)) for a, l in augs):
                            inits.append(s)
            if inits and isinstance(augs[0][0], ast.AugAssign) and isinstance(augs[0][0].target, ast.Name):
                # flow-sensitive for plain names: only the definitions that can reach the first accumulation
                rd = K.rdefs(repo, fi)
                reach = {id(rd.def_stmt(d)) for a, l in augs for d in rd.reaching_at_stmt(a, key) if rd.def_stmt(d) is not None}
                inits = [s for s in inits if id(s) in reach]
            if not inits:
                continue  # defined and augmented inside the same iteration: a per-item temporary, not an accumulator
            for s, l in augs:
                n += 1
                op = s.op if isinstance(s, ast.AugAssign) else s.value.op
                ctx.check(isinstance(op, ast.Add), rule, fi, s, "`%s` adds" % norm(s)[:50], "`%s` does not add to the accumulator `%s`: the total it stands for gets the wrong sign or scale" % (norm(s)[:60], key))
            ok = all(is_zero_init(s.value) or _zero_default_container(s.value) for s in inits)
            n += 1
            ctx.check(ok, rule, fi, inits[0], "accumulator `%s` starts at zero" % key, "the accumulator `%s` in %s is not initialised to zero before it is added to (%s): the total is off by a constant every time it is computed" % (key, q, ", ".join(norm(s)[:40] for s in inits)), stmt_text="acc-init:%s:%s" % (q, key))
    ctx.require(n >= minimum, "%s: fewer accumulator obligations (%d) than confirmed (%d)" % (rule, n, minimum))


def must_store_rule(ctx, repo, rule):
    ctx.rule(rule, "every update() of the compartment family writes the new stock on every path: a path that reaches the end of update() without a store to the step's slot leaves the preallocated NaN in the trajectory")
    n = 0
    for ci, fi in K.family_methods(repo, "update"):
        if K.is_noop(fi) or ci.name.startswith("Junction") or ci.name.startswith("ResidualJunction"):
            continue
        me = K.self_name(fi)
        ti = fi.params[1]
        cfg = K.cfg(repo, fi)
        stores = []
        for s in own_nodes(fi.node):
            tgt = s.targets[0] if isinstance(s, ast.Assign) and len(s.targets) == 1 else None
            if tgt is not None and isinstance(tgt, ast.Subscript) and ast.unparse(tgt.value) in ("%s.vals" % me, "%s._vals" % me):
                idx = tgt.slice.elts[-1] if isinstance(tgt.slice, ast.Tuple) else tgt.slice
                full = (not isinstance(tgt.slice, ast.Tuple)) or isinstance(tgt.slice.elts[0], ast.Slice) and tgt.slice.elts[0].lower is None and tgt.slice.elts[0].upper is None
                if ast.unparse(idx) == ti and full:
                    stores.append(s)
        n += 1
        if not stores:
            ctx.fail(rule, fi, fi.node, "%s.update never stores the stock of step `%s`" % (ci.name, ti), stmt_text="must-store:none:%s" % ci.name)
            continue
        ids = [i for s in stores for i in cfg.ids(s)]
        bad = cfg.find_path([ENTRY], [EXIT], avoid_ids=ids)
        ctx.check(bad is None, rule, fi, stores[0], "%s.update stores the step's stock on every path" % ci.name, "%s.update can return without storing the stock of step `%s` (path %s): the slot keeps its preallocated NaN, which then spreads through every flow out of the compartment" % (ci.name, ti, cfg.describe_path(bad) if bad else ""), stmt_text="must-store:%s" % ci.name)
    ctx.require(n >= 3, "%s: fewer update() methods (%d) than confirmed (3)" % (rule, n))


def duration_rule(ctx, repo, rule):
    ctx.rule(rule, "both keyring allocations compute the duration by the same product - the parameter value at index 0 x its timescale, where the value already carries the calibration scale factor (Model.build stores `interpolate(...) * par.scale_factor`, Parameter.update stores `scale_factor * fcn(...)`), so the scale factor may not be multiplied in again - and pass (duration, dt) to the row-count helper in that order: the duration people actually stay is the duration the result reports")
    polys = []
    for q in ("TimedCompartment.preallocate", "TimedLink.preallocate"):
        fi = repo.func("model", q)
        ds = [s for s in own_nodes(fi.node) if isinstance(s, ast.Assign) and astq.is_name(s.targets[0], "duration")]
        if len(ds) != 1:
            ctx.fail(rule, fi, fi.node, "%s: the duration expression was not found" % q, stmt_text="duration:%s" % q)
            continue
        txt = ast.unparse(ds[0].value).replace("self.parameter.", "P.").replace("parameter.", "P.")
        try:
            p = A.poly(A.parse(txt))
        except A.NotPolynomial:
            p = None
        polys.append((fi, ds[0], p))
        # the row count: first element of the shape tuple of the np.empty(...) that follows the duration
        calls = []
        for c in own_nodes(fi.node):
            if isinstance(c, ast.Call) and ast.unparse(c.func) in ("np.empty", "np.zeros", "np.full") and c.args and isinstance(c.args[0], ast.Tuple) and c.args[0].elts and isinstance(c.args[0].elts[0], ast.Call) and c.lineno > ds[0].lineno:
                calls.append(c.args[0].elts[0])
        ok = bool(calls) and all([ast.unparse(a) for a in c.args] == ["duration", fi.params[2]] and not c.keywords for c in calls)
        ctx.check(ok, rule, fi, enclosing_stmt(calls[0]) if calls else fi.node, "rows = <helper>(duration, dt)", "%s does not compute its number of rows as <row-count helper>(duration, %s)" % (q, fi.params[2]), stmt_text="duration-call:%s" % q)
    if len(polys) == 2:
        want = {(("P.timescale", 1), ("P.vals[0]", 1)): 1}
        twice = {(("P.scale_factor", 1), ("P.timescale", 1), ("P.vals[0]", 1)): 1}
        for fi, s, p in polys:
            ctx.check(p == want, rule, fi, s, "duration = value x timescale (the value carries the scale factor)", ("`%s` multiplies the parameter's scale factor in a second time (the stored values already include it): with a y-factor y on a timed duration the keyring holds y*y*D/dt rows while the result reports a duration of y*D" % norm(s)[:80]) if p == twice else ("`%s` is not parameter.vals[0] * timescale (normal form %s): the compartment and the links through its duration group no longer agree on how long people stay" % (norm(s)[:80], A.show(p) if p is not None else "?")), stmt_text="duration-product:%s" % fi.qualname)


def flush_formula_rule(ctx, repo, rule):
    ctx.rule(rule, "the timed outflow empties the oldest row exactly: flush link value = max(0, <row 0 of the step> - <outflow already taken from row 0>), and it is then added to the cached outflow of row 0")
    fi = repo.func("model", "TimedCompartment.resolve_outflows")
    me, ti = K.self_name(fi), fi.params[1]
    st = [s for s in own_nodes(fi.node) if isinstance(s, ast.Assign) and ast.unparse(s.targets[0]) == "%s.flush_link.vals[%s]" % (me, ti)]
    if len(st) != 1:
        ctx.fail(rule, fi, fi.node, "the store of the flush link's flow was not found", stmt_text="flush:store")
        return
    v = st[0].value
    inner = None
    if isinstance(v, ast.Call) and ast.unparse(v.func) in ("max", "np.maximum") and len(v.args) == 2:
        z = [a for a in v.args if ast.unparse(a) in ("0", "0.0")]
        o = [a for a in v.args if ast.unparse(a) not in ("0", "0.0")]
        if len(z) == 1 and len(o) == 1:
            inner = o[0]
    ok = False
    if inner is not None:
        try:
            ok = A.poly(inner) == A.poly(A.parse("%s._vals[0, %s] - %s._cached_outflow[0]" % (me, ti, me)))
        except A.NotPolynomial:
            ok = False
    ctx.check(ok, rule, fi, st[0], "flush = max(0, row0 - outflow already taken from row 0)", "`%s` is not max(0, %s._vals[0, %s] - %s._cached_outflow[0]): the oldest cohort is not released in full (or more than it holds is released) when its duration expires" % (norm(st[0])[:90], me, ti, me))
    add = [s for s in own_nodes(fi.node) if isinstance(s, ast.AugAssign) and ast.unparse(s.target) == "%s._cached_outflow[0]" % me]
    ok = len(add) == 1 and isinstance(add[0].op, ast.Add) and ast.unparse(add[0].value) == "%s.flush_link.vals[%s]" % (me, ti) and add[0].lineno > st[0].lineno
    ctx.check(ok, rule, fi, add[0] if add else st[0], "flushed people are added to the cached outflow of row 0", "the flushed amount is not added to self._cached_outflow[0] after it is computed", stmt_text="flush:cached")


def link_registration_rule(ctx, repo, rule):
    ctx.rule(rule, "Link.create registers the new link with its parameter (parameter.links) whenever it has one, so that update_links converts the parameter into a flow for it; the flush link of a timed compartment is the only link detached from its parameter")
    fi = repo.func("model", "Link.create")
    reg = [c for c in own_nodes(fi.node) if isinstance(c, ast.Call) and isinstance(c.func, ast.Attribute) and c.func.attr == "append" and ast.unparse(c.func.value).endswith(".parameter.links")]
    if not reg:
        reg = [c for c in own_nodes(fi.node) if isinstance(c, ast.Call) and isinstance(c.func, ast.Attribute) and c.func.attr == "append" and ast.unparse(c.func.value) == "%s.links" % fi.params[2]]
    if len(reg) != 1:
        ctx.fail(rule, fi, fi.node, "Link.create does not append the new link to its parameter's `links`: update_links never computes a flow for it, so the transition moves nobody", stmt_text="link-reg:missing")
        return
    c = reg[0]
    new = ast.unparse(c.args[0]) if c.args else ""
    made = [s for s in own_nodes(fi.node) if isinstance(s, ast.Assign) and astq.is_name(s.targets[0], new) and isinstance(s.value, ast.Call) and ast.unparse(s.value.func) == fi.params[0]]
    g = [(ast.unparse(t), pol) for t, pol in guards_of(c)]
    okg = g in ([("%s is not None" % fi.params[2], True)], [("%s.parameter is not None" % new, True)], [("%s is None" % fi.params[2], False)])
    ctx.check(bool(made) and okg, rule, fi, enclosing_stmt(c), "the new link is appended to parameter.links iff it has a parameter", "`%s` is executed under %s (expected: exactly when the parameter is not None) or does not register the link just created" % (norm(enclosing_stmt(c)), g))


def _foreach_call(fi, method, arg_txt):
    """
    Does ``fi`` call  <c>.<method>(<arg>)  for every compartment of every population, unconditionally?
    -> (ok, call stmt or None, why)
    """
    me = K.self_name(fi)
    calls = [c for c in own_nodes(fi.node) if isinstance(c, ast.Call) and isinstance(c.func, ast.Attribute) and c.func.attr == method and isinstance(c.func.value, ast.Name)]
    for c in calls:
        cv = c.func.value.id
        loops = K.enclosing_loops(c)
        inner = [l for l in loops if isinstance(l.target, ast.Name) and l.target.id == cv]
        if not inner:
            continue
        it = inner[0].iter
        if not (isinstance(it, ast.Attribute) and it.attr == "comps" and isinstance(it.value, ast.Name)):
            return False, enclosing_stmt(c), "the loop ranges over `%s`, not over a population's comps" % ast.unparse(it)
        pv = it.value.id
        outer = [l for l in loops if isinstance(l.target, ast.Name) and l.target.id == pv]
        if not outer or ast.unparse(outer[0].iter) != "%s.pops" % me:
            return False, enclosing_stmt(c), "the population loop does not range over %s.pops" % me
        g = [ast.unparse(t) for t, pol in guards_of(c)]
        if g:
            return False, enclosing_stmt(c), "the call is conditional on %s" % g[:2]
        if [ast.unparse(a) for a in c.args] != [arg_txt] or c.keywords:
            return False, enclosing_stmt(c), "the call passes (%s), expected (%s)" % (", ".join(ast.unparse(a) for a in c.args), arg_txt)
        return True, enclosing_stmt(c), ""
    return False, None, "no call <comp>.%s(...) in a loop over every compartment" % method


def step_wiring_rule(ctx, repo, rule):
    ctx.rule(rule, "the step touches every compartment: Model.update_comps calls comp.update(ti) and Model.update_links calls comp.resolve_outflows(ti) for every compartment of every population, unconditionally, with ti = self._t_index")
    for q, method in (("Model.update_comps", "update"), ("Model.update_links", "resolve_outflows")):
        fi = repo.func("model", q)
        me = K.self_name(fi)
        tis = [s for s in own_nodes(fi.node) if isinstance(s, ast.Assign) and isinstance(s.targets[0], ast.Name) and ast.unparse(s.value) == "%s._t_index" % me]
        if not tis:
            ctx.fail(rule, fi, fi.node, "%s does not take its index from self._t_index" % q, stmt_text="step-index:%s" % q)
            continue
        ok, st, why = _foreach_call(fi, method, tis[0].targets[0].id)
        ctx.check(ok, rule, fi, st if st is not None else fi.node, "%s: %s(ti) for every compartment of every population" % (q, method), "%s: %s - compartments left out keep their preallocated NaN (or stale flows), so people vanish from the trajectory" % (q, why), stmt_text="foreach:%s.%s" % (q, method))


def process_prologue(ctx, repo, rule):
    ctx.rule(rule, "Model.process prepares every run the same way: self._set_exec_order() and then self._update_program_cache() are called unconditionally before the first update_pars / flush_junctions / update_links (the index-0 evaluation uses this run's execution order and knows whether programs are active), whatever happened to the object before (copied, unpickled, edited after build)")
    fi = repo.func("model", "Model.process")
    me = K.self_name(fi)
    cfg = K.cfg(repo, fi)

    def calls(name):
        return [s for s in own_nodes(fi.node) if isinstance(s, ast.Expr) and isinstance(s.value, ast.Call) and ast.unparse(s.value.func) == "%s.%s" % (me, name)]

    first_use = [s for nm in ("update_pars", "flush_junctions", "update_links", "update_comps") for s in calls(nm)]
    prev = None
    for nm, why in (("_set_exec_order", "a model that was edited after build(), or copied / unpickled, runs with a stale or differently computed execution order, so a copy no longer reproduces the original"), ("_update_program_cache", "at the first index programs_active is still unset, so a run started inside the program period (a restart from a saved state) evaluates its first step without the programs")):
        cs = calls(nm)
        ok = len(cs) == 1 and not [g for g in guards_of(cs[0]) if not (isinstance(g[0], ast.Compare) and "_t_index == 0" in ast.unparse(g[0]) and g[1])]
        ok = ok and all(cfg.dominates(cs[0], u) for u in first_use) and bool(first_use)
        if ok and prev is not None:
            ok = cfg.dominates(prev, cs[0])
        ctx.check(ok, rule, fi, cs[0] if cs else fi.node, "%s() unconditionally before the first evaluation" % nm, "Model.process does not call self.%s() unconditionally before the first update_pars / flush_junctions / update_links: %s" % (nm, why), stmt_text="prologue:%s" % nm)
        prev = cs[0] if cs else None


PER_STEP_METHODS = ("update", "resolve_outflows", "balance")
STEP_ATTRS = {"vals", "_vals", "_cached_outflow", "_cache", "_dx", "_source_popsize_cache_time", "_source_popsize_cache_val"}


def stateless_step_rule(ctx, repo, rule):
    ctx.rule(rule, "a step is a function of the previous step: the per-step methods of the compartment, link, characteristic and parameter families (update / resolve_outflows / balance) store on self only the step's own slots (vals / _vals), the per-step outflow cache, the link cache and the derivative - no other attribute survives from one step (or one run) to the next")
    n = 0
    for base in ("Compartment", "Link", "Characteristic", "Parameter"):
        for mname in PER_STEP_METHODS:
            try:
                fam = K.family_methods(repo, mname, base=base)
            except AnalysisError:
                fam = []  # this family has no method of that name
            for ci, fi in fam:
                me = K.self_name(fi)
                n += 1
                bad = []
                for s, t, k, v in astq.stores(fi.node):
                    if k in ("for", "with"):
                        continue
                    b = astq.strip_subs(t)
                    if isinstance(b, ast.Attribute) and astq.is_name(b.value, me) and b.attr not in STEP_ATTRS:
                        bad.append((s, b.attr))
                    if isinstance(b, ast.Attribute) and isinstance(b.value, ast.Attribute) and astq.is_name(b.value.value, me) and b.value.attr == "flush_link" and b.attr in ("vals", "_cache"):
                        continue
                ctx.check(not bad, rule, fi, bad[0][0] if bad else fi.node, "%s.%s keeps no state of its own between steps" % (ci.name, mname), "`%s` in %s.%s stores `self.%s`, which outlives the step: what the method does at a later step (or in a later run of the same object, or in a copy) depends on what happened before, not only on the previous step's values" % (norm(bad[0][0])[:70] if bad else "", ci.name, mname, bad[0][1] if bad else ""))
    ctx.require(n >= 10, "%s: fewer per-step methods (%d) than confirmed (10)" % (rule, n))


def kind_dispatch_rule(ctx, repo, rule):
    from ..core import boolx as B

    ctx.rule(rule, "every compartment of the framework becomes the model object of its kind: in Population.build (for compartments of this population's type) residual junction iff its name is in the residual set; junction iff 'is junction' == 'y'; timed iff it has a duration group; source iff 'is source' == 'y'; sink iff 'is sink' == 'y'; ordinary otherwise - in that priority, each appended to self.comps exactly once")
    fi = repo.func("model", "Population.build")
    me = K.self_name(fi)
    loops = [l for l in own_nodes(fi.node) if isinstance(l, ast.For) and "comps.index" in ast.unparse(l.iter) and isinstance(l.target, ast.Name)]
    if len(loops) != 1:
        ctx.fail(rule, fi, fi.node, "the loop over the framework's compartments was not found in Population.build", stmt_text="kind:loop")
        return
    lp = loops[0]
    c = lp.target.id
    at_ = lambda col: "comps.at[%s, '%s']" % (c, col)
    mine = "%s == %s.type" % (at_("population type"), me)
    R, J, T, S, Z = "%s in residual_junctions" % c, "%s == 'y'" % at_("is junction"), at_("duration group"), "%s == 'y'" % at_("is source"), "%s == 'y'" % at_("is sink")
    want = {
        "ResidualJunctionCompartment": "(%s) and (%s)" % (mine, R),
        "JunctionCompartment": "(%s) and not (%s) and (%s)" % (mine, R, J),
        "TimedCompartment": "(%s) and not (%s) and not (%s) and (%s)" % (mine, R, J, T),
        "SourceCompartment": "(%s) and not (%s) and not (%s) and not (%s) and (%s)" % (mine, R, J, T, S),
        "SinkCompartment": "(%s) and not (%s) and not (%s) and not (%s) and not (%s) and (%s)" % (mine, R, J, T, S, Z),
        "Compartment": "(%s) and not (%s) and not (%s) and not (%s) and not (%s) and not (%s)" % (mine, R, J, T, S, Z),
    }
    seen = {}
    for call in ast.walk(lp):
        if isinstance(call, ast.Call) and ast.unparse(call.func) == "%s.comps.append" % me and call.args and isinstance(call.args[0], ast.Call) and isinstance(call.args[0].func, ast.Name):
            seen.setdefault(call.args[0].func.id, []).append(call)
    for kind, w in want.items():
        cs = seen.get(kind, [])
        ok = len(cs) == 1
        cx = None
        if ok:
            got = B.cond(guards_of(enclosing_stmt(cs[0]), stop=lp, asserts=False))
            ok = B.equivalent(got, B.parse_cond(w))
            cx = B.counterexample(got, B.parse_cond(w))
        ctx.check(ok, rule, fi, enclosing_stmt(cs[0]) if cs else lp, "%s created exactly for compartments of its kind" % kind, "%s is not created (once) exactly for the compartments the framework marks as that kind (differs e.g. when %s): a compartment of another kind steps with the wrong rules - a junction that keeps people, a source that is drawn down, a timed compartment that never releases" % (kind, cx), stmt_text="kind:%s" % kind)
    extra = sorted(set(seen) - set(want))
    ctx.check(not extra, rule, fi, lp, "no other compartment class is instantiated", "Population.build also creates %s" % extra, stmt_text="kind:extra")
