"""C09 - interventions have no effect before they start (DESIGN 4, C09)."""
import ast

from ..core.loader import AnalysisError, own_nodes, norm, enclosing_stmt
from ..core import astq, regions as R
from ..core.cfg import guards_of
from ..core.types import is_inst
from . import common as K
from . import c01, c06

EXPLANATION = (
    "R09a: every program-driven store in Model.update_pars is control-dependent on programs_active and start_year <= t <= stop_year (evaluated over the five order "
    "regions of the window). R09b: every interpolate() of a program series in programs.py is stepped (method='previous'): linear interpolation would ramp towards a "
    "future value and leak an intervention backwards in time. R09c: a parameter scenario partitions the time axis at its first overwrite year (shared with C06). "
    "R09d: causal indexing - per-step methods read model arrays only at the current or previous index and write only the current index (next index for the derivative "
    "Euler step), never a slice over time; update() reads strictly the previous step (R01d).  Exact equality of pre-start outputs is a runtime quantity and is not decided."
)

PROGRAM_SERIES_ATTRS = {"spend_data", "baseline_spend", "unit_cost", "capacity_constraint", "saturation", "coverage", "alloc", "capacity"}


def run(ctx):
    repo = ctx.repo
    T = K.types(repo)
    ctx.each(r09a, ctx, repo)
    ctx.each(r09b, ctx, repo, T)
    ctx.rule("R09c", "ParameterScenario.get_parset: baseline pinned strictly before the first overwrite year, overwrites and function suspension from that year on, one threshold")
    ctx.each(c06.scenario_partition, ctx, repo, "R09c")
    ctx.each(r09d, ctx, repo, T)
    ctx.each(r09e, ctx, repo)
    ctx.each(r09f, ctx, repo)
    from . import c03 as _c03

    ctx.each(_c03.r03f, ctx, repo)  # extending the end year reproduces the shorter run: the grid spacing is dt whatever the end year, so the end is re-snapped whenever start or step change
    ctx.each(c06.r06n, ctx, repo)  # the function of a scenario parameter is suspended on exactly the scenario window, evaluated everywhere else (also when no simulated time lies inside the window)
    ctx.each(c06.r06b, ctx, repo)  # before the scenario start a precomputed function parameter keeps its function values: the build-time evaluation is not switched off by the suspension window
    ctx.each(c06.r06g, ctx, repo)  # program overwrites and program-book series are stepped ('previous') series: before the first point they hold the first value
    ctx.rule("R01d", "update(ti) reads step ti-1 and writes step ti (see C01); shared here because a read at ti inside update() would let a flow act one step early")
    ctx.each(c01.r01d, ctx, repo, T)


def _expand_flags(fi, test, depth=0):
    """Conjuncts of a guard with local boolean flags replaced by their (unique) defining expression."""
    out = []
    for c in R.split_conjuncts(test):
        if isinstance(c, ast.Name) and depth < 3:
            defs = [s for s in own_nodes(fi.node) if isinstance(s, ast.Assign) and len(s.targets) == 1 and astq.is_name(s.targets[0], c.id)]
            if len(defs) == 1:
                out += _expand_flags(fi, defs[0].value, depth + 1)
                continue
        out.append(c)
    return out


def r09a(ctx, repo):
    ctx.rule("R09a", "program stores in update_pars are gated by programs_active and start_year <= t[ti] <= stop_year")
    fi = repo.func("model", "Model.update_pars")
    me = K.self_name(fi)
    loop = c06._dyn_loop(fi)
    A, B, Cc, Dd = c06.stage_sets(fi, loop)
    # every statement that reads the program outcomes
    pv_defs = [s for s in own_nodes(fi.node) if isinstance(s, ast.Assign) and "get_outcomes(" in ast.unparse(s.value) and isinstance(s.targets[0], ast.Name)]
    ctx.require(len(pv_defs) == 1, "R09a: `prog_vals = self.progset.get_outcomes(...)` not found in update_pars")
    pv = pv_defs[0].targets[0].id
    users = [s for s in own_nodes(fi.node) if isinstance(s, (ast.Assign, ast.AugAssign)) and pv in {n.id for n in ast.walk(s.value) if isinstance(n, ast.Name)}]
    stores = {id(s): s for s in users + B}
    ctx.require(len(stores) >= 3, "R09a: fewer program stores (%d) than confirmed (4)" % len(stores))
    tvar = None
    for s in stores.values():
        conj = []
        for t, pol in guards_of(s):
            if pol:
                conj += _expand_flags(fi, t)
        active = any(ast.unparse(c) == "%s.programs_active" % me for c in conj)
        window = [c for c in conj if "start_year" in ast.unparse(c) or "stop_year" in ast.unparse(c)]
        lo = hi = None
        for c in window:
            for n in ast.walk(c):
                if isinstance(n, ast.Attribute) and n.attr == "start_year":
                    lo = ast.unparse(n)
                if isinstance(n, ast.Attribute) and n.attr == "stop_year":
                    hi = ast.unparse(n)
                if isinstance(n, ast.Subscript) and ast.unparse(n.value) == "%s.t" % me:
                    tvar = ast.unparse(n)
        regs = None
        if lo and tvar:
            try:
                regs = frozenset({"<lo", "=lo", "mid", "=hi", ">hi"})
                for c in window:
                    regs = regs & R.two_threshold_truth(c, tvar, lo, hi or "__none__")
            except R.Unrecognised as e:
                raise AnalysisError("R09a: unrecognised program window test `%s`" % e)
        good = active and regs == frozenset({"=lo", "mid", "=hi"})
        why = []
        if not active:
            why.append("not conditional on programs_active")
        if regs is None:
            why.append("not conditional on the program start year")
        elif regs != frozenset({"=lo", "mid", "=hi"}):
            why.append("active in regions %s of [start_year, stop_year] (expected =start, inside, =stop)" % sorted(regs))
        ctx.check(good, "R09a", fi, s, "program store gated by the start/stop window", "program-driven store `%s` is %s: programs change parameters before their start year or after their stop year" % (norm(s)[:70], "; ".join(why)))


def r09b(ctx, repo, T):
    ctx.rule("R09b", "every interpolate() on a program series (spending, unit cost, capacity constraint, saturation, coverage; instruction overwrites) in programs.py uses method='previous'")
    n = program_interpolations(ctx, repo, T, ["programs"], "R09b", fail=True)
    ctx.require(n >= 9, "R09b: fewer program-series interpolate() sites in programs.py (%d) than confirmed (10)" % n)


def is_program_series(T, fi, call):
    recv = call.func.value
    t = T.type_at(recv, fi, call)
    if fi.qualname.startswith("ProgramInstructions."):
        # everything ProgramInstructions holds is a program series (spending, capacity, coverage overwrites): an overwrite handed in by the
        # caller is one too, whatever local name it goes by
        return True
    if is_inst(t) and T.isa(t, "utils", "TimeSeries"):
        # which attribute does it come from
        a = astq.attr_in_path(recv, PROGRAM_SERIES_ATTRS)
        return a is not None
    a = astq.attr_in_path(recv, PROGRAM_SERIES_ATTRS - {"coverage", "capacity"})
    return a is not None and t is None and isinstance(recv, (ast.Attribute, ast.Subscript))


def interp_method(call):
    m = astq.kwarg(call, "method", pos=1)
    if m is None:
        return "linear (default)"
    if isinstance(m, ast.Constant):
        return m.value
    return ast.unparse(m)


def program_interpolations(ctx, repo, T, modules, rule, fail=True, note_only_funcs=()):
    n = 0
    for mname in modules:
        for fi in repo.module(mname).all_functions():
            for c in own_nodes(fi.node):
                if isinstance(c, ast.Call) and isinstance(c.func, ast.Attribute) and c.func.attr == "interpolate" and is_program_series(T, fi, c):
                    n += 1
                    ctx.examine()
                    m = interp_method(c)
                    if m == "previous":
                        ctx.ok(rule, fi, "stepped interpolation of `%s`" % ast.unparse(c.func.value), c)
                    elif fail and fi.qualname not in note_only_funcs:
                        ctx.fail(rule, fi, enclosing_stmt(c), "program series `%s` is interpolated with method %s instead of 'previous': between two entered years the value ramps towards the later one, so a change dated Y is felt before Y" % (ast.unparse(c.func.value), m))
                    else:
                        ctx.note(rule, "%s:%d %s interpolates `%s` with method %s (not a simulation or reporting path)" % (fi.module.relpath, c.lineno, fi.qualname, ast.unparse(c.func.value), m))
    return n


PER_STEP = [
    ("model", "Model.update_pars"), ("model", "Model.update_links"), ("model", "Model.update_comps"), ("model", "Parameter.source_popsize"), ("model", "Parameter.constrain"),
    ("model", "Characteristic.update"), ("model", "Link.update"), ("model", "TimedLink.update"),
]


def r09d(ctx, repo, T):
    ctx.rule("R09d", "per-step methods index model arrays only by the current / previous step (next step only as the derivative write), never by a slice over time")
    funcs = [repo.func(m, q) for m, q in PER_STEP]
    for nm in ("update", "resolve_outflows", "balance"):
        funcs += [fi for ci, fi in K.family_methods(repo, nm)]
    n = 0
    for fi in funcs:
        if K.is_noop(fi):
            continue
        me = K.self_name(fi)
        # the step variable: the method's index parameter, or a local bound to self._t_index
        tnames = set()
        if len(fi.params) > 1 and fi.params[1] in ("ti",):
            tnames.add(fi.params[1])
        for s in own_nodes(fi.node):
            if isinstance(s, ast.Assign) and isinstance(s.targets[0], ast.Name) and ast.unparse(s.value) == "%s._t_index" % me:
                tnames.add(s.targets[0].id)
        if not tnames:
            continue
        for node in own_nodes(fi.node):
            if not isinstance(node, ast.Subscript):
                continue
            base = node.value
            is_model_array = (isinstance(base, ast.Attribute) and base.attr in ("vals", "_vals")) or (isinstance(base, ast.Name) and is_inst(T.type_at(base, fi, node)) and T.isa(T.type_at(base, fi, node), "model", "Variable"))
            if isinstance(base, ast.Subscript) and "interactions" in ast.unparse(base):
                is_model_array = True
            if not is_model_array:
                continue
            if isinstance(getattr(node, "_parent", None), ast.Subscript) and node._parent.value is node:
                continue  # inner part of a chained subscript
            tix = K.time_index_of(node)
            stmt = enclosing_stmt(node)
            n += 1
            ctx.examine()
            is_store = isinstance(node.ctx, ast.Store) or (isinstance(getattr(node, "_parent", None), ast.AugAssign) and node._parent.target is node)
            txt = ast.unparse(tix)
            cur = isinstance(tix, ast.Name) and tix.id in tnames
            prev = any(K.resolves_to_prev_index(repo, fi, tix, stmt, t) for t in tnames)
            nxt = isinstance(tix, ast.BinOp) and isinstance(tix.op, ast.Add) and isinstance(tix.left, ast.Name) and tix.left.id in tnames and astq.is_const(tix.right, 1)
            mask_or_const = isinstance(tix, ast.Constant) and fi.name in ("preallocate",)
            if cur or prev:
                ctx.ok("R09d", fi, "index `%s` is the current/previous step" % txt, stmt)
            elif nxt and is_store and any(pol and "derivative" in ast.unparse(t) for t, pol in guards_of(node)):
                ctx.ok("R09d", fi, "derivative Euler step writes the next index", stmt)
            elif isinstance(tix, ast.Name) and tix.id in ("key",):
                continue
            else:
                kind = "a slice over time" if isinstance(tix, ast.Slice) else "index `%s`" % txt
                ctx.fail("R09d", fi, stmt, "per-step method %s %s a model array at %s: a value of a later (or arbitrary) step can influence the step being computed" % (fi.qualname, "writes" if is_store else "reads", kind))
    ctx.require(n >= 40, "R09d: fewer indexed accesses examined (%d) than confirmed (40)" % n)


def r09e(ctx, repo):
    ctx.rule("R09e", "a scenario touches only what it names: Parameter.smooth changes nothing but the series of the populations it is given (no attribute of the Parameter itself is stored; the series edited is self.ts[pop] for pop in the requested populations), and the interpolation method shared by all populations of a parameter is assigned only in Parameter.__init__ (and by the migration of old projects)")
    fi = repo.func("parameters", "Parameter.smooth")
    me = K.self_name(fi)
    stores = [s for s, t, k, v in astq.stores(fi.node) if k in ("assign", "aug") and isinstance(astq.strip_subs(t), ast.Attribute) and astq.is_name(astq.strip_subs(t).value, me)]
    ctx.check(not stores, "R09e", fi, stores[0] if stores else fi.node, "Parameter.smooth stores nothing on the parameter itself", "`%s` changes an attribute of the whole parameter inside smooth(pop_names=...): ParameterScenario smooths only the overwritten population, so every other population of the parameter changes too - before the scenario's first year" % (norm(stores[0])[:80] if stores else ""))
    loops = [l for l in own_nodes(fi.node) if isinstance(l, ast.For) and ast.unparse(l.iter) == "pop_names" and isinstance(l.target, ast.Name)]
    ok = len(loops) == 1
    if ok:
        p = loops[0].target.id
        tsb = [s for s in loops[0].body if isinstance(s, ast.Assign) and ast.unparse(s.value) == "%s.ts[%s]" % (me, p)]
        ok = len(tsb) == 1
        if ok:
            tsn = ast.unparse(tsb[0].targets[0])
            muts = [c for c in ast.walk(loops[0]) if isinstance(c, ast.Call) and isinstance(c.func, ast.Attribute) and c.func.attr in ("insert", "remove", "remove_between", "remove_after", "remove_before") ]
            ok = bool(muts) and all(ast.unparse(c.func.value) == tsn for c in muts)
    ctx.check(ok, "R09e", fi, loops[0] if loops else fi.node, "only the requested populations' series are edited", "Parameter.smooth edits a series other than self.ts[pop] for pop in pop_names", stmt_text="smooth-scope")
    n = 0
    for f in repo.all_functions():
        for s, t, k, v in astq.stores(f.node):
            if isinstance(t, ast.Attribute) and t.attr == "_interpolation_method":
                n += 1
                ok = f.qualname == "Parameter.__init__" or f.module.name.endswith("migration")
                ctx.check(ok, "R09e", f, s, "interpolation method set at construction / migration only", "`%s` in %s changes the interpolation method shared by every population of the parameter: values of populations nobody asked to change are re-interpolated over the whole run" % (norm(s)[:70], f.qualname))
    ctx.require(n >= 1, "R09e: no assignment of _interpolation_method found")


def r09f(ctx, repo):
    from .c08 import engines

    ctx.rule("R09f", "a scenario is built on copies (effect summaries): get_parset / get_progset / get_instructions of every Scenario class mutate neither the parameter set / program set handed in nor the scenario object itself, so the baseline they were derived from - and a second run of the same scenario - are unchanged; the constructors and ParameterScenario.add keep their own copies of the values handed in")
    T, cg, E = engines(repo)
    n = 0
    for ci in repo.module("scenarios").classes.values():
        for name in ("get_parset", "get_progset", "get_instructions"):
            fi = ci.methods.get(name)
            if fi is None:
                continue
            for p in fi.params:
                if p not in (fi.params[0], "parset", "progset"):
                    continue
                n += 1
                if E.mutates(fi, p):
                    chain = E.explain(fi, p)
                    ctx.fail("R09f", fi, fi.node, "%s.%s changes its `%s` in place: %s - the baseline (or the scenario definition) is altered by running the scenario" % (ci.name, name, p, "  ->  ".join(chain)[:300]), stmt_text="mutates:%s" % p)
                else:
                    ctx.ok("R09f", fi, "%s.%s leaves `%s` untouched" % (ci.name, name, p))
    ctx.require(n >= 10, "R09f: fewer scenario builder methods (%d) than confirmed" % n)
    # values handed to the constructors are copied
    for cname, pname in (("ParameterScenario", "scenario_values"), ("BudgetScenario", "alloc"), ("CoverageScenario", "coverage")):
        fi = repo.func("scenarios", "%s.__init__" % cname)
        ctx.require(pname in fi.params, "R09f: %s.__init__ lost its parameter `%s`" % (cname, pname))
        uses = [x for x in ast.walk(fi.node) if isinstance(x, ast.Name) and x.id == pname and isinstance(x.ctx, ast.Load)]
        bad = []
        for u in uses:
            par = getattr(u, "_parent", None)
            if isinstance(par, ast.Compare):
                continue
            if isinstance(par, ast.Call) and ast.unparse(par.func) in ("sc.dcp", "dcp", "copy.deepcopy"):
                continue
            if isinstance(par, ast.keyword) or (isinstance(par, ast.Call) and ast.unparse(par.func).endswith("__init__")):
                continue  # forwarded to the base constructor
            bad.append(u)
        ctx.check(not bad, "R09f", fi, enclosing_stmt(bad[0]) if bad else fi.node, "%s keeps a deep copy of `%s`" % (cname, pname), "%s.__init__ stores `%s` without a deep copy: editing the caller's object afterwards changes the scenario (and the scenario's own edits change the caller's object)" % (cname, pname), stmt_text="ctor-copy:%s" % pname)
